//! C18 (tier S) — a subscriber reconstructs the Adj-RIB-In whenever it subscribes, for every
//! interleaving of its snapshot walk with writers on any shard.
//!
//! The real `TableManager` runs under shuttle: its shard locks are `shuttle::sync::Mutex` (hook in
//! daemon/src/table_manager.rs, `--cfg osrg_rustybgp_verif_shuttle`) and there is a scheduling point
//! after every load of the subscriber list and after the registration in `subscribe`.  Writer
//! threads stand for session tasks (one peer each: up / insert / remove / hard down / graceful
//! down / End-of-RIB purge), subscriber threads call `subscribe(true)` at a point of their own and
//! decide which peers they know to be up the way `BmpClient::serve` does (established flag read
//! after the snapshot, then PeerUp / PeerDown events).  One seed = one op list + one schedule.
//!
//! Oracle, after all threads have been joined and the subscription channel drained:
//!   * fold: for every peer the subscriber knows to be up and that is up, the events folded per
//!     (peer, prefix, path-id) equal `Table::iter_reach` (pre-policy) and `iter_reach_post`
//!     (post-policy) of that peer, stale (retained) routes of an earlier session set aside;
//!   * sentinel: exactly one EndOfSnapshot per subscription and nothing from the snapshot walk after it.

use super::super::*;
use shuttle::sync::atomic::{AtomicBool, AtomicUsize, Ordering as SOrd};
use std::collections::{BTreeMap, BTreeSet};
use std::sync::Mutex as StdMutex;
use vcore::{jarr, jobj, Check, CheckInfo, Json, LogHash, Outcome, Rng, Tolerate, Violation};

pub(crate) struct SubscribeInterleavings;

const N_PFX: u64 = 8;

fn peer_addr(w: usize) -> IpAddr {
    IpAddr::V4(Ipv4Addr::new(10, 0, 1, w as u8 + 1))
}

fn pfx(i: u64) -> packet::Nlri {
    packet::Nlri::V4(bgp::Ipv4Net { addr: Ipv4Addr::new(10, 10 + (i as u8 % 4), i as u8, 0), mask: 24 })
}

fn attrs(w: usize, variant: u64) -> Arc<Vec<packet::Attribute>> {
    let mut path = Vec::new();
    path.push(2u8);
    path.push(1u8);
    path.extend_from_slice(&(65001u32 + w as u32).to_be_bytes());
    Arc::new(vec![
        packet::Attribute::new_with_value(packet::Attribute::ORIGIN, 0).unwrap(),
        packet::Attribute::new_with_bin(packet::Attribute::AS_PATH, path).unwrap(),
        packet::Attribute::new_with_value(packet::Attribute::MULTI_EXIT_DESC, variant as u32).unwrap(),
    ])
}

fn new_source(w: usize) -> Arc<table::Source> {
    Arc::new(table::Source::new(peer_addr(w), IpAddr::V4(Ipv4Addr::new(10, 0, 1, 254)), 65001 + w as u32, 65000, Ipv4Addr::new(10, 0, 1, w as u8 + 1), table::PeerRole::Ebgp))
}

/// Import policy used when the case asks for one: reject prefixes 0 and 1, set LOCAL_PREF 200 on the rest.
fn import_policy() -> Arc<table::PolicyAssignment> {
    let mut pt = table::PolicyTable::new();
    pt.add_defined_set(table::DefinedSetConfig::Prefix {
        name: "deny".into(),
        prefixes: (0..2)
            .map(|i| {
                let packet::Nlri::V4(n) = pfx(i) else { unreachable!() };
                table::PrefixConfig { ip_prefix: format!("{}/{}", n.addr, n.mask), mask_length_min: 24, mask_length_max: 24 }
            })
            .collect(),
    })
    .unwrap();
    pt.add_statement("deny", vec![table::ConditionConfig::PrefixSet("deny".into(), table::MatchOption::Any)], Some(table::Disposition::Reject), table::Actions::default()).unwrap();
    let mut a = table::Actions::default();
    a.local_pref = Some(table::LocalPrefAction { value: 200 });
    pt.add_statement("lp", vec![], None, a).unwrap();
    pt.add_policy("p", vec!["deny".into(), "lp".into()]).unwrap();
    pt.add_assignment("global", table::PolicyDirection::Import, table::Disposition::Accept, vec!["p".into()]).unwrap().1
}

type Key = (IpAddr, String, u32);
type Val = (String, Option<bgp::Nexthop>);

fn val_of(a: &Arc<Vec<packet::Attribute>>, nh: Option<bgp::Nexthop>) -> Val {
    let mut v: Vec<String> = a.iter().map(|x| format!("{:?}", x)).collect();
    v.sort();
    (v.join(","), nh)
}

#[derive(Default)]
struct SubResult {
    /// the raw event sequence of one subscription
    events: Vec<BgpEvent>,
    known_up_after_snapshot: BTreeSet<IpAddr>,
    subscribed: bool,
}

struct Shared {
    tables: Arc<TableManager>,
    est: Vec<AtomicBool>,
    order: StdMutex<Vec<(usize, usize)>>, // (thread, op index) in execution order: the interleaving
    step: AtomicUsize,
}

fn open_msg(asn: u32) -> bgp::Message {
    bgp::Message::Open(bgp::Open { as_number: asn, holdtime: bgp::HoldTime::new(90).unwrap(), router_id: 1, capability: vec![] })
}

fn scenario(case: Json, result: Arc<StdMutex<(Outcome, LogHash)>>, tol: Tolerate) {
    let shards = case.i("shards", 2).clamp(1, 8) as usize;
    let n_writers = case.i("writers", 2).clamp(1, 4) as usize;
    let n_subs = case.i("subs", 1).clamp(1, 3) as usize;
    let tables = Arc::new(TableManager::new(shards));
    if case.i("policy", 0) != 0 {
        tables.import_policy.store(Some(import_policy()));
    }
    let shared = Arc::new(Shared { tables: tables.clone(), est: (0..n_writers).map(|_| AtomicBool::new(false)).collect(), order: StdMutex::new(Vec::new()), step: AtomicUsize::new(0) });
    let ops: Vec<Json> = case.get("ops").map(|o| o.arr().to_vec()).unwrap_or_default();
    let fams = [Family::IPV4];

    let mut handles = Vec::new();
    for w in 0..n_writers {
        let prog: Vec<(usize, Json)> = ops.iter().enumerate().filter(|(_, o)| o.at(0).as_usize() == w).map(|(i, o)| (i, o.clone())).collect();
        let sh = shared.clone();
        handles.push(shuttle::thread::spawn(move || {
            let addr = peer_addr(w);
            let mut source = new_source(w);
            let mut up = false;
            let mut counts: BTreeMap<String, u64> = BTreeMap::new();
            for (i, op) in prog {
                sh.order.lock().unwrap().push((w, i));
                sh.step.fetch_add(1, SOrd::SeqCst);
                let tag = op.at(1).as_str().to_string();
                match tag.as_str() {
                    "up" if !up => {
                        // a new session is a new Source; established flag first, PeerUp event after
                        source = new_source(w);
                        sh.est[w].store(true, SOrd::SeqCst);
                        sh.tables.peer_up(PeerUpData {
                            peer_addr: addr,
                            peer_asn: 65001 + w as u32,
                            peer_id: 1,
                            uptime: 0,
                            local_addr: IpAddr::V4(Ipv4Addr::new(10, 0, 1, 254)),
                            local_port: 179,
                            remote_port: 40000,
                            sent_open: open_msg(65000),
                            received_open: open_msg(65001 + w as u32),
                        });
                        up = true;
                    }
                    "ins" if up => {
                        let net = packet::PathNlri { nlri: pfx(op.at(2).as_u64() % N_PFX), path_id: op.at(4).as_u32() };
                        sh.tables.insert_route(source.clone(), Family::IPV4, net, Some(bgp::Nexthop::V4(Ipv4Addr::new(192, 0, 2, w as u8 + 1))), attrs(w, op.at(3).as_u64()), None, 1);
                    }
                    "rm" if up => {
                        let net = packet::PathNlri { nlri: pfx(op.at(2).as_u64() % N_PFX), path_id: op.at(3).as_u32() };
                        sh.tables.remove_route(source.clone(), Family::IPV4, net, None, 1);
                    }
                    "down" | "gdown" if up => {
                        // order of the session task: flag cleared, routes dropped / marked stale, PeerDown event
                        sh.est[w].store(false, SOrd::SeqCst);
                        if tag == "down" {
                            sh.tables.unregister_peer(addr, &fams, &[]);
                        } else {
                            sh.tables.unregister_peer(addr, &[], &fams);
                        }
                        sh.tables.peer_down(PeerDownData { peer_addr: addr, peer_asn: 65001 + w as u32, peer_id: 1, uptime: 0, reason: packet::bmp::PeerDownReason::RemoteUnexpected });
                        up = false;
                    }
                    "eor" if up => {
                        sh.tables.drop_stale_families(addr, &fams);
                    }
                    "softin" => {
                        // the operator switches the import policy and soft-resets this peer inbound:
                        // every path of the peer is re-evaluated and its post-policy state re-announced
                        sh.tables.import_policy.store(if op.at(2).as_bool() { Some(import_policy()) } else { None });
                        sh.tables.soft_reset_in(addr);
                    }
                    _ => {
                        *counts.entry("op.skipped-in-this-state".into()).or_insert(0) += 1;
                        continue;
                    }
                }
                *counts.entry(format!("op.{}", tag)).or_insert(0) += 1;
            }
            (up, counts)
        }));
    }

    let mut sub_handles = Vec::new();
    for s in 0..n_subs {
        let tid = n_writers + s;
        let prog: Vec<(usize, Json)> = ops.iter().enumerate().filter(|(_, o)| o.at(0).as_usize() == tid).map(|(i, o)| (i, o.clone())).collect();
        let sh = shared.clone();
        sub_handles.push(shuttle::thread::spawn(move || {
            let mut res = SubResult::default();
            let mut sub: Option<crate::table_manager::Subscription> = None;
            for (i, op) in prog {
                sh.order.lock().unwrap().push((tid, i));
                match op.at(1).as_str() {
                    "wait" => {
                        // let the writers make progress: a subscriber that arrives late
                        let target = sh.step.load(SOrd::SeqCst) + op.at(2).as_usize();
                        let mut spins = 0;
                        while sh.step.load(SOrd::SeqCst) < target && spins < 200 {
                            shuttle::thread::sleep(std::time::Duration::ZERO);
                            spins += 1;
                        }
                    }
                    "sub" if sub.is_none() && !res.subscribed => {
                        let sb = sh.tables.subscribe(true);
                        // what BmpClient::serve does next: read which peers are established
                        for (w, f) in sh.est.iter().enumerate() {
                            if f.load(SOrd::SeqCst) {
                                res.known_up_after_snapshot.insert(peer_addr(w));
                            }
                        }
                        res.subscribed = true;
                        sub = Some(sb);
                    }
                    "unsub" => {
                        if let Some(mut sb) = sub.take() {
                            sh.tables.unsubscribe(sb.id);
                            while let Ok(ev) = sb.rx.try_recv() {
                                res.events.push(ev);
                            }
                        }
                    }
                    _ => {}
                }
            }
            (res, sub)
        }));
    }

    let mut writer_up = Vec::new();
    let mut counters: BTreeMap<String, u64> = BTreeMap::new();
    for h in handles {
        let (up, c) = h.join().unwrap();
        writer_up.push(up);
        for (k, v) in c {
            *counters.entry(k).or_insert(0) += v;
        }
    }
    let mut subs = Vec::new();
    for h in sub_handles {
        let (mut res, sub) = h.join().unwrap();
        let still = sub.is_some();
        if let Some(mut sb) = sub {
            while let Ok(ev) = sb.rx.try_recv() {
                res.events.push(ev);
            }
        }
        subs.push((res, still));
    }

    // ---- oracle (single-threaded from here) ------------------------------------------------
    let mut guard = result.lock().unwrap();
    let (out, log) = &mut *guard;
    for (k, v) in counters {
        out.count(&k, v);
    }
    let order = shared.order.lock().unwrap().clone();
    let mut sig = LogHash::default();
    for (t, i) in &order {
        sig.add_u64((*t as u64) << 32 | *i as u64);
        log.add_u64((*t as u64) << 32 | *i as u64);
    }
    out.signature = sig.0;
    out.steps = order.len() as u64;

    // the RIB, per peer
    let mut rib_pre: BTreeMap<Key, (Val, bool)> = BTreeMap::new();
    let mut rib_post: BTreeMap<Key, (Val, bool)> = BTreeMap::new();
    for shard in &tables.shards {
        let t = shard.lock().unwrap();
        for r in t.rtable.iter_reach(Family::IPV4) {
            rib_pre.insert((r.source.remote_addr, format!("{:?}", r.net.nlri), r.net.path_id), (val_of(&r.attr, r.nexthop), r.source.is_stale()));
        }
        for r in t.rtable.iter_reach_post(Family::IPV4) {
            rib_post.insert((r.source.remote_addr, format!("{:?}", r.net.nlri), r.net.path_id), (val_of(&r.attr, r.nexthop), r.source.is_stale()));
        }
    }
    log.add_u64(rib_pre.len() as u64);

    for (si, (res, still_subscribed)) in subs.into_iter().enumerate() {
        let still_subscribed = &still_subscribed;
        if !res.subscribed {
            continue;
        }
        out.hit("sub.subscriptions");
        let n_eos = res.events.iter().filter(|e| matches!(e, BgpEvent::EndOfSnapshot)).count();
        if n_eos != 1 {
            let v = Violation::new("C18/sentinel/end-of-snapshot-count", format!("subscriber {}: {} EndOfSnapshot events in one subscription", si, n_eos));
            if out.violate(&tol, v) {
                return;
            }
        }
        // snapshot phase: the daemon's own fold (bmp::fold_snapshot_event, what BmpClient::serve runs)
        let mut snap = crate::bmp::SnapshotMap::default();
        let mut snap_post = crate::bmp::SnapshotMap::default();
        let mut events = res.events.into_iter();
        let mut live_during_snapshot = 0u64;
        let mut trace: Vec<String> = Vec::new();
        let brief = |ev: &BgpEvent| -> String {
            match ev {
                BgpEvent::AdjRibIn(c) => format!("{}{}:{:?}", if c.attrs.is_some() { "+" } else { "-" }, c.source.remote_addr, c.nlris.iter().map(|n| format!("{}#{}", n.nlri, n.path_id)).collect::<Vec<_>>()),
                BgpEvent::AdjRibInPost(c) => format!("post{}{}:{:?}", if c.attrs.is_some() { "+" } else { "-" }, c.source.remote_addr, c.nlris.iter().map(|n| format!("{}#{}", n.nlri, n.path_id)).collect::<Vec<_>>()),
                BgpEvent::PeerUp(d) => format!("UP {}", d.peer_addr),
                BgpEvent::PeerDown(d) => format!("DOWN {}", d.peer_addr),
                BgpEvent::EndOfSnapshot => "EOS".into(),
                _ => "other".into(),
            }
        };
        for ev in events.by_ref() {
            trace.push(brief(&ev));
            if matches!(&ev, BgpEvent::AdjRibIn(c) if c.attrs.is_none()) || matches!(&ev, BgpEvent::PeerDown(_)) {
                live_during_snapshot += 1;
            }
            if !crate::bmp::fold_snapshot_event(&mut snap, &mut snap_post, ev) {
                break;
            }
        }
        // ... kept only for the peers found established afterwards, as serve() does
        let mut known_up: BTreeSet<IpAddr> = res.known_up_after_snapshot.clone();
        let mut pre: BTreeMap<Key, Val> = BTreeMap::new();
        let mut post: BTreeMap<Key, Val> = BTreeMap::new();
        for (m, sm) in [(&mut pre, &snap), (&mut post, &snap_post)] {
            for (peer, routes) in sm.iter() {
                if !known_up.contains(peer) {
                    continue;
                }
                for ((_, n), c) in routes.iter() {
                    if let Some(a) = &c.attrs {
                        m.insert((*peer, format!("{:?}", n.nlri), n.path_id), val_of(a, c.nexthop));
                    }
                }
            }
        }
        // live phase
        trace.push(format!("known-up {:?}", known_up));
        for ev in events {
            trace.push(brief(&ev));
            let known = known_up.clone();
            let mut route = |is_post: bool, c: AdjRibInChange| {
                // route monitoring counts only between a peer's PeerUp and PeerDown (RFC 7854 4.6)
                if !known.contains(&c.source.remote_addr) {
                    return;
                }
                let m = if is_post { &mut post } else { &mut pre };
                for n in &c.nlris {
                    let key: Key = (c.source.remote_addr, format!("{:?}", n.nlri), n.path_id);
                    match &c.attrs {
                        Some(a) => {
                            m.insert(key, val_of(a, c.nexthop));
                        }
                        None => {
                            m.remove(&key);
                        }
                    }
                }
            };
            match ev {
                BgpEvent::AdjRibIn(c) => route(false, c),
                BgpEvent::AdjRibInPost(c) => route(true, c),
                BgpEvent::PeerUp(d) => {
                    known_up.insert(d.peer_addr);
                }
                BgpEvent::PeerDown(d) => {
                    if known_up.remove(&d.peer_addr) {
                        pre.retain(|k, _| k.0 != d.peer_addr);
                        post.retain(|k, _| k.0 != d.peer_addr);
                    }
                }
                BgpEvent::EndOfSnapshot => {
                    let v = Violation::new("C18/sentinel/end-of-snapshot-count", format!("subscriber {}: a second EndOfSnapshot in the live stream", si));
                    if out.violate(&tol, v) {
                        return;
                    }
                }
                _ => {}
            }
        }
        out.count("probe.withdrawal-interleaved-with-snapshot", live_during_snapshot);
        if !*still_subscribed {
            // unsubscribed before the end: the fold is only a prefix of history, nothing to compare
            out.hit("sub.unsubscribed-early");
            continue;
        }
        for w in 0..n_writers {
            let a = peer_addr(w);
            if !writer_up[w] || !known_up.contains(&a) {
                continue;
            }
            out.nontrivial = true;
            for (name, got, rib) in [("pre-policy", &pre, &rib_pre), ("post-policy", &post, &rib_post)] {
                let got_p: BTreeMap<&Key, &Val> = got.iter().filter(|(k, _)| k.0 == a).collect();
                let fresh: BTreeMap<&Key, &Val> = rib.iter().filter(|(k, v)| k.0 == a && !v.1).map(|(k, v)| (k, &v.0)).collect();
                let stale: BTreeMap<&Key, &Val> = rib.iter().filter(|(k, v)| k.0 == a && v.1).map(|(k, v)| (k, &v.0)).collect();
                // every route of the live session must be known with the same content
                for (k, v) in &fresh {
                    match got_p.get(k) {
                        Some(g) if g == v => {}
                        Some(g) => {
                            let v = Violation::new(format!("C18/fold/{}/stale-content", name), format!("subscriber {}: {:?} folds to {:?} but the RIB holds {:?}", si, k, g, v));
                            if out.violate(&tol, v) {
                                return;
                            }
                        }
                        None => {
                            let v = Violation::new(format!("C18/fold/{}/update-missing", name), format!("subscriber {}: {:?} is in the RIB ({:?}) but in neither the snapshot nor the live stream; order {:?}; events {:?}", si, k, v, order, trace));
                            if out.violate(&tol, v) {
                                return;
                            }
                        }
                    }
                }
                // nothing may be known that the RIB does not hold (retained stale routes count as held)
                for (k, g) in &got_p {
                    if !fresh.contains_key(k) && !stale.contains_key(k) {
                        let v = Violation::new(format!("C18/fold/{}/phantom-route", name), format!("subscriber {}: {:?} folds to {:?} but the RIB has no such route; order {:?}; events {:?}", si, k, g, order, trace));
                        if out.violate(&tol, v) {
                            return;
                        }
                    }
                }
            }
        }
    }
}

impl Check for SubscribeInterleavings {
    fn property(&self) -> &'static str {
        "C18"
    }
    fn tier(&self) -> &'static str {
        "S"
    }
    fn name(&self) -> &'static str {
        "subscribe-interleavings"
    }

    fn generate(&self, seed: u64, thorough: bool) -> Json {
        let mut rng = Rng::new(seed);
        let writers = rng.range(1, 3);
        let subs = rng.range(1, 2);
        let shards = rng.range(1, 4);
        let n = rng.range(6, if thorough { 40 } else { 24 });
        let gr = rng.chance(1, 3);
        let mut ops: Vec<Json> = Vec::new();
        // every writer starts by coming up (before or after the subscription: the schedule decides)
        for w in 0..writers {
            ops.push(jarr![w, "up"]);
        }
        let mut sub_done = vec![false; subs as usize];
        for _ in 0..n {
            if rng.chance(1, 6) {
                let s = rng.below(subs);
                let tid = writers + s;
                if !sub_done[s as usize] {
                    if rng.chance(1, 2) {
                        ops.push(jarr![tid, "wait", rng.range(1, 6)]);
                    }
                    ops.push(jarr![tid, "sub"]);
                    sub_done[s as usize] = true;
                } else if rng.chance(1, 8) {
                    ops.push(jarr![tid, "unsub"]);
                }
                continue;
            }
            let w = rng.below(writers);
            match rng.weighted(&[50, 20, 5, if gr { 5 } else { 0 }, 5, if gr { 5 } else { 0 }, 6]) {
                0 => ops.push(jarr![w, "ins", rng.below(N_PFX), rng.below(3), if rng.chance(1, 5) { 1u64 } else { 0u64 }]),
                1 => ops.push(jarr![w, "rm", rng.below(N_PFX), if rng.chance(1, 5) { 1u64 } else { 0u64 }]),
                2 => ops.push(jarr![w, "down"]),
                3 => ops.push(jarr![w, "gdown"]),
                4 => ops.push(jarr![w, "up"]),
                6 => ops.push(jarr![w, "softin", rng.coin()]),
                _ => ops.push(jarr![w, "eor"]),
            }
        }
        for s in 0..subs {
            if !sub_done[s as usize] {
                ops.push(jarr![writers + s, "sub"]);
            }
        }
        let pct = rng.chance(1, 4);
        jobj! {
            "writers" => writers, "subs" => subs, "shards" => shards, "policy" => rng.below(2),
            "sched" => if pct { "pct" } else { "random" }, "sched_seed" => rng.next_u64() >> 1, "pct_depth" => rng.range(1, 4),
            "ops" => Json::Arr(ops)
        }
    }

    fn execute(&self, case: &Json, tol: &Tolerate) -> Outcome {
        let result: Arc<StdMutex<(Outcome, LogHash)>> = Arc::new(StdMutex::new((Outcome::default(), LogHash::default())));
        let mut cfg = shuttle::Config::new();
        cfg.stack_size = 1 << 20;
        cfg.failure_persistence = shuttle::FailurePersistence::None;
        cfg.max_steps = shuttle::MaxSteps::FailAfter(200_000);
        let seed = case.get("sched_seed").map(|s| s.as_u64()).unwrap_or(1);
        let (c2, r2, t2) = (case.clone(), result.clone(), tol.clone());
        let body = move || scenario(c2.clone(), r2.clone(), t2.clone());
        if case.s("sched") == "pct" {
            let depth = case.i("pct_depth", 2).clamp(1, 8) as usize;
            shuttle::Runner::new(shuttle::scheduler::PctScheduler::new_from_seed(seed, depth, 1), cfg).run(body);
        } else {
            shuttle::Runner::new(shuttle::scheduler::RandomScheduler::new_from_seed(seed, 1), cfg).run(body);
        }
        let mut g = result.lock().unwrap();
        let (out, log) = &mut *g;
        let mut o = std::mem::take(out);
        o.log_hash = log.0;
        o.hit(if case.s("sched") == "pct" { "sched.pct" } else { "sched.random" });
        o
    }

    fn info(&self) -> CheckInfo {
        CheckInfo {
            rule: "1-3 writer threads (one peer each: up, insert, remove, hard down, graceful down, End-of-RIB purge, import policy switched with soft reset IN) and 1-2 subscriber threads (wait, subscribe with snapshot, unsubscribe) over a TableManager with 1-4 shards and an optional import policy, executed under shuttle's random or PCT scheduler (one schedule per seed; scheduling points at every shard-lock acquisition, after every subscriber-list load and after the registration); the subscriber decides which peers are up the way BmpClient::serve does. distinct = hash of the (thread, op) execution order; non-trivial = a subscription was compared with the RIB for a peer that was up".into(),
            components_real: vec!["TableManager::{subscribe, unsubscribe, insert_route, remove_route, unregister_peer, drop_stale_families, peer_up, peer_down} and TableShard notify_* / disconnected / mark_stale / drop_stale".into(), "table::Table (insert, remove, drop, restale, drop_stale, iter_reach, iter_reach_post) and the import policy evaluator".into(), "arc_swap subscriber list, tokio unbounded channels".into()],
            components_stubbed: vec!["session tasks reduced to their TableManager call order (established flag, register, PeerUp / flag, unregister, PeerDown)".into(), "BmpClient::serve reduced to its fold rules (the real client runs in tier D)".into(), "std::sync::Mutex replaced by shuttle::sync::Mutex (that is the seam)".into()],
            assumptions: vec!["a subscriber discards what it learnt of a peer when that peer's PeerDown arrives (RFC 7854 section 4.9); routes retained as stale for a restarting peer therefore may be unknown to it, but nothing it knows may be absent from the RIB".into()],
            bounds: "<=40 ops, <=3 writers, <=2 subscribers, <=4 shards, 8 prefixes, IPv4 unicast".into(),
        }
    }
}
