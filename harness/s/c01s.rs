//! C01 (tier S) — a neighbour's view converges to the Loc-RIB for every interleaving of its
//! registration (initial dump, shard by shard) with writers on any shard.
//!
//! `TableManager::register_peer` hands the new session each shard's table under that shard's lock
//! and installs the session's event channel in the same critical section; every mutator fans its
//! `NlriChange` out to the channels it finds under the lock.  The property ("no withdrawal or
//! update is lost between the initial dump and the live stream") therefore hinges on lock order,
//! which the single-threaded tier D cannot vary.  Here the real `TableManager` runs under shuttle:
//! writer threads stand for source sessions (up / insert / remove / hard down / graceful down /
//! End-of-RIB purge), consumer threads register at a point of their own, take the initial dump the
//! way `on_established` does (`collect_loc_rib_paths_limited` inside the `on_shard` callback) and
//! later fold the events of their channel: a plain consumer applies events with `best_changed`, an
//! add-path consumer events with `any_changed`.
//!
//! Oracle after join: each registered consumer's folded view equals `collect_loc_rib_paths` of
//! every shard (best path per prefix; whole path list per prefix).

use super::super::*;
use shuttle::sync::atomic::{AtomicUsize, Ordering as SOrd};
use std::collections::BTreeMap;
use std::sync::Mutex as StdMutex;
use vcore::{jarr, jobj, Check, CheckInfo, Json, LogHash, Outcome, Rng, Tolerate, Violation};

pub(crate) struct RegisterInterleavings;

const N_PFX: u64 = 8;

fn peer_addr(w: usize) -> IpAddr {
    IpAddr::V4(Ipv4Addr::new(10, 0, 1, w as u8 + 1))
}

fn pfx(i: u64) -> packet::Nlri {
    packet::Nlri::V4(bgp::Ipv4Net { addr: Ipv4Addr::new(10, 10 + (i as u8 % 4), i as u8, 0), mask: 24 })
}

fn attrs(w: usize, variant: u64) -> Arc<Vec<packet::Attribute>> {
    let mut path = Vec::new();
    path.push(2u8);
    path.push(1u8);
    path.extend_from_slice(&(65001u32 + w as u32).to_be_bytes());
    Arc::new(vec![
        packet::Attribute::new_with_value(packet::Attribute::ORIGIN, 0).unwrap(),
        packet::Attribute::new_with_bin(packet::Attribute::AS_PATH, path).unwrap(),
        packet::Attribute::new_with_value(packet::Attribute::MULTI_EXIT_DESC, variant as u32).unwrap(),
    ])
}

fn new_source(w: usize) -> Arc<table::Source> {
    Arc::new(table::Source::new(peer_addr(w), IpAddr::V4(Ipv4Addr::new(10, 0, 1, 254)), 65001 + w as u32, 65000, Ipv4Addr::new(10, 0, 1, w as u8 + 1), table::PeerRole::Ebgp))
}

/// Import policy used when the case asks for one: reject prefixes 0 and 1, set LOCAL_PREF 200 on the rest.
fn import_policy() -> Arc<table::PolicyAssignment> {
    let mut pt = table::PolicyTable::new();
    pt.add_defined_set(table::DefinedSetConfig::Prefix {
        name: "deny".into(),
        prefixes: (0..2)
            .map(|i| {
                let packet::Nlri::V4(n) = pfx(i) else { unreachable!() };
                table::PrefixConfig { ip_prefix: format!("{}/{}", n.addr, n.mask), mask_length_min: 24, mask_length_max: 24 }
            })
            .collect(),
    })
    .unwrap();
    pt.add_statement("deny", vec![table::ConditionConfig::PrefixSet("deny".into(), table::MatchOption::Any)], Some(table::Disposition::Reject), table::Actions::default()).unwrap();
    let mut a = table::Actions::default();
    a.local_pref = Some(table::LocalPrefAction { value: 200 });
    pt.add_statement("lp", vec![], None, a).unwrap();
    pt.add_policy("p", vec!["deny".into(), "lp".into()]).unwrap();
    pt.add_assignment("global", table::PolicyDirection::Import, table::Disposition::Accept, vec!["p".into()]).unwrap().1
}


type PathView = (IpAddr, String, Option<bgp::Nexthop>);

fn view_of(p: &table::Path) -> PathView {
    let mut v: Vec<String> = p.attr.iter().map(|x| format!("{:?}", x)).collect();
    v.sort();
    (p.source.remote_addr, v.join(","), p.nexthop)
}

struct Shared {
    tables: Arc<TableManager>,
    order: StdMutex<Vec<(usize, usize)>>,
    step: AtomicUsize,
}

#[derive(Default)]
struct ConsumerResult {
    best: BTreeMap<String, PathView>,
    all: BTreeMap<String, Vec<PathView>>,
    registered: bool,
    events: u64,
    dumps: u64,
}

fn apply_change(res: &mut ConsumerResult, c: &table::NlriChange, from_dump: bool) {
    let key = format!("{:?}", c.net);
    if from_dump || c.best_changed {
        match c.current_paths.first() {
            Some(p) => {
                res.best.insert(key.clone(), view_of(p));
            }
            None => {
                res.best.remove(&key);
            }
        }
    }
    if from_dump || c.any_changed {
        if c.current_paths.is_empty() {
            res.all.remove(&key);
        } else {
            res.all.insert(key, c.current_paths.iter().map(view_of).collect());
        }
    }
}

fn scenario(case: Json, result: Arc<StdMutex<(Outcome, LogHash)>>, tol: Tolerate) {
    let shards = case.i("shards", 2).clamp(1, 8) as usize;
    let n_writers = case.i("writers", 2).clamp(1, 4) as usize;
    let n_cons = case.i("consumers", 1).clamp(1, 3) as usize;
    let tables = Arc::new(TableManager::new(shards));
    if case.i("policy", 0) != 0 {
        tables.import_policy.store(Some(import_policy()));
    }
    let shared = Arc::new(Shared { tables: tables.clone(), order: StdMutex::new(Vec::new()), step: AtomicUsize::new(0) });
    let ops: Vec<Json> = case.get("ops").map(|o| o.arr().to_vec()).unwrap_or_default();
    let fams = [Family::IPV4];

    let mut handles = Vec::new();
    for w in 0..n_writers {
        let prog: Vec<(usize, Json)> = ops.iter().enumerate().filter(|(_, o)| o.at(0).as_usize() == w).map(|(i, o)| (i, o.clone())).collect();
        let sh = shared.clone();
        handles.push(shuttle::thread::spawn(move || {
            let addr = peer_addr(w);
            let mut source = new_source(w);
            let mut up = false;
            let mut counts: BTreeMap<String, u64> = BTreeMap::new();
            for (i, op) in prog {
                sh.order.lock().unwrap().push((w, i));
                sh.step.fetch_add(1, SOrd::SeqCst);
                let tag = op.at(1).as_str().to_string();
                match tag.as_str() {
                    "up" if !up => {
                        source = new_source(w);
                        up = true;
                    }
                    "ins" if up => {
                        let net = packet::PathNlri { nlri: pfx(op.at(2).as_u64() % N_PFX), path_id: op.at(4).as_u32() };
                        sh.tables.insert_route(source.clone(), Family::IPV4, net, Some(bgp::Nexthop::V4(Ipv4Addr::new(192, 0, 2, w as u8 + 1))), attrs(w, op.at(3).as_u64()), None, 1);
                    }
                    "rm" if up => {
                        let net = packet::PathNlri { nlri: pfx(op.at(2).as_u64() % N_PFX), path_id: op.at(3).as_u32() };
                        sh.tables.remove_route(source.clone(), Family::IPV4, net, None, 1);
                    }
                    "down" | "gdown" if up => {
                        if tag == "down" {
                            sh.tables.unregister_peer(addr, &fams, &[]);
                        } else {
                            sh.tables.unregister_peer(addr, &[], &fams);
                        }
                        up = false;
                    }
                    "eor" if up => sh.tables.drop_stale_families(addr, &fams),
                    _ => {
                        *counts.entry("op.skipped-in-this-state".into()).or_insert(0) += 1;
                        continue;
                    }
                }
                *counts.entry(format!("op.{}", tag)).or_insert(0) += 1;
            }
            counts
        }));
    }

    let mut cons_handles = Vec::new();
    for c in 0..n_cons {
        let tid = n_writers + c;
        let prog: Vec<(usize, Json)> = ops.iter().enumerate().filter(|(_, o)| o.at(0).as_usize() == tid).map(|(i, o)| (i, o.clone())).collect();
        let sh = shared.clone();
        cons_handles.push(shuttle::thread::spawn(move || {
            let addr = IpAddr::V4(Ipv4Addr::new(10, 0, 2, c as u8 + 1));
            let mut res = ConsumerResult::default();
            let mut rx: Option<mpsc::UnboundedReceiver<ToPeerEvent>> = None;
            let drain = |rx: &mut mpsc::UnboundedReceiver<ToPeerEvent>, res: &mut ConsumerResult| {
                while let Ok(ev) = rx.try_recv() {
                    if let ToPeerEvent::NlriChange(ch) = ev {
                        res.events += 1;
                        apply_change(res, &ch, false);
                    }
                }
            };
            for (i, op) in prog {
                sh.order.lock().unwrap().push((tid, i));
                match op.at(1).as_str() {
                    "wait" => {
                        let target = sh.step.load(SOrd::SeqCst) + op.at(2).as_usize();
                        let mut spins = 0;
                        while sh.step.load(SOrd::SeqCst) < target && spins < 200 {
                            shuttle::thread::sleep(std::time::Duration::ZERO);
                            spins += 1;
                        }
                    }
                    "reg" if rx.is_none() => {
                        // a new session starts from nothing
                        res.best.clear();
                        res.all.clear();
                        let mut dumped: Vec<table::NlriChange> = Vec::new();
                        let r = sh.tables.register_peer(addr, FnvHashSet::default(), |rtable| {
                            dumped.extend(rtable.collect_loc_rib_paths_limited(&Family::IPV4, usize::MAX));
                        });
                        for ch in &dumped {
                            apply_change(&mut res, ch, true);
                        }
                        res.dumps += 1;
                        res.registered = true;
                        rx = Some(r);
                    }
                    "poll" => {
                        if let Some(r) = rx.as_mut() {
                            drain(r, &mut res);
                        }
                    }
                    "unreg" => {
                        if let Some(mut r) = rx.take() {
                            sh.tables.unregister_peer(addr, &[], &[]);
                            drain(&mut r, &mut res);
                            res.registered = false;
                        }
                    }
                    _ => {}
                }
            }
            (res, rx)
        }));
    }

    let mut counters: BTreeMap<String, u64> = BTreeMap::new();
    for h in handles {
        for (k, v) in h.join().unwrap() {
            *counters.entry(k).or_insert(0) += v;
        }
    }
    let mut consumers = Vec::new();
    for h in cons_handles {
        let (mut res, rx) = h.join().unwrap();
        if let Some(mut r) = rx {
            while let Ok(ev) = r.try_recv() {
                if let ToPeerEvent::NlriChange(ch) = ev {
                    res.events += 1;
                    apply_change(&mut res, &ch, false);
                }
            }
        }
        consumers.push(res);
    }

    // ---- oracle ---------------------------------------------------------------------------
    let mut guard = result.lock().unwrap();
    let (out, log) = &mut *guard;
    for (k, v) in counters {
        out.count(&k, v);
    }
    let order = shared.order.lock().unwrap().clone();
    let mut sig = LogHash::default();
    for (t, i) in &order {
        sig.add_u64((*t as u64) << 32 | *i as u64);
        log.add_u64((*t as u64) << 32 | *i as u64);
    }
    out.signature = sig.0;
    out.steps = order.len() as u64;
    let mut rib_best: BTreeMap<String, PathView> = BTreeMap::new();
    let mut rib_all: BTreeMap<String, Vec<PathView>> = BTreeMap::new();
    for shard in &tables.shards {
        let t = shard.lock().unwrap();
        for c in t.rtable.collect_loc_rib_paths(&Family::IPV4) {
            if let Some(p) = c.current_paths.first() {
                rib_best.insert(format!("{:?}", c.net), view_of(p));
                rib_all.insert(format!("{:?}", c.net), c.current_paths.iter().map(view_of).collect());
            }
        }
    }
    log.add_u64(rib_best.len() as u64);
    for (ci, res) in consumers.iter().enumerate() {
        out.count("consumer.events", res.events);
        out.count("consumer.registrations", res.dumps);
        if !res.registered {
            continue;
        }
        out.nontrivial = true;
        if res.best != rib_best {
            let missing: Vec<&String> = rib_best.keys().filter(|k| !res.best.contains_key(*k)).collect();
            let extra: Vec<&String> = res.best.keys().filter(|k| !rib_best.contains_key(*k)).collect();
            let differ: Vec<&String> = rib_best.iter().filter(|(k, v)| res.best.get(*k).is_some_and(|x| x != *v)).map(|(k, _)| k).collect();
            let class = if !extra.is_empty() { "withdraw-lost" } else if !missing.is_empty() { "update-lost" } else { "best-path-out-of-date" };
            let v = Violation::new(format!("C01/register/plain/{}", class), format!("consumer {}: missing {:?} extra {:?} out of date {:?}; order {:?}", ci, missing, extra, differ, order));
            if out.violate(&tol, v) {
                return;
            }
        }
        if res.all != rib_all {
            let missing: Vec<&String> = rib_all.keys().filter(|k| !res.all.contains_key(*k)).collect();
            let extra: Vec<&String> = res.all.keys().filter(|k| !rib_all.contains_key(*k)).collect();
            let differ: Vec<&String> = rib_all.iter().filter(|(k, v)| res.all.get(*k).is_some_and(|x| x != *v)).map(|(k, _)| k).collect();
            let class = if !extra.is_empty() { "withdraw-lost" } else if !missing.is_empty() { "update-lost" } else { "path-list-out-of-date" };
            let v = Violation::new(format!("C01/register/addpath/{}", class), format!("consumer {}: missing {:?} extra {:?} out of date {:?}; order {:?}", ci, missing, extra, differ, order));
            if out.violate(&tol, v) {
                return;
            }
        }
    }
}

impl Check for RegisterInterleavings {
    fn property(&self) -> &'static str {
        "C01"
    }
    fn tier(&self) -> &'static str {
        "S"
    }
    fn name(&self) -> &'static str {
        "register-interleavings"
    }

    fn generate(&self, seed: u64, thorough: bool) -> Json {
        let mut rng = Rng::new(seed);
        let writers = rng.range(1, 3);
        let consumers = rng.range(1, 2);
        let shards = rng.range(1, 4);
        let n = rng.range(6, if thorough { 40 } else { 24 });
        let gr = rng.chance(1, 3);
        let mut ops: Vec<Json> = Vec::new();
        for w in 0..writers {
            ops.push(jarr![w, "up"]);
        }
        let mut registered = vec![false; consumers as usize];
        for _ in 0..n {
            if rng.chance(1, 5) {
                let c = rng.below(consumers);
                let tid = writers + c;
                if !registered[c as usize] {
                    if rng.chance(1, 2) {
                        ops.push(jarr![tid, "wait", rng.range(1, 6)]);
                    }
                    ops.push(jarr![tid, "reg"]);
                    registered[c as usize] = true;
                } else if rng.chance(1, 4) {
                    ops.push(jarr![tid, "unreg"]);
                    registered[c as usize] = false;
                } else {
                    ops.push(jarr![tid, "poll"]);
                }
                continue;
            }
            let w = rng.below(writers);
            match rng.weighted(&[50, 20, 5, if gr { 5 } else { 0 }, 5, if gr { 5 } else { 0 }]) {
                0 => ops.push(jarr![w, "ins", rng.below(N_PFX), rng.below(3), if rng.chance(1, 5) { 1u64 } else { 0u64 }]),
                1 => ops.push(jarr![w, "rm", rng.below(N_PFX), if rng.chance(1, 5) { 1u64 } else { 0u64 }]),
                2 => ops.push(jarr![w, "down"]),
                3 => ops.push(jarr![w, "gdown"]),
                4 => ops.push(jarr![w, "up"]),
                _ => ops.push(jarr![w, "eor"]),
            }
        }
        for c in 0..consumers {
            if !registered[c as usize] {
                ops.push(jarr![writers + c, "reg"]);
            }
        }
        let pct = rng.chance(1, 4);
        jobj! {
            "writers" => writers, "consumers" => consumers, "shards" => shards, "policy" => rng.below(2),
            "sched" => if pct { "pct" } else { "random" }, "sched_seed" => rng.next_u64() >> 1, "pct_depth" => rng.range(1, 4),
            "ops" => Json::Arr(ops)
        }
    }

    fn execute(&self, case: &Json, tol: &Tolerate) -> Outcome {
        let result: Arc<StdMutex<(Outcome, LogHash)>> = Arc::new(StdMutex::new((Outcome::default(), LogHash::default())));
        let mut cfg = shuttle::Config::new();
        cfg.stack_size = 1 << 20;
        cfg.failure_persistence = shuttle::FailurePersistence::None;
        cfg.max_steps = shuttle::MaxSteps::FailAfter(200_000);
        let seed = case.get("sched_seed").map(|s| s.as_u64()).unwrap_or(1);
        let (c2, r2, t2) = (case.clone(), result.clone(), tol.clone());
        let body = move || scenario(c2.clone(), r2.clone(), t2.clone());
        if case.s("sched") == "pct" {
            let depth = case.i("pct_depth", 2).clamp(1, 8) as usize;
            shuttle::Runner::new(shuttle::scheduler::PctScheduler::new_from_seed(seed, depth, 1), cfg).run(body);
        } else {
            shuttle::Runner::new(shuttle::scheduler::RandomScheduler::new_from_seed(seed, 1), cfg).run(body);
        }
        let mut g = result.lock().unwrap();
        let (out, log) = &mut *g;
        let mut o = std::mem::take(out);
        o.log_hash = log.0;
        o.hit(if case.s("sched") == "pct" { "sched.pct" } else { "sched.random" });
        o
    }

    fn info(&self) -> CheckInfo {
        CheckInfo {
            rule: "1-3 writer threads (source sessions: up, insert, remove, hard down, graceful down, End-of-RIB purge) and 1-2 consumer threads (wait, register with initial dump, poll, unregister and register again) over a TableManager with 1-4 shards and an optional import policy, under shuttle's random or PCT scheduler (one schedule per seed; scheduling points at every shard-lock acquisition). A consumer folds its initial dump and then its ToPeerEvent channel as a plain session (best_changed) and as an add-path session (any_changed). distinct = hash of the (thread, op) execution order; non-trivial = a registered consumer was compared with the Loc-RIB".into(),
            components_real: vec!["TableManager::{register_peer, unregister_peer, insert_route, remove_route, drop_stale_families}, TableShard::distribute_update and the per-shard peer_event_tx fan-out".into(), "table::Table (insert, remove, drop, restale, drop_stale, collect_loc_rib_paths_limited) and NlriChange".into()],
            components_stubbed: vec!["the receiving session is reduced to its fold rule (export policy, ExportMap and PendingTx run for real in tier D)".into(), "std::sync::Mutex replaced by shuttle::sync::Mutex (that is the seam)".into()],
            assumptions: vec![],
            bounds: "<=40 ops, <=3 writers, <=2 consumers, <=4 shards, 8 prefixes, IPv4 unicast".into(),
        }
    }
}
