//! C20 (tier S) — "a path whose next hop is reported unreachable is excluded from selection until
//! it is reported reachable again", for every interleaving of route insertion with the reports.
//!
//! In the daemon the reports arrive on the event loop (`TableManager::update_nexthop_validity`:
//! swap the set of unreachable addresses, then walk every shard under its lock) while session
//! tasks on other threads insert routes (`insert_route`: read the set, take the shard's lock, insert
//! with the flag computed from the set that was read). The single-threaded tier D cannot put a
//! report between the read and the lock. Here the real `TableManager` runs under shuttle: writer
//! threads stand for session tasks (insert / replace / remove, next hops from a small set), one
//! thread stands for the event loop (reachability reports in a drawn order).
//!
//! Oracle after join: for every path in the RIB, "is eligible (appears in the Loc-RIB walk)" equals
//! "its next hop is not in the final set of unreachable addresses".

use super::super::*;
use shuttle::sync::atomic::{AtomicUsize, Ordering as SOrd};
use std::collections::{BTreeMap, BTreeSet};
use std::sync::Mutex as StdMutex;
use vcore::{jarr, jobj, Check, CheckInfo, Json, LogHash, Outcome, Rng, Tolerate, Violation};

pub(crate) struct NhtInterleavings;

const N_PFX: u64 = 6;

fn peer_addr(w: usize) -> IpAddr {
    IpAddr::V4(Ipv4Addr::new(10, 0, 1, w as u8 + 1))
}

fn nh(k: u64) -> Ipv4Addr {
    Ipv4Addr::new(192, 0, 2, 1 + (k % 3) as u8)
}

fn pfx(i: u64) -> packet::Nlri {
    packet::Nlri::V4(bgp::Ipv4Net { addr: Ipv4Addr::new(10, 10 + (i as u8 % 4), i as u8, 0), mask: 24 })
}

fn attrs(w: usize) -> Arc<Vec<packet::Attribute>> {
    let mut path = vec![2u8, 1u8];
    path.extend_from_slice(&(65001u32 + w as u32).to_be_bytes());
    Arc::new(vec![packet::Attribute::new_with_value(packet::Attribute::ORIGIN, 0).unwrap(), packet::Attribute::new_with_bin(packet::Attribute::AS_PATH, path).unwrap()])
}

struct Shared {
    tables: Arc<TableManager>,
    order: StdMutex<Vec<(usize, usize)>>,
    step: AtomicUsize,
}

fn scenario(case: Json, result: Arc<StdMutex<(Outcome, LogHash)>>, tol: Tolerate) {
    let shards = case.i("shards", 2).clamp(1, 8) as usize;
    let n_writers = case.i("writers", 2).clamp(1, 3) as usize;
    let tables = Arc::new(TableManager::new(shards));
    let shared = Arc::new(Shared { tables: tables.clone(), order: StdMutex::new(Vec::new()), step: AtomicUsize::new(0) });
    let ops: Vec<Json> = case.get("ops").map(|o| o.arr().to_vec()).unwrap_or_default();

    let mut handles = Vec::new();
    for w in 0..n_writers {
        let prog: Vec<(usize, Json)> = ops.iter().enumerate().filter(|(_, o)| o.at(0).as_usize() == w).map(|(i, o)| (i, o.clone())).collect();
        let sh = shared.clone();
        handles.push(shuttle::thread::spawn(move || {
            let source = Arc::new(table::Source::new(peer_addr(w), IpAddr::V4(Ipv4Addr::new(10, 0, 1, 254)), 65001 + w as u32, 65000, Ipv4Addr::new(10, 0, 1, w as u8 + 1), table::PeerRole::Ebgp));
            let mut counts: BTreeMap<String, u64> = BTreeMap::new();
            for (i, op) in prog {
                sh.order.lock().unwrap().push((w, i));
                sh.step.fetch_add(1, SOrd::SeqCst);
                match op.at(1).as_str() {
                    "ins" => {
                        let net = packet::PathNlri { nlri: pfx(op.at(2).as_u64() % N_PFX), path_id: 0 };
                        sh.tables.insert_route(source.clone(), Family::IPV4, net, Some(bgp::Nexthop::V4(nh(op.at(3).as_u64()))), attrs(w), None, 1);
                        *counts.entry("op.insert".into()).or_insert(0) += 1;
                    }
                    "rm" => {
                        let net = packet::PathNlri { nlri: pfx(op.at(2).as_u64() % N_PFX), path_id: 0 };
                        sh.tables.remove_route(source.clone(), Family::IPV4, net, None, 1);
                        *counts.entry("op.remove".into()).or_insert(0) += 1;
                    }
                    _ => {}
                }
            }
            counts
        }));
    }
    // the event loop: reachability reports, one after the other
    let tid = n_writers;
    let prog: Vec<(usize, Json)> = ops.iter().enumerate().filter(|(_, o)| o.at(0).as_usize() == tid).map(|(i, o)| (i, o.clone())).collect();
    let sh = shared.clone();
    let ev = shuttle::thread::spawn(move || {
        let mut unreachable: BTreeSet<Ipv4Addr> = BTreeSet::new();
        let mut n = 0u64;
        for (i, op) in prog {
            sh.order.lock().unwrap().push((tid, i));
            match op.at(1).as_str() {
                "wait" => {
                    let target = sh.step.load(SOrd::SeqCst) + op.at(2).as_usize();
                    let mut spins = 0;
                    while sh.step.load(SOrd::SeqCst) < target && spins < 200 {
                        shuttle::thread::sleep(std::time::Duration::ZERO);
                        spins += 1;
                    }
                }
                "report" => {
                    let a = nh(op.at(2).as_u64());
                    let reachable = op.at(3).as_bool();
                    sh.tables.update_nexthop_validity(IpAddr::V4(a), reachable);
                    if reachable {
                        unreachable.remove(&a);
                    } else {
                        unreachable.insert(a);
                    }
                    n += 1;
                }
                _ => {}
            }
        }
        (unreachable, n)
    });

    let mut counters: BTreeMap<String, u64> = BTreeMap::new();
    for h in handles {
        for (k, v) in h.join().unwrap() {
            *counters.entry(k).or_insert(0) += v;
        }
    }
    let (unreachable, reports) = ev.join().unwrap();

    // ---- oracle (single-threaded from here) ------------------------------------------------
    let mut guard = result.lock().unwrap();
    let (out, log) = &mut *guard;
    for (k, v) in counters {
        out.count(&k, v);
    }
    out.count("fault.reachability-report", reports);
    let order = shared.order.lock().unwrap().clone();
    let mut sig = LogHash::default();
    for (t, i) in &order {
        sig.add_u64((*t as u64) << 32 | *i as u64);
        log.add_u64((*t as u64) << 32 | *i as u64);
    }
    out.signature = sig.0;
    out.steps = order.len() as u64;

    // eligible paths: what the Loc-RIB walk returns
    let mut eligible: BTreeSet<(String, IpAddr)> = BTreeSet::new();
    for c in tables.collect_loc_rib_paths(Family::IPV4) {
        for p in c.current_paths.iter() {
            eligible.insert((format!("{:?}", c.net), p.source.remote_addr));
        }
    }
    let mut judged = 0u64;
    for d in tables.collect_paths(table::TableQuery::Global, Family::IPV4, vec![], true) {
        for p in &d.paths {
            let nexthop = tables.shards.iter().find_map(|s| s.lock().unwrap().rtable.lookup_nexthop(p.source.remote_addr, Family::IPV4, &d.net, p.remote_path_id));
            let Some(bgp::Nexthop::V4(a)) = nexthop else { continue };
            judged += 1;
            let is_eligible = eligible.contains(&(format!("{:?}", d.net), p.source.remote_addr));
            let should = !unreachable.contains(&a);
            if is_eligible != should {
                let class = if is_eligible { "C20/nht/eligible-path-uses-unreachable-nexthop/insert-raced-with-report" } else { "C20/nht/path-with-reachable-nexthop-excluded/insert-raced-with-report" };
                let v = Violation::new(class, format!("{:?} from {} via {}: eligible={} although the last report says reachable={}; unreachable set {:?}; order {:?}", d.net, p.source.remote_addr, a, is_eligible, should, unreachable, order));
                if out.violate(&tol, v) {
                    return;
                }
            }
        }
    }
    log.add_u64(judged);
    out.nontrivial = judged > 0 && reports > 0;
}

impl Check for NhtInterleavings {
    fn property(&self) -> &'static str {
        "C20"
    }
    fn tier(&self) -> &'static str {
        "S"
    }
    fn name(&self) -> &'static str {
        "nht-interleavings"
    }

    fn generate(&self, seed: u64, thorough: bool) -> Json {
        let mut rng = Rng::new(seed);
        let writers = rng.range(1, 2);
        let shards = rng.range(1, 3);
        let n = rng.range(4, if thorough { 30 } else { 16 });
        let mut ops: Vec<Json> = Vec::new();
        for _ in 0..n {
            if rng.chance(1, 3) {
                if rng.chance(1, 3) {
                    ops.push(jarr![writers, "wait", rng.range(1, 4)]);
                }
                ops.push(jarr![writers, "report", rng.below(3), rng.coin()]);
                continue;
            }
            let w = rng.below(writers);
            if rng.chance(4, 5) {
                ops.push(jarr![w, "ins", rng.below(N_PFX), rng.below(3)]);
            } else {
                ops.push(jarr![w, "rm", rng.below(N_PFX)]);
            }
        }
        let pct = rng.chance(1, 4);
        jobj! {"writers" => writers, "shards" => shards, "sched" => if pct { "pct" } else { "random" }, "sched_seed" => rng.next_u64() >> 1, "pct_depth" => rng.range(1, 4), "ops" => Json::Arr(ops)}
    }

    fn execute(&self, case: &Json, tol: &Tolerate) -> Outcome {
        let result: Arc<StdMutex<(Outcome, LogHash)>> = Arc::new(StdMutex::new((Outcome::default(), LogHash::default())));
        let mut cfg = shuttle::Config::new();
        cfg.stack_size = 1 << 20;
        cfg.failure_persistence = shuttle::FailurePersistence::None;
        cfg.max_steps = shuttle::MaxSteps::FailAfter(200_000);
        let seed = case.get("sched_seed").map(|s| s.as_u64()).unwrap_or(1);
        let (c2, r2, t2) = (case.clone(), result.clone(), tol.clone());
        let body = move || scenario(c2.clone(), r2.clone(), t2.clone());
        if case.s("sched") == "pct" {
            let depth = case.i("pct_depth", 2).clamp(1, 8) as usize;
            shuttle::Runner::new(shuttle::scheduler::PctScheduler::new_from_seed(seed, depth, 1), cfg).run(body);
        } else {
            shuttle::Runner::new(shuttle::scheduler::RandomScheduler::new_from_seed(seed, 1), cfg).run(body);
        }
        let mut g = result.lock().unwrap();
        let (out, log) = &mut *g;
        let mut o = std::mem::take(out);
        o.log_hash = log.0;
        o.hit(if case.s("sched") == "pct" { "sched.pct" } else { "sched.random" });
        o
    }

    fn info(&self) -> CheckInfo {
        CheckInfo {
            rule: "1-2 writer threads (one peer each: insert / replace with one of 3 next hops, remove, 6 prefixes) and one event-loop thread (reachable / unreachable reports for the 3 next hops, optionally after letting the writers advance) over a TableManager with 1-3 shards, executed under shuttle's random or PCT scheduler (one schedule per seed; scheduling points at every shard-lock acquisition). After join: a path is in the Loc-RIB walk iff its next hop is not in the final set of unreachable addresses. distinct = hash of the (thread, op) execution order; non-trivial = a report was made and a path was judged".into(),
            components_real: vec!["TableManager::{insert_route, remove_route, update_nexthop_validity, collect_loc_rib_paths, collect_paths}, table::Table::{insert, remove, update_nexthop_validity, lookup_nexthop}".into()],
            components_stubbed: vec!["session tasks and the event loop reduced to their TableManager calls; no kernel handle (registrations are tier D's business); std::sync::Mutex replaced by shuttle::sync::Mutex (that is the seam)".into()],
            assumptions: vec![],
            bounds: "<=30 ops, <=2 writers, <=3 shards, 6 prefixes, 3 next hops".into(),
        }
    }
}
