//! Simulated TCP for the whole-daemon tier: in-process byte pipes with seeded latency,
//! fragmentation, back-pressure and faults.  Offers exactly the surface the daemon uses from
//! `tokio::net::TcpStream`.  One simulation runs on one OS thread (current-thread runtime), so the
//! registry of listeners lives in a thread-local and every pipe is uncontended.
#![allow(dead_code)]

use std::cell::RefCell;
use std::collections::{BTreeMap, VecDeque};
use std::io;
use std::net::{IpAddr, Ipv4Addr, SocketAddr};
use std::os::fd::{AsFd, AsRawFd, BorrowedFd, OwnedFd, RawFd};
use std::pin::Pin;
use std::sync::{Arc, Mutex};
use std::task::{Context, Poll, Waker};
use tokio::io::{AsyncRead, AsyncWrite, Interest, ReadBuf, Ready};
use tokio::sync::mpsc;
use tokio::time::{Duration, Instant};

use vcore::{LogHash, Rng};

/// How many bytes a single read may return.
#[derive(Clone, Copy, Debug, PartialEq)]
pub(crate) enum Frag {
    Whole,
    /// 1..=n bytes, drawn per read
    UpTo(usize),
    Byte,
}

#[derive(Clone, Debug)]
pub(crate) struct PipeOpts {
    pub latency_ms: u64,
    pub jitter_ms: u64,
    pub capacity: usize,
    pub frag: Frag,
    pub seed: u64,
}

impl Default for PipeOpts {
    fn default() -> Self {
        PipeOpts { latency_ms: 0, jitter_ms: 0, capacity: 1 << 20, frag: Frag::Whole, seed: 1 }
    }
}

/// One direction of a connection.
struct Half {
    buf: VecDeque<u8>,
    queue: VecDeque<(Instant, Vec<u8>, bool)>, // (deliver at, bytes, fin)
    last_ready: Option<Instant>,
    capacity: usize,
    window_open: bool,
    fin_seen: bool,      // FIN delivered to the reader side
    writer_closed: bool, // writer called shutdown / was dropped
    reader_closed: bool, // reader dropped: writes fail
    write_err_after: Option<usize>,
    frag: Frag,
    latency_ms: u64,
    jitter_ms: u64,
    rng: Rng,
    reader_waker: Option<Waker>,
    writer_waker: Option<Waker>,
    written: u64,
    read: u64,
    /// (end offset, virtual ms) of every write, so that readers can timestamp frames exactly
    wlog: Vec<(u64, u64)>,
    /// (cumulative octets read by the receiving end, virtual ms) per read
    rlog: Vec<(u64, u64)>,
}

impl Half {
    fn new(o: &PipeOpts, salt: u64) -> Half {
        Half {
            buf: VecDeque::new(),
            queue: VecDeque::new(),
            last_ready: None,
            capacity: o.capacity,
            window_open: true,
            fin_seen: false,
            writer_closed: false,
            reader_closed: false,
            write_err_after: None,
            frag: o.frag,
            latency_ms: o.latency_ms,
            jitter_ms: o.jitter_ms,
            rng: Rng::new(o.seed ^ salt),
            reader_waker: None,
            writer_waker: None,
            written: 0,
            read: 0,
            wlog: Vec::new(),
            rlog: Vec::new(),
        }
    }
    fn used(&self) -> usize {
        self.buf.len() + self.queue.iter().map(|c| c.1.len()).sum::<usize>()
    }
    fn deliver_due(&mut self, now: Instant) {
        let mut woke = false;
        while let Some((at, _, _)) = self.queue.front() {
            if *at > now {
                break;
            }
            let (_, bytes, fin) = self.queue.pop_front().unwrap();
            self.buf.extend(bytes);
            if fin {
                self.fin_seen = true;
            }
            woke = true;
        }
        if woke {
            if let Some(w) = self.reader_waker.take() {
                w.wake();
            }
        }
    }
}

struct Conn {
    id: u64,
    rst: bool,
    /// per side: consecutive reads of a socket that is at end-of-file or reset (nothing will ever
    /// arrive); a task that keeps doing that spins. After `DEAD_READ_LIMIT` of them the side is
    /// parked (never ready again) and the run reports the spin.
    dead_reads: [u32; 2],
    parked: [bool; 2],
    // halves[0]: bytes written by side 0 and read by side 1; halves[1]: the other way
    halves: [Half; 2],
}

type Shared = Arc<Mutex<Conn>>;

pub(crate) struct TcpStream {
    conn: Shared,
    side: usize,
    local: SocketAddr,
    peer: SocketAddr,
    fd: OwnedFd,
}

fn devnull() -> OwnedFd {
    OwnedFd::from(std::fs::File::open("/dev/null").expect("open /dev/null"))
}

// ---- per-simulation registry ------------------------------------------------------------------

#[derive(Clone, Copy, PartialEq, Debug)]
pub(crate) enum ConnectPolicy {
    Refuse,
    /// never completes (SYN dropped): the caller's timeout has to fire
    Blackhole,
}

pub(crate) struct Net {
    listeners: BTreeMap<SocketAddr, mpsc::UnboundedSender<TcpStream>>,
    pub default_policy: ConnectPolicy,
    pub blackholed: Vec<IpAddr>,
    pub dut_v4: IpAddr,
    pub dut_v6: IpAddr,
    next_port: u16,
    next_conn: u64,
    pub connect_opts: PipeOpts,
    pub connect_latency_ms: u64,
    rng: Rng,
    pub log: LogHash,
    pub sig: LogHash,
    pub events: u64,
    pub connects_ok: u64,
    pub connects_refused: u64,
    epoch: Option<Instant>,
    /// simulated disk: path -> generations (one per `File::create`), newest last
    files: BTreeMap<String, Vec<Vec<u8>>>,
    /// generations on which a write failed
    files_failed: BTreeMap<String, Vec<usize>>,
    /// at most this many bytes are taken by one write call
    disk_short: Option<usize>,
    /// the disk is full after this many more bytes
    disk_left: Option<u64>,
    /// scheduling points (lock acquisitions): a task yields once with this probability (per mille)
    sched_yield_per_mille: u64,
    sched_rng: Rng,
    pub sched_yields: u64,
    /// set when a task was caught reading a dead socket over and over (see `Conn::dead_reads`)
    pub spin: Option<String>,
}

const DEAD_READ_LIMIT: u32 = 2000;

thread_local! {
    static NET: RefCell<Option<Net>> = const { RefCell::new(None) };
}

pub(crate) fn reset(seed: u64) {
    NET.with(|n| {
        *n.borrow_mut() = Some(Net {
            listeners: BTreeMap::new(),
            default_policy: ConnectPolicy::Refuse,
            blackholed: Vec::new(),
            dut_v4: IpAddr::V4(Ipv4Addr::new(10, 0, 0, 254)),
            dut_v6: "2001:db8:ffff::254".parse().unwrap(),
            next_port: 40000,
            next_conn: 1,
            connect_opts: PipeOpts::default(),
            connect_latency_ms: 0,
            rng: Rng::new(seed),
            log: LogHash::default(),
            sig: LogHash::default(),
            events: 0,
            connects_ok: 0,
            connects_refused: 0,
            epoch: None,
            files: BTreeMap::new(),
            files_failed: BTreeMap::new(),
            disk_short: None,
            disk_left: None,
            sched_yield_per_mille: 0,
            sched_rng: Rng::new(seed ^ 0x5c4e_d01e_7a5c_11ed),
            sched_yields: 0,
            spin: None,
        })
    });
}

pub(crate) fn with_net<R>(f: impl FnOnce(&mut Net) -> R) -> R {
    NET.with(|n| f(n.borrow_mut().as_mut().expect("sim net not initialised")))
}

pub(crate) fn teardown() {
    NET.with(|n| *n.borrow_mut() = None);
}

/// Virtual milliseconds since the first call in this simulation.
pub(crate) fn now_ms() -> u64 {
    let now = Instant::now();
    NET.with(|n| {
        let mut b = n.borrow_mut();
        match b.as_mut() {
            Some(net) => {
                let e = *net.epoch.get_or_insert(now);
                now.duration_since(e).as_millis() as u64
            }
            None => 0,
        }
    })
}

/// Record a seam event in the run's log (never draws from a PRNG, never reads a real clock).
pub(crate) fn log_event(kind: &str, a: u64, b: u64) {
    // VERIF_TRACE=1: print the event log of a (single-threaded) replay; reads no clock but the simulated one
    if trace_on() {
        eprintln!("[trace t={}ms] {} {} {}", tokio::time::Instant::now().duration_since(trace_epoch()).as_millis(), kind, a, b);
    }
    NET.with(|n| {
        if let Some(net) = n.borrow_mut().as_mut() {
            net.log.add_str(kind);
            net.log.add_u64(a);
            net.log.add_u64(b);
            net.sig.add_str(kind);
            net.sig.add_u64(a);
            net.events += 1;
        }
    });
}

/// How often a scheduling point makes the running task yield (per mille; 0 = never, the default).
pub(crate) fn set_yield_rate(per_mille: u64) {
    with_net(|n| n.sched_yield_per_mille = per_mille.min(1000));
}

/// A scheduling point of the simulator (see `event::verif::GlobalHandle`): with the run's seeded
/// probability the calling task goes to the back of the run queue once. The decision comes from a
/// PRNG stream of its own, so that enabling it does not disturb the transport's draws.
pub(crate) async fn sched_point(kind: u64) {
    let go = NET.with(|n| match n.borrow_mut().as_mut() {
        Some(net) if net.sched_yield_per_mille > 0 => {
            let hit = net.sched_rng.below(1000) < net.sched_yield_per_mille;
            if hit {
                net.sched_yields += 1;
            }
            hit
        }
        _ => false,
    });
    if go {
        log_event("yield", kind, 0);
        tokio::task::yield_now().await;
    }
}

/// A scheduling point inside a poll function: with half the run's yield rate the caller reports
/// "pending" although it could proceed, after arranging to be polled again at once. Asynchronous I/O
/// may always do that; the effect is that the other runnable tasks get a turn first.
fn spurious_pending(cx: &mut Context<'_>, kind: u64) -> bool {
    let go = NET.with(|n| match n.borrow_mut().as_mut() {
        Some(net) if net.sched_yield_per_mille > 0 => {
            let hit = net.sched_rng.below(1000) < net.sched_yield_per_mille / 2;
            if hit {
                net.sched_yields += 1;
            }
            hit
        }
        _ => false,
    });
    if go {
        log_event("yield", kind, 0);
        cx.waker().wake_by_ref();
    }
    go
}

pub(crate) fn trace_on() -> bool {
    static ON: std::sync::OnceLock<bool> = std::sync::OnceLock::new();
    *ON.get_or_init(|| std::env::var_os("VERIF_TRACE").is_some())
}

thread_local! {
    static TRACE_EPOCH: RefCell<Option<tokio::time::Instant>> = const { RefCell::new(None) };
}

fn trace_epoch() -> tokio::time::Instant {
    TRACE_EPOCH.with(|e| *e.borrow_mut().get_or_insert_with(tokio::time::Instant::now))
}

/// Harness side: start listening on an address the DUT may connect to.
pub(crate) fn listen(addr: SocketAddr) -> mpsc::UnboundedReceiver<TcpStream> {
    let (tx, rx) = mpsc::unbounded_channel();
    with_net(|n| n.listeners.insert(addr, tx));
    rx
}

pub(crate) fn unlisten(addr: SocketAddr) {
    with_net(|n| n.listeners.remove(&addr));
}

/// Create a connected pair: `.0` has (local=a, peer=b), `.1` the reverse.
pub(crate) fn pair(a: SocketAddr, b: SocketAddr, opts_ab: &PipeOpts, opts_ba: &PipeOpts) -> (TcpStream, TcpStream) {
    let id = with_net(|n| {
        let id = n.next_conn;
        n.next_conn += 1;
        id
    });
    let conn = Arc::new(Mutex::new(Conn { id, rst: false, dead_reads: [0; 2], parked: [false; 2], halves: [Half::new(opts_ab, id * 2), Half::new(opts_ba, id * 2 + 1)] }));
    (
        TcpStream { conn: conn.clone(), side: 0, local: a, peer: b, fd: devnull() },
        TcpStream { conn, side: 1, local: b, peer: a, fd: devnull() },
    )
}

pub(crate) fn ephemeral_port() -> u16 {
    with_net(|n| {
        let p = n.next_port;
        n.next_port = if n.next_port >= 60000 { 40000 } else { n.next_port + 1 };
        p
    })
}

impl TcpStream {
    /// The DUT's outgoing connect (active BGP sessions, RTR and BMP clients).
    pub(crate) async fn connect(addr: SocketAddr) -> io::Result<TcpStream> {
        let (latency, blackholed) = with_net(|n| (n.connect_latency_ms, n.blackholed.contains(&addr.ip())));
        if blackholed {
            log_event("connect-blackholed", addr.port() as u64, 0);
            // never completes: callers wrap connect in a timeout
            tokio::time::sleep(Duration::from_secs(86400 * 365)).await;
            return Err(io::Error::new(io::ErrorKind::TimedOut, "blackholed"));
        }
        if latency > 0 {
            tokio::time::sleep(Duration::from_millis(latency)).await;
        }
        let res = with_net(|n| {
            let Some(tx) = n.listeners.get(&addr).cloned() else {
                return Err(n.default_policy);
            };
            let local_ip = if addr.is_ipv4() { n.dut_v4 } else { n.dut_v6 };
            let port = n.next_port;
            n.next_port = if n.next_port >= 60000 { 40000 } else { n.next_port + 1 };
            Ok((tx, SocketAddr::new(local_ip, port), n.connect_opts.clone()))
        });
        match res {
            Ok((tx, local, opts)) => {
                let (near, far) = pair(local, addr, &opts, &opts);
                if tx.send(far).is_err() {
                    with_net(|n| n.connects_refused += 1);
                    log_event("connect-refused", addr.port() as u64, 1);
                    return Err(io::Error::new(io::ErrorKind::ConnectionRefused, "listener gone"));
                }
                with_net(|n| n.connects_ok += 1);
                log_event("connect-ok", addr.port() as u64, 0);
                Ok(near)
            }
            Err(ConnectPolicy::Refuse) => {
                with_net(|n| n.connects_refused += 1);
                log_event("connect-refused", addr.port() as u64, 0);
                Err(io::Error::new(io::ErrorKind::ConnectionRefused, "refused"))
            }
            Err(ConnectPolicy::Blackhole) => {
                log_event("connect-blackholed", addr.port() as u64, 1);
                tokio::time::sleep(Duration::from_secs(86400 * 365)).await;
                Err(io::Error::new(io::ErrorKind::TimedOut, "blackholed"))
            }
        }
    }

    pub(crate) fn peer_addr(&self) -> io::Result<SocketAddr> {
        Ok(self.peer)
    }
    pub(crate) fn local_addr(&self) -> io::Result<SocketAddr> {
        Ok(self.local)
    }
    pub(crate) fn set_ttl(&self, _ttl: u32) -> io::Result<()> {
        Ok(())
    }

    fn rx_index(&self) -> usize {
        1 - self.side
    }
    fn tx_index(&self) -> usize {
        self.side
    }

    /// Wait until the stream is readable and/or writable (as `tokio::net::TcpStream::ready`).
    pub(crate) async fn ready(&self, interest: Interest) -> io::Result<Ready> {
        std::future::poll_fn(|cx| {
            let mut c = self.conn.lock().unwrap();
            let now = Instant::now();
            let rst = c.rst;
            let rxi = self.rx_index();
            let txi = self.tx_index();
            if c.parked[self.side] {
                // the task was caught spinning on this dead socket: it sleeps for good, the run goes on
                return Poll::Pending;
            }
            c.halves[rxi].deliver_due(now);
            let mut ready = Ready::EMPTY;
            if interest.is_readable() {
                let h = &c.halves[rxi];
                if !h.buf.is_empty() || h.fin_seen || rst {
                    ready |= Ready::READABLE;
                }
            }
            if interest.is_writable() {
                let h = &c.halves[txi];
                if rst || h.reader_closed || (h.window_open && h.used() < h.capacity) {
                    ready |= Ready::WRITABLE;
                }
            }
            if !ready.is_empty() {
                // spurious "not ready yet": the task is woken at once and polled again after the
                // other runnable tasks (a scheduling point like the ones at the global lock)
                if spurious_pending(cx, 5) {
                    return Poll::Pending;
                }
                return Poll::Ready(Ok(ready));
            }
            if interest.is_readable() {
                c.halves[rxi].reader_waker = Some(cx.waker().clone());
            }
            if interest.is_writable() {
                c.halves[txi].writer_waker = Some(cx.waker().clone());
            }
            Poll::Pending
        })
        .await
    }

    /// `dut`: the read is the daemon's (through `try_read_buf`); the scripted actors poll their sockets
    /// as often as they like and are not suspected of spinning.
    fn read_some(&self, dst: &mut dyn FnMut(&[u8]), max: usize, dut: bool) -> io::Result<usize> {
        let mut c = self.conn.lock().unwrap();
        let now = Instant::now();
        let id = c.id;
        let rst = c.rst;
        let rxi = self.rx_index();
        c.halves[rxi].deliver_due(now);
        if c.halves[rxi].buf.is_empty() {
            if rst || c.halves[rxi].fin_seen {
                let fin = !rst;
                if dut {
                    c.dead_reads[self.side] += 1;
                }
                if dut && c.dead_reads[self.side] == DEAD_READ_LIMIT {
                    c.parked[self.side] = true;
                    let what = format!("connection {} side {}: {} reads in a row of a socket that is {}", id, self.side, DEAD_READ_LIMIT, if fin { "at end-of-file" } else { "reset" });
                    NET.with(|n| {
                        if let Some(net) = n.borrow_mut().as_mut() {
                            net.spin.get_or_insert(what);
                        }
                    });
                }
                if fin {
                    log_event("read-eof", id * 2 + self.side as u64, 0);
                    return Ok(0);
                }
                return Err(io::Error::new(io::ErrorKind::ConnectionReset, "reset by peer"));
            }
            return Err(io::Error::new(io::ErrorKind::WouldBlock, "would block"));
        }
        let h = &mut c.halves[rxi];
        let limit = match h.frag {
            Frag::Whole => usize::MAX,
            Frag::UpTo(n) => 1 + h.rng.usize_below(n.max(1)),
            Frag::Byte => 1,
        };
        let n = h.buf.len().min(max).min(limit);
        let (a, b) = h.buf.as_slices();
        if n <= a.len() {
            dst(&a[..n]);
        } else {
            dst(a);
            dst(&b[..n - a.len()]);
        }
        h.buf.drain(..n);
        h.read += n as u64;
        let rd = h.read;
        h.rlog.push((rd, now_ms()));
        if let Some(w) = h.writer_waker.take() {
            w.wake();
        }
        log_event("read", id * 2 + self.side as u64, n as u64);
        Ok(n)
    }

    pub(crate) fn try_read_buf<B: bytes::BufMut>(&self, buf: &mut B) -> io::Result<usize> {
        let max = buf.remaining_mut();
        self.read_some(&mut |s| buf.put_slice(s), max, true)
    }

    fn write_some(&self, data: &[u8], cx: Option<&mut Context<'_>>, bypass: bool) -> Poll<io::Result<usize>> {
        let mut c = self.conn.lock().unwrap();
        let id = c.id;
        if c.rst {
            return Poll::Ready(Err(io::Error::new(io::ErrorKind::ConnectionReset, "reset by peer")));
        }
        let txi = self.tx_index();
        let h = &mut c.halves[txi];
        if h.reader_closed || h.writer_closed {
            return Poll::Ready(Err(io::Error::new(io::ErrorKind::BrokenPipe, "broken pipe")));
        }
        if let Some(left) = h.write_err_after {
            if left == 0 {
                return Poll::Ready(Err(io::Error::new(io::ErrorKind::ConnectionReset, "injected write error")));
            }
        }
        let mut n = data.len();
        if !bypass {
            if !h.window_open || h.used() >= h.capacity {
                if let Some(cx) = cx {
                    h.writer_waker = Some(cx.waker().clone());
                }
                return Poll::Pending;
            }
            n = n.min(h.capacity - h.used());
        }
        if let Some(left) = h.write_err_after {
            n = n.min(left);
            h.write_err_after = Some(left - n);
        }
        if n == 0 {
            return Poll::Ready(Ok(0));
        }
        let now = Instant::now();
        let lat = h.latency_ms + if h.jitter_ms > 0 { h.rng.below(h.jitter_ms + 1) } else { 0 };
        h.written += n as u64;
        let off = h.written;
        h.wlog.push((off, now_ms()));
        log_event("write", id * 2 + self.side as u64, n as u64);
        if std::env::var("VERIF_TRACE").map(|v| v == "2").unwrap_or(false) {
            eprintln!("{}", std::backtrace::Backtrace::force_capture());
        }
        if lat == 0 && h.queue.is_empty() {
            h.buf.extend(&data[..n]);
            if let Some(w) = h.reader_waker.take() {
                w.wake();
            }
        } else {
            let mut at = now + Duration::from_millis(lat);
            if let Some(l) = h.last_ready {
                if l > at {
                    at = l;
                }
            }
            h.last_ready = Some(at);
            h.queue.push_back((at, data[..n].to_vec(), false));
            let conn = self.conn.clone();
            tokio::spawn(async move {
                tokio::time::sleep_until(at).await;
                let mut c = conn.lock().unwrap();
                c.halves[txi].deliver_due(Instant::now());
            });
        }
        Poll::Ready(Ok(n))
    }

    fn close_write(&self) {
        let mut c = self.conn.lock().unwrap();
        let txi = self.tx_index();
        let h = &mut c.halves[txi];
        if h.writer_closed {
            return;
        }
        h.writer_closed = true;
        if h.queue.is_empty() {
            h.fin_seen = true;
            if let Some(w) = h.reader_waker.take() {
                w.wake();
            }
        } else {
            let at = h.last_ready.unwrap_or_else(Instant::now);
            h.queue.push_back((at, Vec::new(), true));
            let conn = self.conn.clone();
            if tokio::runtime::Handle::try_current().is_ok() {
                tokio::spawn(async move {
                    tokio::time::sleep_until(at).await;
                    let mut c = conn.lock().unwrap();
                    c.halves[txi].deliver_due(Instant::now());
                });
            } else {
                // runtime is gone (teardown): deliver at once
                let far = Instant::now() + Duration::from_secs(86400 * 365);
                h.deliver_due(far);
            }
        }
    }

    /// Control handle for the harness (faults, back-pressure, synchronous access).
    pub(crate) fn ctl(&self) -> Ctl {
        Ctl { conn: self.conn.clone(), side: self.side }
    }
    pub(crate) fn conn_id(&self) -> u64 {
        self.conn.lock().unwrap().id
    }
}

impl Drop for TcpStream {
    fn drop(&mut self) {
        self.close_write();
        let mut c = self.conn.lock().unwrap();
        let rxi = self.rx_index();
        let h = &mut c.halves[rxi];
        h.reader_closed = true;
        if let Some(w) = h.writer_waker.take() {
            w.wake();
        }
    }
}

impl AsRawFd for TcpStream {
    fn as_raw_fd(&self) -> RawFd {
        self.fd.as_raw_fd()
    }
}

impl AsFd for TcpStream {
    fn as_fd(&self) -> BorrowedFd<'_> {
        self.fd.as_fd()
    }
}

impl AsyncRead for TcpStream {
    fn poll_read(self: Pin<&mut Self>, cx: &mut Context<'_>, buf: &mut ReadBuf<'_>) -> Poll<io::Result<()>> {
        let max = buf.remaining();
        if max == 0 {
            return Poll::Ready(Ok(()));
        }
        match self.read_some(&mut |s| buf.put_slice(s), max, true) {
            Ok(_) => Poll::Ready(Ok(())),
            Err(e) if e.kind() == io::ErrorKind::WouldBlock => {
                let mut c = self.conn.lock().unwrap();
                let rxi = self.rx_index();
                c.halves[rxi].reader_waker = Some(cx.waker().clone());
                Poll::Pending
            }
            Err(e) => Poll::Ready(Err(e)),
        }
    }
}

impl AsyncWrite for TcpStream {
    fn poll_write(self: Pin<&mut Self>, cx: &mut Context<'_>, data: &[u8]) -> Poll<io::Result<usize>> {
        if data.is_empty() {
            return Poll::Ready(Ok(0));
        }
        if spurious_pending(cx, 6) {
            return Poll::Pending;
        }
        self.write_some(data, Some(cx), false)
    }
    fn poll_flush(self: Pin<&mut Self>, _cx: &mut Context<'_>) -> Poll<io::Result<()>> {
        Poll::Ready(Ok(()))
    }
    fn poll_shutdown(self: Pin<&mut Self>, _cx: &mut Context<'_>) -> Poll<io::Result<()>> {
        self.close_write();
        Poll::Ready(Ok(()))
    }
}

/// Harness-side control of one end of a connection.
#[derive(Clone)]
pub(crate) struct Ctl {
    conn: Shared,
    side: usize,
}

impl Ctl {
    /// Open/close the receive window of *this* end: while closed, the other end's writes block.
    pub(crate) fn set_window(&self, open: bool) {
        let mut c = self.conn.lock().unwrap();
        let h = &mut c.halves[1 - self.side];
        h.window_open = open;
        if open {
            if let Some(w) = h.writer_waker.take() {
                w.wake();
            }
        }
        let id = c.id;
        drop(c);
        log_event(if open { "window-open" } else { "window-closed" }, id, 0);
    }
    /// How many unread octets this end's socket takes before the other end's writes block.
    pub(crate) fn set_capacity(&self, n: usize) {
        let mut c = self.conn.lock().unwrap();
        c.halves[1 - self.side].capacity = n.max(1);
    }
    pub(crate) fn window_open(&self) -> bool {
        self.conn.lock().unwrap().halves[1 - self.side].window_open
    }
    /// Connection reset: both directions fail from now on.
    pub(crate) fn rst(&self) {
        let mut c = self.conn.lock().unwrap();
        c.rst = true;
        for h in c.halves.iter_mut() {
            if let Some(w) = h.reader_waker.take() {
                w.wake();
            }
            if let Some(w) = h.writer_waker.take() {
                w.wake();
            }
        }
        let id = c.id;
        drop(c);
        log_event("rst", id, 0);
    }
    /// The other end's writes fail after `n` more bytes.
    pub(crate) fn peer_write_error_after(&self, n: usize) {
        self.conn.lock().unwrap().halves[1 - self.side].write_err_after = Some(n);
    }
    pub(crate) fn set_peer_read_frag(&self, f: Frag) {
        // fragmentation seen by the other end when it reads what this end wrote
        self.conn.lock().unwrap().halves[self.side].frag = f;
    }
    pub(crate) fn set_latency(&self, ms: u64, jitter: u64) {
        let mut c = self.conn.lock().unwrap();
        for h in c.halves.iter_mut() {
            h.latency_ms = ms;
            h.jitter_ms = jitter;
        }
    }
    /// Bytes written by the other end that have not been read here yet (delivered + in flight).
    pub(crate) fn pending_rx(&self) -> usize {
        self.conn.lock().unwrap().halves[1 - self.side].used()
    }
    pub(crate) fn in_flight(&self) -> bool {
        let c = self.conn.lock().unwrap();
        !c.halves[0].queue.is_empty() || !c.halves[1].queue.is_empty()
    }
    pub(crate) fn is_rst(&self) -> bool {
        self.conn.lock().unwrap().rst
    }
    /// Has the other end closed (FIN delivered) or reset?
    pub(crate) fn peer_closed(&self) -> bool {
        let c = self.conn.lock().unwrap();
        c.rst || (c.halves[1 - self.side].fin_seen && c.halves[1 - self.side].buf.is_empty())
    }
    pub(crate) fn bytes_from_peer(&self) -> u64 {
        self.conn.lock().unwrap().halves[1 - self.side].written
    }
    pub(crate) fn id(&self) -> u64 {
        self.conn.lock().unwrap().id
    }
    /// Virtual time at which the other end had read `offset` octets of what this end wrote
    /// (None: it has not read that far yet).
    pub(crate) fn peer_read_time(&self, offset: u64) -> Option<u64> {
        let c = self.conn.lock().unwrap();
        let l = &c.halves[self.side].rlog;
        let i = l.partition_point(|(end, _)| *end < offset);
        l.get(i).map(|x| x.1)
    }
    /// How many octets this end has written so far.
    pub(crate) fn bytes_written(&self) -> u64 {
        let c = self.conn.lock().unwrap();
        c.halves[self.side].wlog.last().map(|x| x.0).unwrap_or(0)
    }
    /// Virtual time at which the byte at `offset` (1-based count of bytes the other end has
    /// written so far) was written.
    pub(crate) fn peer_write_time(&self, offset: u64) -> u64 {
        let c = self.conn.lock().unwrap();
        let l = &c.halves[1 - self.side].wlog;
        let i = l.partition_point(|(end, _)| *end < offset);
        l.get(i).map(|x| x.1).unwrap_or(0)
    }
}

impl TcpStream {
    /// Synchronous drain used by scripted actors (never blocks; honours delivery times).
    pub(crate) fn read_available(&self) -> Vec<u8> {
        let mut out = Vec::new();
        loop {
            match self.read_some(&mut |s| out.extend_from_slice(s), usize::MAX, false) {
                Ok(0) | Err(_) => break,
                Ok(_) => {}
            }
        }
        out
    }
    /// Synchronous write used by scripted actors: ignores the DUT's receive window.
    pub(crate) fn write_now(&self, data: &[u8]) -> io::Result<usize> {
        match self.write_some(data, None, true) {
            Poll::Ready(r) => r,
            Poll::Pending => Ok(0),
        }
    }
}

// ---- simulated disk ----------------------------------------------------------------------------
// The one place the daemon writes files is the MRT dumper (`mrt::DumpFile`).  Under the
// verification cfg that type is this in-memory file: `create` starts a new generation of the path
// (a real create truncates), a write call may take only a few bytes (the caller's `write_all` has
// to loop), and the disk can run full at a byte count the harness sets, which tears a record.

/// Set the disk's behaviour from now on: `short` = at most that many bytes per write call,
/// `full_after` = ENOSPC once that many more bytes have been written (None = plenty of room).
pub(crate) fn set_disk(short: Option<usize>, full_after: Option<u64>) {
    with_net(|n| {
        n.disk_short = short;
        n.disk_left = full_after;
    });
    log_event("disk-mode", short.unwrap_or(0) as u64, full_after.unwrap_or(u64::MAX));
}

pub(crate) fn file_generations(path: &str) -> Vec<Vec<u8>> {
    with_net(|n| n.files.get(path).cloned().unwrap_or_default())
}

pub(crate) fn file_failed_generations(path: &str) -> Vec<usize> {
    with_net(|n| n.files_failed.get(path).cloned().unwrap_or_default())
}

pub(crate) struct File {
    path: String,
    generation: usize,
}

impl File {
    pub(crate) async fn create(path: impl AsRef<std::path::Path>) -> io::Result<File> {
        let path = path.as_ref().to_string_lossy().to_string();
        let generation = with_net(|n| {
            let g = n.files.entry(path.clone()).or_default();
            g.push(Vec::new());
            g.len() - 1
        });
        log_event("file-create", generation as u64, 0);
        Ok(File { path, generation })
    }
}

impl AsyncWrite for File {
    fn poll_write(self: Pin<&mut Self>, _cx: &mut Context<'_>, data: &[u8]) -> Poll<io::Result<usize>> {
        if data.is_empty() {
            return Poll::Ready(Ok(0));
        }
        let r = with_net(|n| {
            let mut take = data.len();
            if let Some(k) = n.disk_short {
                take = take.min(k.max(1));
            }
            if let Some(left) = n.disk_left {
                if left == 0 {
                    n.files_failed.entry(self.path.clone()).or_default().push(self.generation);
                    return Err(io::Error::from_raw_os_error(28)); // ENOSPC
                }
                take = take.min(left as usize);
                n.disk_left = Some(left - take as u64);
            }
            if let Some(g) = n.files.get_mut(&self.path).and_then(|g| g.get_mut(self.generation)) {
                g.extend_from_slice(&data[..take]);
            }
            Ok(take)
        });
        match &r {
            Ok(k) => log_event("file-write", self.generation as u64, *k as u64),
            Err(_) => log_event("file-write-enospc", self.generation as u64, 0),
        }
        Poll::Ready(r)
    }
    fn poll_flush(self: Pin<&mut Self>, _cx: &mut Context<'_>) -> Poll<io::Result<()>> {
        Poll::Ready(Ok(()))
    }
    fn poll_shutdown(self: Pin<&mut Self>, _cx: &mut Context<'_>) -> Poll<io::Result<()>> {
        Poll::Ready(Ok(()))
    }
}
