//! C01 (third scenario) — route-target constraint (RFC 4684) as part of "the current policy".
//!
//! VPNv4 routes carrying route targets from a small set come from 1-2 source sessions; 1-2 observers
//! negotiated the RTC family next to VPNv4 and tell the daemon which route targets they want
//! (RT-membership routes: exact match or the default route), change their mind during the history,
//! and have their receive window opened and closed by the schedule like the observers of the first
//! scenario. At check points an identically configured twin connects, announces the membership the
//! observer holds at that instant, sends its RTC End-of-RIB and receives its initial dump: the VPNv4
//! routes the observer's mirror holds must be exactly the twin's — a route that stopped matching the
//! observer's membership (its targets were replaced, or the membership was withdrawn) must have been
//! withdrawn on the wire, a route that started matching must have been sent.

use super::super::*;
use super::c01::{gen_rspec, node_from_json, RSpec};
use super::c08::fix_task_panic;
use super::speaker::*;
use super::topo::*;
use super::world::*;
use crate::verif_net::PipeOpts;
use std::collections::BTreeSet;
use vcore::{jarr, jobj, Check, CheckInfo, Json, Outcome, Rng, Tolerate, Violation};

pub(crate) struct RtcConvergence;

const N_RT: u64 = 3;
/// membership index that stands for the default RT-membership route (matches every target)
const WILDCARD: u64 = 9;

fn rt_bytes(k: u64) -> [u8; 8] {
    [0x00, 0x02, 0xfd, 0xe8, 0, 0, 0, 1 + k as u8]
}

fn vpn_prefix(i: u64) -> packet::Nlri {
    let packet::Nlri::V4(p) = v4_prefix(i) else { unreachable!() };
    packet::Nlri::VpnV4(packet::vpn::VpnV4Nlri { labels: packet::mpls::MplsLabelStack::new(vec![packet::mpls::MplsLabel::new(100 + i as u32)]), rd: packet::rd::RouteDistinguisher::TwoOctetAs { admin: 65000, assigned: 7 }, prefix: p })
}

fn membership(k: u64, origin_as: u32) -> packet::PathNlri {
    let n = if k == WILDCARD { packet::rtc::RtcNlri::wildcard() } else { packet::rtc::RtcNlri { match_type: packet::rtc::MatchType::ExactMatch { origin_as, route_target: rt_bytes(k) } } };
    packet::PathNlri { path_id: 0, nlri: packet::Nlri::Rtc(n) }
}

fn rtc_attrs(role: Role, asn: u32) -> Vec<packet::Attribute> {
    let mut v = vec![packet::Attribute::new_with_value(packet::Attribute::ORIGIN, 0).unwrap()];
    let mut b = Vec::new();
    if matches!(role, Role::Ebgp | Role::RsClient) {
        b.extend_from_slice(&[2u8, 1]);
        b.extend_from_slice(&asn.to_be_bytes());
    }
    v.push(packet::Attribute::new_with_bin(packet::Attribute::AS_PATH, b).unwrap());
    if matches!(role, Role::Ibgp | Role::RrClient) {
        v.push(packet::Attribute::new_with_value(packet::Attribute::LOCAL_PREF, 100).unwrap());
    }
    v
}

impl Check for RtcConvergence {
    fn property(&self) -> &'static str {
        "C01"
    }
    fn tier(&self) -> &'static str {
        "D"
    }
    fn name(&self) -> &'static str {
        "rtc-observer-vs-twin"
    }

    fn generate(&self, seed: u64, thorough: bool) -> Json {
        let mut rng = Rng::new(seed);
        let n_src = rng.range(1, 2) as usize;
        let n_obs = rng.range(1, 2) as usize;
        let n_pfx = rng.range(2, if thorough { 6 } else { 4 });
        let roles: &[u64] = &[0, 0, 1, 2];
        let sources: Vec<Json> = (0..n_src).map(|_| jobj! {"role" => *rng.pick(roles), "send_max" => 1u64, "addpath_rx" => rng.chance(1, 5), "ext_msg" => true}).collect();
        // a third of the observers negotiated graceful restart: when such a session is reset, the daemon keeps
        // the observer's RT-membership routes as stale and goes on filtering with them
        let observers: Vec<Json> = (0..n_obs).map(|_| jobj! {"role" => *rng.pick(roles), "send_max" => *rng.pick(&[1u64, 1, 1, 2]), "addpath_rx" => false, "ext_msg" => rng.coin(), "gr" => if rng.chance(1, 3) { jarr![5u64, false] } else { Json::Null }}).collect();
        let src_roles: Vec<Role> = sources.iter().map(|s| Role::from_u(s.i("role", 0) as u64)).collect();
        let en_win = rng.chance(2, 3);
        let en_wild = rng.chance(1, 3);
        // whether the observers send their RTC End-of-RIB right after coming up (otherwise later, or
        // never: the daemon's 60 s timer then ends the wait)
        let eor_at_once = rng.chance(2, 3);
        let n_ops = rng.range(4, if thorough { 50 } else { 26 });
        let mut ops = Vec::new();
        for _ in 0..n_ops {
            let s = rng.usize_below(n_src);
            let o = rng.usize_below(n_obs);
            match rng.weighted(&[30, 10, 22, if en_win { 10 } else { 0 }, 4, 4, 6, 3, if eor_at_once { 0 } else { 4 }, 3, 4, 4]) {
                10 => ops.push(jarr!["rr", o, rng.coin()]),
                11 => {
                    ops.push(jarr!["odown", o, rng.coin()]);
                    // what happens while the observer is away
                    for _ in 0..rng.below(3) {
                        if rng.coin() {
                            let spec = gen_rspec(&mut rng, src_roles[s], asn_for(src_roles[s], s));
                            let rts: Vec<Json> = (0..N_RT).filter(|_| rng.chance(2, 5)).map(Json::from).collect();
                            ops.push(jarr!["ann", s, rng.below(n_pfx), 0u64, spec.to_json(), Json::Arr(rts)]);
                        } else {
                            ops.push(jarr!["wait", *rng.pick(&[100u64, 3000, 6000])]);
                        }
                    }
                    // it may come back wanting something else
                    ops.push(jarr!["oup", o, if rng.chance(1, 3) { Json::from(rng.below(N_RT)) } else { Json::Null }]);
                }
                0 => {
                    let spec = gen_rspec(&mut rng, src_roles[s], asn_for(src_roles[s], s));
                    // 0-2 route targets out of three
                    let mut rts: Vec<Json> = (0..N_RT).filter(|_| rng.chance(2, 5)).map(Json::from).collect();
                    if rts.is_empty() && rng.chance(3, 4) {
                        rts.push(Json::from(rng.below(N_RT)));
                    }
                    let pid = if sources[s].get("addpath_rx").map(|b| b.as_bool()).unwrap_or(false) { rng.range(1, 2) } else { 0 };
                    ops.push(jarr!["ann", s, rng.below(n_pfx), pid, spec.to_json(), Json::Arr(rts)]);
                }
                1 => {
                    let pid = if sources[s].get("addpath_rx").map(|b| b.as_bool()).unwrap_or(false) { rng.range(1, 2) } else { 0 };
                    ops.push(jarr!["wd", s, rng.below(n_pfx), pid]);
                }
                2 => {
                    let k = if en_wild && rng.chance(1, 5) { WILDCARD } else { rng.below(N_RT) };
                    ops.push(jarr!["mem", o, k, rng.chance(3, 5)]);
                }
                3 => ops.push(jarr!["win", o, rng.coin()]),
                4 => ops.push(jarr!["wait", *rng.pick(&[1u64, 100, 1000, 20000, 61000])]),
                5 => {
                    ops.push(jarr!["down", s, rng.below(2)]);
                    if rng.chance(2, 3) {
                        ops.push(jarr!["up", s]);
                    }
                }
                6 => ops.push(jarr!["check"]),
                7 => ops.push(jarr!["bounce", o]),
                8 => ops.push(jarr!["eor", o]),
                _ => ops.push(jarr!["settle"]),
            }
        }
        jobj! {
            "shards" => rng.range(1, 3), "eor_at_once" => eor_at_once,
            "sources" => Json::Arr(sources), "observers" => Json::Arr(observers),
            "sub" => rng.next_u64() >> 1, "ops" => Json::Arr(ops)
        }
    }

    fn execute(&self, case: &Json, tol: &Tolerate) -> Outcome {
        let case = case.clone();
        let tol = tol.clone();
        let mut out = run_sim(case.i("sub", 1) as u64, move || run(case, tol));
        fix_task_panic(&mut out, "C01");
        out
    }

    fn info(&self) -> CheckInfo {
        CheckInfo {
            rule: "1-2 source sessions (eBGP / iBGP / RR client, optional add-path towards the DUT) announce, replace and withdraw 2-6 VPNv4 prefixes carrying 0-2 of 3 route targets, crash (FIN / RST) and come back; 1-2 observers (eBGP / iBGP / RR client, send-max 1-2) negotiated RTC and VPNv4, announce and withdraw RT-membership routes (exact match for one of the 3 targets; the default membership in a third of the runs), send their RTC End-of-RIB at once, later or never (virtual waits up to 61 s cross the daemon's 60 s timer), are bounced, go away (FIN / RST; a third of them negotiated graceful restart, so that their membership is kept as stale routes) and come back wanting the same or something else, ask for the VPN table again (ROUTE-REFRESH) or are soft-reset outbound by the operator, and have their receive window opened and closed by the schedule; 1-3 shards. At check points: windows opened, a missing RTC End-of-RIB sent, quiescence; an identically configured twin connects, announces the observer's membership of that instant, sends its RTC End-of-RIB and is given its initial dump; the VPNv4 part of mirror(observer) must equal that of mirror(twin). non-trivial = a check compared a non-empty view or a membership / route change happened while a window was closed; distinct = hash of the seam-event sequence".into(),
            components_real: vec!["PeerSession::{handle_prefix_update, do_route_refresh, rtc_vpn_refresh_families, on_established, rx_update (RTC End-of-RIB)}, rtc::{RtcState, RtcFilter}, TableManager::{collect_rtc_paths, trigger_rtc_export}".into(), "export::process_nlri_change, ExportMap, peer_tx::PendingTx; the VPNv4 and RTC codecs both ways".into()],
            components_stubbed: vec!["TCP, clock, listener/dispatch loop, remote speakers".into()],
            assumptions: vec!["only the default membership and exact matches are used (the daemon treats an AS-wide membership like the default one; the statement does not say)".into()],
            bounds: "<=50 ops, <=2 sources, <=2 observers (+twins), <=6 VPNv4 prefixes, 3 route targets".into(),
        }
    }
}

async fn run(case: Json, tol: Tolerate) -> Outcome {
    let mut out = Outcome::default();
    let srcs: Vec<Json> = case.get("sources").map(|s| s.arr().to_vec()).unwrap_or_default();
    let obss: Vec<Json> = case.get("observers").map(|s| s.arr().to_vec()).unwrap_or_default();
    let (n_src, n_obs) = (srcs.len(), obss.len());
    if n_src == 0 || n_obs == 0 {
        return out;
    }
    let mut nodes = Vec::new();
    for (i, s) in srcs.iter().enumerate() {
        nodes.push(node_from_json(s, IpAddr::V4(Ipv4Addr::new(10, 0, 1, i as u8 + 1)), i));
    }
    for (j, o) in obss.iter().enumerate() {
        nodes.push(node_from_json(o, IpAddr::V4(Ipv4Addr::new(10, 0, 2, j as u8 + 1)), 10 + j));
    }
    for (j, o) in obss.iter().enumerate() {
        let mut n = node_from_json(o, IpAddr::V4(Ipv4Addr::new(10, 0, 3, j as u8 + 1)), 10 + j);
        n.asn = nodes[n_src + j].asn;
        nodes.push(n);
    }
    let mut wcfg = WorldCfg::default();
    wcfg.shards = case.i("shards", 1) as usize;
    let mut t = Topo::new(&wcfg, nodes, vec![Family::RTC, Family::IPV4_VPN], 0).await;
    // the sources speak VPNv4 only
    for s in 0..n_src {
        t.nodes[s].spk.caps.retain(|c| !matches!(c, packet::Capability::MultiProtocol(f) if *f == Family::RTC));
    }
    let eor_at_once = case.get("eor_at_once").map(|b| b.as_bool()).unwrap_or(true);
    // what each observer currently wants, and whether it has sent its RTC End-of-RIB in this session
    let mut wants: Vec<BTreeSet<u64>> = vec![BTreeSet::new(); n_obs];
    let mut eor_sent: Vec<bool> = vec![false; n_obs];
    for i in 0..n_src + n_obs {
        t.connect(i, &PipeOpts::default(), &PipeOpts::default()).await;
        if i >= n_src && eor_at_once && t.nodes[i].spk.established() {
            t.nodes[i].spk.eor(Family::RTC);
            eor_sent[i - n_src] = true;
        }
    }
    t.settle().await;

    macro_rules! fail {
        ($class:expr, $($arg:tt)*) => {{
            let v = Violation::new(format!("C01/rtc/{}", $class), format!($($arg)*));
            if out.violate(&tol, v) { out.vtime_ms = t.now(); return out; }
        }};
    }
    let vpn_key = fam_key(Family::IPV4_VPN);

    let mut ops: Vec<Json> = case.get("ops").map(|o| o.arr().to_vec()).unwrap_or_default();
    ops.push(jarr!["check"]);
    let mut closed_window_changes = 0u64;
    for (opi, op) in ops.iter().enumerate() {
        let tag = op.at(0).as_str();
        if crate::verif_net::trace_on() {
            eprintln!("[trace] ---- op {} {}", opi, op.to_compact());
        }
        let any_closed = |t: &Topo| (n_src..n_src + n_obs).any(|o| t.nodes[o].spk.conn.as_ref().map(|c| !c.ctl().window_open()).unwrap_or(false));
        match tag {
            "ann" => {
                let s = op.at(1).as_usize() % n_src;
                if t.nodes[s].spk.established() {
                    let spec = RSpec::from_json(op.at(4));
                    let role = t.nodes[s].cfg.role;
                    let mut attrs = spec.attrs(role);
                    let rts: Vec<u8> = op.at(5).arr().iter().flat_map(|k| rt_bytes(k.as_u64() % N_RT)).collect();
                    if !rts.is_empty() {
                        attrs.push(packet::Attribute::new_with_bin(packet::Attribute::EXTENDED_COMMUNITY, rts).unwrap());
                    }
                    let net = packet::PathNlri { path_id: op.at(3).as_u32(), nlri: vpn_prefix(op.at(2).as_u64()) };
                    t.nodes[s].spk.announce(Family::IPV4_VPN, vec![net], Some(spec.nexthop()), attrs);
                    out.hit("op.announce");
                    if any_closed(&t) {
                        closed_window_changes += 1;
                    }
                    t.w.quiesce().await;
                }
            }
            "wd" => {
                let s = op.at(1).as_usize() % n_src;
                if t.nodes[s].spk.established() {
                    let net = packet::PathNlri { path_id: op.at(3).as_u32(), nlri: vpn_prefix(op.at(2).as_u64()) };
                    t.nodes[s].spk.withdraw(Family::IPV4_VPN, vec![net]);
                    out.hit("op.withdraw");
                    if any_closed(&t) {
                        closed_window_changes += 1;
                    }
                    t.w.quiesce().await;
                }
            }
            "mem" => {
                let o = op.at(1).as_usize() % n_obs;
                let k = op.at(2).as_u64();
                let on = op.at(3).as_bool();
                let node = n_src + o;
                if t.nodes[node].spk.established() {
                    let (role, asn) = (t.nodes[node].cfg.role, t.nodes[node].cfg.asn);
                    if on {
                        t.nodes[node].spk.announce(Family::RTC, vec![membership(k, asn)], Some(bgp::Nexthop::V4(Ipv4Addr::new(10, 0, 2, o as u8 + 1))), rtc_attrs(role, asn));
                        wants[o].insert(k);
                        out.hit(if k == WILDCARD { "op.default-membership-announced" } else { "op.membership-announced" });
                    } else if wants[o].remove(&k) {
                        t.nodes[node].spk.withdraw(Family::RTC, vec![membership(k, asn)]);
                        out.hit("op.membership-withdrawn");
                    }
                    if any_closed(&t) {
                        closed_window_changes += 1;
                    }
                    t.w.quiesce().await;
                }
            }
            "eor" => {
                let o = op.at(1).as_usize() % n_obs;
                if t.nodes[n_src + o].spk.established() && !eor_sent[o] {
                    t.nodes[n_src + o].spk.eor(Family::RTC);
                    eor_sent[o] = true;
                    out.hit("op.rtc-end-of-rib-sent-late");
                    t.w.quiesce().await;
                }
            }
            "rr" => {
                // the observer asks for the VPN table again (ROUTE-REFRESH), or the operator soft-resets it outbound
                let node = n_src + op.at(1).as_usize() % n_obs;
                if t.nodes[node].spk.established() {
                    if op.at(2).as_bool() {
                        t.nodes[node].spk.send(&bgp::Message::RouteRefresh { family: Family::IPV4_VPN });
                        out.hit("op.route-refresh");
                    } else {
                        let req = api::ResetPeerRequest { address: t.nodes[node].cfg.addr.to_string(), soft: true, direction: api::reset_peer_request::Direction::Out as i32, ..Default::default() };
                        let _ = t.w.grpc.reset_peer(tonic::Request::new(req)).await;
                        out.hit("op.soft-reset-out");
                    }
                    t.w.quiesce().await;
                }
            }
            "win" => {
                let o = n_src + op.at(1).as_usize() % n_obs;
                if let Some(c) = &t.nodes[o].spk.conn {
                    c.ctl().set_window(op.at(2).as_bool());
                    out.hit(if op.at(2).as_bool() { "fault.window-opened" } else { "fault.window-closed(back-pressure)" });
                }
                t.w.quiesce().await;
            }
            "wait" => {
                t.advance(op.at(1).as_u64()).await;
            }
            "settle" => {
                t.settle().await;
            }
            "down" => {
                let s = op.at(1).as_usize() % n_src;
                if t.nodes[s].spk.conn.is_some() {
                    if op.at(2).as_u64() == 0 {
                        t.nodes[s].spk.close();
                        out.hit("fault.source-fin");
                    } else {
                        t.nodes[s].spk.rst();
                        out.hit("fault.source-rst");
                    }
                    t.w.quiesce().await;
                }
            }
            "up" => {
                let s = op.at(1).as_usize() % n_src;
                if t.nodes[s].spk.conn.is_none() {
                    t.settle().await;
                    t.connect(s, &PipeOpts::default(), &PipeOpts::default()).await;
                    out.hit("op.source-reconnect");
                }
            }
            "odown" => {
                let o = op.at(1).as_usize() % n_obs;
                let node = n_src + o;
                if t.nodes[node].spk.conn.is_some() {
                    if op.at(2).as_bool() {
                        t.nodes[node].spk.rst();
                        out.hit("fault.observer-rst");
                    } else {
                        t.nodes[node].spk.close();
                        out.hit("fault.observer-fin");
                    }
                    eor_sent[o] = false;
                    t.settle().await;
                    let addr = t.nodes[node].cfg.addr;
                    if t.w.tables.collect_paths(table::TableQuery::AdjIn(addr), Family::RTC, vec![], true).iter().any(|d| d.paths.iter().any(|p| p.stale)) {
                        out.hit("probe.membership-retained-as-stale-routes");
                    }
                }
            }
            "oup" => {
                let o = op.at(1).as_usize() % n_obs;
                let node = n_src + o;
                if t.nodes[node].spk.conn.is_none() || !t.nodes[node].spk.established() {
                    if t.nodes[node].spk.conn.is_some() {
                        t.nodes[node].spk.close();
                        t.settle().await;
                    }
                    if matches!(op.at(2), Json::Int(_)) {
                        // a change of mind while away
                        let k = op.at(2).as_u64() % N_RT;
                        if !wants[o].remove(&k) {
                            wants[o].insert(k);
                        }
                    }
                    t.connect(node, &PipeOpts::default(), &PipeOpts::default()).await;
                    eor_sent[o] = false;
                    if t.nodes[node].spk.established() {
                        let (role, asn) = (t.nodes[node].cfg.role, t.nodes[node].cfg.asn);
                        for k in wants[o].clone() {
                            t.nodes[node].spk.announce(Family::RTC, vec![membership(k, asn)], Some(bgp::Nexthop::V4(Ipv4Addr::new(10, 0, 2, o as u8 + 1))), rtc_attrs(role, asn));
                        }
                        if eor_at_once {
                            t.nodes[node].spk.eor(Family::RTC);
                            eor_sent[o] = true;
                        }
                        out.hit("op.observer-back");
                    }
                    t.settle().await;
                }
            }
            "bounce" => {
                // the observer's session ends and comes back: it announces its membership again
                let o = op.at(1).as_usize() % n_obs;
                let node = n_src + o;
                if t.nodes[node].spk.conn.is_some() {
                    t.nodes[node].spk.close();
                    t.settle().await;
                }
                t.connect(node, &PipeOpts::default(), &PipeOpts::default()).await;
                eor_sent[o] = false;
                if t.nodes[node].spk.established() {
                    let (role, asn) = (t.nodes[node].cfg.role, t.nodes[node].cfg.asn);
                    for k in wants[o].clone() {
                        t.nodes[node].spk.announce(Family::RTC, vec![membership(k, asn)], Some(bgp::Nexthop::V4(Ipv4Addr::new(10, 0, 2, o as u8 + 1))), rtc_attrs(role, asn));
                    }
                    if eor_at_once {
                        t.nodes[node].spk.eor(Family::RTC);
                        eor_sent[o] = true;
                    }
                    out.hit("op.observer-bounced");
                }
                t.settle().await;
            }
            "check" => {
                for o in 0..n_obs {
                    let node = n_src + o;
                    if let Some(c) = &t.nodes[node].spk.conn {
                        c.ctl().set_window(true);
                    }
                    if t.nodes[node].spk.established() && !eor_sent[o] {
                        t.nodes[node].spk.eor(Family::RTC);
                        eor_sent[o] = true;
                    }
                }
                t.settle().await;
                t.advance(50).await;
                for o in 0..n_obs {
                    let node = n_src + o;
                    if !t.nodes[node].spk.established() {
                        out.hit("probe.observer-session-not-up-at-check");
                        continue;
                    }
                    let tw = node + n_obs;
                    // The observer's view is taken before the twin appears: the twin's own membership
                    // routes are a change in the RTC table, which makes the daemon walk the VPN table
                    // again for every RTC session and would repair what is being looked for.
                    let mo: std::collections::BTreeMap<_, _> = t.mirror_canon(node).into_iter().filter(|(k, _)| k.0 == vpn_key).collect();
                    t.connect(tw, &PipeOpts::default(), &PipeOpts::default()).await;
                    if !t.nodes[tw].spk.established() {
                        out.harness_error = Some(format!("twin {} did not come up (state {:?})", tw, t.nodes[tw].spk.state));
                        out.vtime_ms = t.now();
                        return out;
                    }
                    let (role, asn) = (t.nodes[tw].cfg.role, t.nodes[tw].cfg.asn);
                    for k in wants[o].clone() {
                        t.nodes[tw].spk.announce(Family::RTC, vec![membership(k, asn)], Some(bgp::Nexthop::V4(Ipv4Addr::new(10, 0, 3, o as u8 + 1))), rtc_attrs(role, asn));
                    }
                    t.nodes[tw].spk.eor(Family::RTC);
                    t.settle().await;
                    t.advance(50).await;
                    t.settle().await;
                    let mt: std::collections::BTreeMap<_, _> = t.mirror_canon(tw).into_iter().filter(|(k, _)| k.0 == vpn_key).collect();
                    out.hit("probe.check-performed");
                    if !mt.is_empty() {
                        out.hit("probe.check-with-non-empty-view");
                        out.nontrivial = true;
                    }
                    if mo != mt {
                        let extra: Vec<_> = mo.keys().filter(|k| !mt.contains_key(*k)).collect();
                        let missing: Vec<_> = mt.keys().filter(|k| !mo.contains_key(*k)).collect();
                        let differ: Vec<_> = mo.iter().filter(|(k, v)| mt.get(*k).is_some_and(|x| x != *v)).map(|(k, _)| k).collect();
                        let class = if !extra.is_empty() {
                            "withdraw-lost/observer-keeps-route-a-new-session-would-not-get"
                        } else if !missing.is_empty() {
                            "route-missing/observer-lacks-route-a-new-session-gets"
                        } else {
                            "attrs-differ/observer-holds-other-attributes-than-a-new-session-gets"
                        };
                        let d0 = differ.first().map(|k| format!("{:?}: observer {:?} twin {:?}", k, mo.get(*k), mt.get(*k))).unwrap_or_default();
                        fail!(class, "op {} (check): observer {} role {} send-max {} membership {:?}: extra {:?} missing {:?} differ {} [{}]", opi, o, t.nodes[node].cfg.role.name(), t.nodes[node].cfg.send_max, wants[o], extra, missing, differ.len(), d0);
                        let Topo { nodes, .. } = &mut t;
                        let keep: Vec<_> = nodes[node].spk.mirror.keys().filter(|k| k.0 == vpn_key).cloned().collect();
                        for k in keep {
                            nodes[node].spk.mirror.remove(&k);
                        }
                        let add: Vec<_> = nodes[tw].spk.mirror.iter().filter(|(k, _)| k.0 == vpn_key).map(|(k, v)| (k.clone(), v.clone())).collect();
                        for (k, v) in add {
                            nodes[node].spk.mirror.insert(k, v);
                        }
                    }
                    t.nodes[tw].spk.close();
                    t.settle().await;
                }
                if t.collect_speaker_errors(&mut out, "C01", &tol) {
                    out.vtime_ms = t.now();
                    return out;
                }
            }
            _ => {}
        }
    }
    if closed_window_changes > 0 {
        out.count("probe.change-while-observer-window-closed", closed_window_changes);
        out.nontrivial = true;
    }
    out.vtime_ms = t.now();
    out
}
