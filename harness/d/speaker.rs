//! Scripted BGP speaker: owns the far end of a simulated connection to the DUT.  Speaks with the
//! repository's codec negotiated *from its side* plus an independent frame walker; keeps what it
//! announced and a mirror Adj-RIB-In folded from every byte the DUT sent.

use super::super::*;
use crate::verif_net::{PipeOpts, TcpStream as SimStream};
use bytes::BytesMut;
use std::collections::{BTreeMap, BTreeSet};

#[derive(Clone, Copy, Debug, PartialEq, Eq)]
pub(crate) enum SpkState {
    Idle,
    Connected,
    OpenSent,
    OpenConfirm,
    Established,
    Closed,
}

#[derive(Clone, Debug)]
pub(crate) struct FrameRec {
    pub t_ms: u64,
    pub kind: u8,
    pub len: usize,
}

pub(crate) type MirrorKey = (u32, String, u32); // (family as u32, nlri debug string, path id)

pub(crate) struct Speaker {
    pub addr: IpAddr,
    pub asn: u32,
    pub rid: u32,
    pub hold: u16,
    pub caps: Vec<packet::Capability>,
    pub conn: Option<SimStream>,
    rx: BytesMut,
    pub codec: bgp::PeerCodec,
    pub negotiated: bool,
    pub dut_open: Option<bgp::Open>,
    pub state: SpkState,
    pub open_sent: bool,
    /// reply to the DUT's OPEN with our OPEN (if not sent yet) and a KEEPALIVE
    pub auto_open: bool,
    pub mirror: BTreeMap<MirrorKey, (Vec<packet::Attribute>, Option<bgp::Nexthop>)>,
    pub frames: Vec<FrameRec>,
    pub notifications: Vec<packet::Notification>,
    pub eor_seen: BTreeSet<u32>,
    pub keepalive_times: Vec<u64>,
    pub update_times: Vec<u64>,
    pub closed_at: Option<u64>,
    pub framing_errors: Vec<String>,
    pub decode_errors: Vec<String>,
    pub bytes_rx: u64,
    pub is_ebgp_view: bool,
    /// send a KEEPALIVE right after our OPEN reply
    pub auto_ka: bool,
    /// stop sending periodic KEEPALIVEs (peer goes silent)
    pub mute: bool,
    /// how many times each key was announced to us on this connection
    pub reach_count: BTreeMap<MirrorKey, u32>,
    /// how an NLRI identifies a route in the mirror (labels are not part of the identity)
    pub nlri_key: fn(&packet::Nlri) -> String,
    consumed: u64,
}

pub(crate) fn fam_key(f: Family) -> u32 {
    ((f.afi() as u32) << 8) | f.safi() as u32
}

pub(crate) fn default_caps(asn: u32, families: &[Family]) -> Vec<packet::Capability> {
    let mut caps: Vec<packet::Capability> = families.iter().map(|f| packet::Capability::MultiProtocol(*f)).collect();
    caps.push(packet::Capability::FourOctetAsNumber(asn));
    caps
}

/// Independent walk of what an UPDATE carries, written from the RFCs and not from the repository's
/// codec (which the speaker uses on both ends, so that a mistake mirrored in encoder and decoder
/// agrees with itself): prefix lengths of the legacy fields, and for MP_REACH_NLRI / MP_UNREACH_NLRI
/// the next-hop length the address family allows (RFC 4760, 2545, 4364, 4659, 8277, 7432, 7752, 8950)
/// and, for unicast, labeled and VPN families, NLRI that tile the attribute.
/// `addpath(afi, safi)` tells whether path identifiers are expected; `ext_nh` whether RFC 8950 was
/// negotiated.
pub(crate) fn walk_update(f: &[u8], addpath: &dyn Fn(u16, u8) -> bool, ext_nh: bool) -> Result<(), String> {
    let len = f.len();
    if len < 23 || f[18] != 2 {
        return Ok(());
    }
    let wl = u16::from_be_bytes([f[19], f[20]]) as usize;
    let al = u16::from_be_bytes([f[21 + wl], f[22 + wl]]) as usize;
    // prefixes of a plain IPv4 field
    let v4_field = |b: &[u8], what: &str| -> Result<(), String> {
        let ap = addpath(1, 1);
        let mut i = 0;
        while i < b.len() {
            if ap {
                if i + 4 > b.len() {
                    return Err(format!("{}: path identifier overruns the field", what));
                }
                i += 4;
            }
            if i >= b.len() {
                return Err(format!("{}: prefix length octet missing", what));
            }
            let bits = b[i] as usize;
            if bits > 32 {
                return Err(format!("{}: IPv4 prefix length {}", what, bits));
            }
            i += 1 + bits.div_ceil(8);
            if i > b.len() {
                return Err(format!("{}: prefix overruns the field", what));
            }
        }
        Ok(())
    };
    v4_field(&f[21..21 + wl], "withdrawn routes")?;
    v4_field(&f[23 + wl + al..], "NLRI")?;
    // NLRI of unicast (SAFI 1, 2), labeled (4) and VPN (128) families
    let nlri_field = |afi: u16, safi: u8, b: &[u8], reach: bool| -> Result<(), String> {
        let max_bits = match afi {
            1 => 32usize,
            2 => 128,
            _ => return Ok(()),
        };
        if !matches!(safi, 1 | 2 | 4 | 128) {
            return Ok(());
        }
        let ap = addpath(afi, safi);
        let mut i = 0;
        while i < b.len() {
            if ap {
                if i + 4 > b.len() {
                    return Err(format!("AFI {} SAFI {}: path identifier overruns the NLRI field", afi, safi));
                }
                i += 4;
            }
            if i >= b.len() {
                return Err(format!("AFI {} SAFI {}: length octet missing", afi, safi));
            }
            let bits = b[i] as usize;
            let bytes = bits.div_ceil(8);
            if i + 1 + bytes > b.len() {
                return Err(format!("AFI {} SAFI {}: NLRI of {} bits overruns the field", afi, safi, bits));
            }
            let body = &b[i + 1..i + 1 + bytes];
            let mut fixed = 0usize; // bits in front of the prefix
            if safi == 4 || safi == 128 {
                // label stack: in MP_REACH up to the bottom-of-stack bit; in MP_UNREACH one 3-octet field (RFC 8277 2.4)
                let mut k = 0;
                loop {
                    if 3 * (k + 1) > body.len() {
                        return Err(format!("AFI {} SAFI {}: label stack overruns a {}-bit NLRI", afi, safi, bits));
                    }
                    let bos = body[3 * k + 2] & 1 != 0;
                    k += 1;
                    if bos || !reach {
                        break;
                    }
                }
                fixed += 24 * k;
                if safi == 128 {
                    fixed += 64;
                }
            }
            if bits < fixed || bits - fixed > max_bits {
                return Err(format!("AFI {} SAFI {} ({}): {} bits with {} bits of labels / distinguisher leave a prefix of {} bits", afi, safi, if reach { "reach" } else { "unreach" }, bits, fixed, bits as i64 - fixed as i64));
            }
            i += 1 + bytes;
        }
        Ok(())
    };
    let mut i = 23 + wl;
    let end = 23 + wl + al;
    let mut seen = [false; 256];
    while i + 3 <= end {
        let flags = f[i];
        let code = f[i + 1];
        let (alen, hdr) = if flags & 0x10 != 0 { (u16::from_be_bytes([f[i + 2], f[i + 3]]) as usize, 4) } else { (f[i + 2] as usize, 3) };
        let v = &f[(i + hdr).min(end)..(i + hdr + alen).min(end)];
        // the shapes RFC 4271 / 1997 / 4360 / 4456 / 6793 / 8092 fix for the attributes every
        // implementation knows: category flags, lengths, the ORIGIN code points, AS_PATH segments
        if std::mem::replace(&mut seen[code as usize], true) {
            return Err(format!("attribute {} appears twice", code));
        }
        let want_flags: Option<u8> = match code {
            1 | 2 | 3 | 5 | 6 => Some(0x40),
            4 | 9 | 10 | 14 | 15 => Some(0x80),
            7 | 8 | 16 | 17 | 18 | 32 => Some(0xc0),
            _ => None,
        };
        if let Some(w) = want_flags {
            if flags & 0xc0 != w {
                return Err(format!("attribute {}: flags {:#04x}, its category is {:#04x}", code, flags, w));
            }
            if w != 0xc0 && flags & 0x20 != 0 {
                return Err(format!("attribute {}: Partial bit on an attribute that is not optional transitive", code));
            }
        }
        let len_ok = match code {
            1 => v.len() == 1,
            3 | 4 | 5 | 9 => v.len() == 4,
            6 => v.is_empty(),
            7 => v.len() == 6 || v.len() == 8,
            8 | 10 => v.len() % 4 == 0,
            16 => v.len() % 8 == 0,
            18 => v.len() == 8,
            32 => v.len() % 12 == 0,
            _ => true,
        };
        if !len_ok {
            return Err(format!("attribute {}: length {}", code, v.len()));
        }
        if code == 1 && v[0] > 2 {
            return Err(format!("ORIGIN {}", v[0]));
        }
        if code == 2 || code == 17 {
            // segments of (type 1-4, count >= 1, count AS numbers) that tile the value, with four-octet
            // or (AS_PATH towards an old speaker only) two-octet AS numbers
            let tiles = |w: usize| -> bool {
                let mut k = 0;
                while k < v.len() {
                    if k + 2 > v.len() || !(1..=4).contains(&v[k]) || v[k + 1] == 0 {
                        return false;
                    }
                    k += 2 + v[k + 1] as usize * w;
                }
                k == v.len()
            };
            if !(tiles(4) || (code == 2 && tiles(2))) {
                return Err(format!("attribute {}: segments do not tile the value ({} octets)", code, v.len()));
            }
        }
        match code {
            14 => {
                if v.len() < 5 {
                    return Err("MP_REACH_NLRI shorter than 5 octets".into());
                }
                let afi = u16::from_be_bytes([v[0], v[1]]);
                let safi = v[2];
                let nhl = v[3] as usize;
                if 4 + nhl + 1 > v.len() {
                    return Err(format!("MP_REACH_NLRI AFI {} SAFI {}: next hop of {} octets overruns the attribute", afi, safi, nhl));
                }
                let ok: &[usize] = match (afi, safi) {
                    (1, 1) | (1, 2) | (1, 4) => if ext_nh { &[4, 16, 32] } else { &[4] },
                    (1, 128) => if ext_nh { &[12, 24, 48] } else { &[12] },
                    (2, 1) | (2, 2) | (2, 4) => &[16, 32],
                    (2, 128) => &[24, 48],
                    (25, 70) | (16388, 71) | (16388, 72) | (1, 73) | (2, 73) | (1, 132) | (1, 85) | (2, 85) => &[4, 16, 32],
                    _ => &[],
                };
                if !ok.is_empty() && !ok.contains(&nhl) {
                    return Err(format!("MP_REACH_NLRI AFI {} SAFI {}: next hop of {} octets (allowed {:?})", afi, safi, nhl, ok));
                }
                if matches!((afi, safi), (1, 128) | (2, 128)) && v[4..12].iter().any(|b| *b != 0) {
                    return Err("VPN next hop: route distinguisher is not zero".into());
                }
                nlri_field(afi, safi, &v[4 + nhl + 1..], true)?;
            }
            15 => {
                if v.len() < 3 {
                    return Err("MP_UNREACH_NLRI shorter than 3 octets".into());
                }
                nlri_field(u16::from_be_bytes([v[0], v[1]]), v[2], &v[3..], false)?;
            }
            _ => {}
        }
        i += hdr + alen;
    }
    Ok(())
}

/// Independent RFC 4271 frame check (marker, length range, type, UPDATE section lengths).
pub(crate) fn walk_frame(f: &[u8], max_len: usize) -> Result<u8, String> {
    if f.len() < 19 {
        return Err(format!("frame shorter than a header: {}", f.len()));
    }
    if f[..16].iter().any(|b| *b != 0xff) {
        return Err("marker is not all ones".into());
    }
    let len = u16::from_be_bytes([f[16], f[17]]) as usize;
    if len != f.len() {
        return Err(format!("header length {} but frame has {} bytes", len, f.len()));
    }
    if len > max_len {
        return Err(format!("frame of {} bytes exceeds the negotiated maximum {}", len, max_len));
    }
    let t = f[18];
    match t {
        1 => {
            if len < 29 {
                return Err("OPEN shorter than 29".into());
            }
            let opt = f[28] as usize;
            if opt == 255 && len >= 32 && f[29] == 255 {
                // RFC 9072 extended optional parameters: two-octet lengths
                let ext = u16::from_be_bytes([f[30], f[31]]) as usize;
                if 32 + ext != len {
                    return Err(format!("OPEN extended optional parameter length {} does not match frame {}", ext, len));
                }
                let mut i = 32;
                while i < len {
                    if i + 3 > len || i + 3 + u16::from_be_bytes([f[i + 1], f[i + 2]]) as usize > len {
                        return Err("OPEN extended optional parameter overruns the frame".into());
                    }
                    i += 3 + u16::from_be_bytes([f[i + 1], f[i + 2]]) as usize;
                }
            } else {
                if 29 + opt != len {
                    return Err(format!("OPEN optional parameter length {} does not match frame {}", opt, len));
                }
                let mut i = 29;
                while i < len {
                    if i + 2 > len || i + 2 + f[i + 1] as usize > len {
                        return Err("OPEN optional parameter overruns the frame".into());
                    }
                    i += 2 + f[i + 1] as usize;
                }
            }
        }
        2 => {
            if len < 23 {
                return Err("UPDATE shorter than 23".into());
            }
            let wl = u16::from_be_bytes([f[19], f[20]]) as usize;
            if 21 + wl + 2 > len {
                return Err(format!("withdrawn length {} overruns frame {}", wl, len));
            }
            let al = u16::from_be_bytes([f[21 + wl], f[22 + wl]]) as usize;
            if 23 + wl + al > len {
                return Err(format!("attribute length {} overruns frame {}", al, len));
            }
            // attribute TLV walk
            let mut i = 23 + wl;
            let end = 23 + wl + al;
            while i < end {
                if i + 3 > end {
                    return Err("attribute header overruns attribute block".into());
                }
                let flags = f[i];
                let (alen, hdr) = if flags & 0x10 != 0 {
                    if i + 4 > end {
                        return Err("extended attribute header overruns block".into());
                    }
                    (u16::from_be_bytes([f[i + 2], f[i + 3]]) as usize, 4)
                } else {
                    (f[i + 2] as usize, 3)
                };
                if i + hdr + alen > end {
                    return Err(format!("attribute {} length {} overruns block", f[i + 1], alen));
                }
                i += hdr + alen;
            }
        }
        3 => {
            if len < 21 {
                return Err("NOTIFICATION shorter than 21".into());
            }
        }
        4 => {
            if len != 19 {
                return Err(format!("KEEPALIVE of {} bytes", len));
            }
        }
        5 => {
            if len != 23 {
                return Err(format!("ROUTE-REFRESH of {} bytes", len));
            }
        }
        x => return Err(format!("unknown message type {}", x)),
    }
    Ok(t)
}

impl Speaker {
    pub(crate) fn new(addr: IpAddr, asn: u32, rid: u32, hold: u16, caps: Vec<packet::Capability>) -> Speaker {
        Speaker {
            addr,
            asn,
            rid,
            hold,
            caps,
            conn: None,
            rx: BytesMut::new(),
            codec: bgp::PeerCodec::new(),
            negotiated: false,
            dut_open: None,
            state: SpkState::Idle,
            open_sent: false,
            auto_open: true,
            mirror: BTreeMap::new(),
            frames: Vec::new(),
            notifications: Vec::new(),
            eor_seen: BTreeSet::new(),
            keepalive_times: Vec::new(),
            update_times: Vec::new(),
            closed_at: None,
            framing_errors: Vec::new(),
            decode_errors: Vec::new(),
            bytes_rx: 0,
            is_ebgp_view: false,
            auto_ka: true,
            mute: false,
            reach_count: BTreeMap::new(),
            nlri_key: |n| format!("{:?}", n),
            consumed: 0,
        }
    }

    /// Forget session state (a new TCP connection starts from scratch; the mirror is emptied
    /// because a restarted speaker has lost its Adj-RIB-In).
    pub(crate) fn reset_session(&mut self) {
        self.conn = None;
        self.mute = false;
        self.rx.clear();
        self.consumed = 0;
        self.codec = bgp::PeerCodec::new();
        self.negotiated = false;
        self.dut_open = None;
        self.state = SpkState::Idle;
        self.open_sent = false;
        self.mirror.clear();
        self.reach_count.clear();
        self.eor_seen.clear();
        self.notifications.clear();
        self.closed_at = None;
    }

    pub(crate) fn attach(&mut self, s: SimStream) {
        self.reset_session();
        self.conn = Some(s);
        self.state = SpkState::Connected;
    }

    pub(crate) fn connect(&mut self, w: &super::world::World, to_dut: &PipeOpts, from_dut: &PipeOpts) {
        let s = w.connect_to_dut(self.addr, to_dut, from_dut);
        self.attach(s);
    }

    pub(crate) fn open_msg(&self) -> bgp::Message {
        bgp::Message::Open(bgp::Open {
            as_number: self.asn,
            holdtime: packet::HoldTime::new(self.hold).unwrap_or(packet::HoldTime::DISABLED),
            router_id: self.rid,
            capability: self.caps.clone(),
        })
    }

    pub(crate) fn send(&mut self, msg: &bgp::Message) -> bool {
        let Some(c) = &self.conn else {
            return false;
        };
        let mut buf = BytesMut::with_capacity(4096);
        if self.codec.encode_to(msg, &mut buf).is_err() {
            return false;
        }
        c.write_now(&buf).is_ok()
    }

    pub(crate) fn send_raw(&mut self, bytes: &[u8]) -> bool {
        match &self.conn {
            Some(c) => c.write_now(bytes).is_ok(),
            None => false,
        }
    }

    pub(crate) fn send_open(&mut self) {
        let m = self.open_msg();
        if self.send(&m) {
            self.open_sent = true;
            if self.state == SpkState::Connected {
                self.state = SpkState::OpenSent;
            }
        }
    }

    pub(crate) fn send_keepalive(&mut self) {
        self.send(&bgp::Message::Keepalive);
    }

    /// FIN: close our side and drop the connection object.
    pub(crate) fn close(&mut self) {
        self.conn = None; // Drop sends FIN
        self.state = SpkState::Closed;
    }

    pub(crate) fn rst(&mut self) {
        if let Some(c) = &self.conn {
            c.ctl().rst();
        }
        self.conn = None;
        self.state = SpkState::Closed;
    }

    pub(crate) fn max_len(&self) -> usize {
        if self.negotiated {
            self.codec.max_message_length()
        } else {
            4096
        }
    }

    /// Drain everything deliverable now; parse, fold, auto-reply.  Returns number of frames seen.
    pub(crate) fn process_inbox(&mut self, now_ms: u64) -> usize {
        let Some(c) = self.conn.as_ref() else {
            return 0;
        };
        let data = c.read_available();
        self.bytes_rx += data.len() as u64;
        self.rx.extend_from_slice(&data);
        let peer_closed = c.ctl().peer_closed();
        let mut n = 0;
        loop {
            if self.rx.len() < 19 {
                break;
            }
            let len = u16::from_be_bytes([self.rx[16], self.rx[17]]) as usize;
            if len < 19 {
                self.framing_errors.push(format!("header length {} < 19", len));
                self.rx.clear();
                break;
            }
            if self.rx.len() < len {
                break;
            }
            let frame = self.rx.split_to(len);
            self.consumed += len as u64;
            let now_ms = self.conn.as_ref().map(|c| c.ctl().peer_write_time(self.consumed)).unwrap_or(now_ms);
            n += 1;
            let kind = match walk_frame(&frame, self.max_len()) {
                Ok(k) => k,
                Err(e) => {
                    self.framing_errors.push(e);
                    continue;
                }
            };
            self.frames.push(FrameRec { t_ms: now_ms, kind, len });
            if kind == 2 && self.negotiated {
                let ext_nh = self.caps.iter().any(|c| matches!(c, packet::Capability::ExtendedNexthop(_))) && self.dut_open.as_ref().is_some_and(|o| o.capability.iter().any(|c| matches!(c, packet::Capability::ExtendedNexthop(_))));
                let codec = &self.codec;
                let ap = |afi: u16, safi: u8| codec.family_state(Family::new(afi, safi)).is_some_and(|s| s.addpath_rx);
                if let Err(e) = walk_update(&frame, &ap, ext_nh) {
                    self.framing_errors.push(format!("UPDATE content: {}", e));
                }
            }
            let mut b = BytesMut::from(&frame[..]);
            match self.codec.try_parse(&mut b) {
                Ok(Some(parsed)) => self.on_parsed(parsed, now_ms),
                Ok(None) => self.decode_errors.push("codec wants more bytes for a complete frame".into()),
                Err(e) => self.decode_errors.push(format!("codec rejected frame type {}: {:?}", kind, e)),
            }
        }
        if peer_closed && self.closed_at.is_none() && self.rx.is_empty() {
            self.closed_at = Some(now_ms);
            self.state = SpkState::Closed;
        }
        n
    }

    fn on_parsed(&mut self, parsed: bgp::ParsedMessage, now_ms: u64) {
        let msgs: Vec<bgp::Message> = match bgp::validate_message(parsed, self.is_ebgp_view) {
            Ok(it) => it.collect(),
            Err(n) => {
                self.decode_errors.push(format!("validate_message: {:?}", n));
                return;
            }
        };
        for m in msgs {
            match m {
                bgp::Message::Open(o) => {
                    self.codec = bgp::PeerCodec::negotiate(&self.caps, &o.capability);
                    self.negotiated = true;
                    self.dut_open = Some(o);
                    if self.auto_open {
                        if !self.open_sent {
                            self.send_open();
                        }
                        if self.auto_ka {
                            self.send_keepalive();
                        }
                        self.state = SpkState::OpenConfirm;
                    }
                }
                bgp::Message::Keepalive => {
                    self.keepalive_times.push(now_ms);
                    if self.state == SpkState::OpenConfirm {
                        self.state = SpkState::Established;
                    }
                }
                bgp::Message::Notification(n) => {
                    self.notifications.push(n);
                }
                bgp::Message::RouteRefresh { .. } => {}
                bgp::Message::Update(u) => {
                    self.update_times.push(now_ms);
                    if crate::verif_net::trace_on() {
                        match &u {
                            bgp::Update::Reach { entries, attr, .. } => eprintln!("[trace] speaker {} <- reach {:?} med={:?}", self.addr, entries.iter().map(|e| format!("{}#{}", e.nlri, e.path_id)).collect::<Vec<_>>(), attr.iter().find(|a| a.code() == 4).and_then(|a| a.value())),
                            bgp::Update::Unreach { entries, .. } => eprintln!("[trace] speaker {} <- unreach {:?}", self.addr, entries.iter().map(|e| format!("{}#{}", e.nlri, e.path_id)).collect::<Vec<_>>()),
                            bgp::Update::EndOfRib(f) => eprintln!("[trace] speaker {} <- eor {:?}", self.addr, f),
                        }
                    }
                    match u {
                        bgp::Update::Reach { family, entries, nexthop, attr } => {
                            for e in entries {
                                let k = (fam_key(family), (self.nlri_key)(&e.nlri), e.path_id);
                                *self.reach_count.entry(k.clone()).or_insert(0) += 1;
                                self.mirror.insert(k, ((*attr).clone(), nexthop));
                            }
                        }
                        bgp::Update::Unreach { family, entries } => {
                            for e in entries {
                                self.mirror.remove(&(fam_key(family), (self.nlri_key)(&e.nlri), e.path_id));
                            }
                        }
                        bgp::Update::EndOfRib(f) => {
                            self.eor_seen.insert(fam_key(f));
                        }
                    }
                }
            }
        }
    }

    pub(crate) fn announce(&mut self, family: Family, nets: Vec<packet::PathNlri>, nexthop: Option<bgp::Nexthop>, attrs: Vec<packet::Attribute>) -> bool {
        self.send(&bgp::Message::Update(bgp::Update::Reach { family, entries: nets, nexthop, attr: Arc::new(attrs) }))
    }

    pub(crate) fn withdraw(&mut self, family: Family, nets: Vec<packet::PathNlri>) -> bool {
        self.send(&bgp::Message::Update(bgp::Update::Unreach { family, entries: nets }))
    }

    pub(crate) fn eor(&mut self, family: Family) -> bool {
        self.send(&bgp::Message::eor(family))
    }

    pub(crate) fn established(&self) -> bool {
        self.state == SpkState::Established
    }
}
