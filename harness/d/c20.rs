//! C20 — kernel FIB requests and next-hop tracking stay in step with the RIB.
//! Tier D with the kernel actor: `TableManager.kernel_handle` is an observable handle (requests
//! are seen at the channel instead of netlink); next-hop reachability reports are injected
//! through the kernel event channel between and inside bursts of route changes.

use super::super::*;
use super::c01::{gen_rspec, node_from_json, RSpec};
use super::c08::fix_task_panic;
use super::speaker::*;
use super::topo::*;
use super::world::*;
use crate::verif_net::PipeOpts;
use std::collections::{BTreeMap, BTreeSet};
use vcore::{jarr, jobj, Check, CheckInfo, Json, Outcome, Rng, Tolerate, Violation};

pub(crate) struct KernelSync;

fn nh_addr(i: u64) -> IpAddr {
    IpAddr::V4(Ipv4Addr::new(192, 0, 2, i as u8))
}

#[derive(Clone, Debug, PartialEq, Eq, PartialOrd, Ord)]
pub(crate) struct Key {
    llgr: bool,
    lp: std::cmp::Reverse<u32>,
    hops: usize,
    origin: u8,
    not_ebgp: bool,
    stale: bool,
    cluster: usize,
}

pub(crate) fn tie_key(p: &table::Path) -> Key {
    key_of(p)
}

fn key_of(p: &table::Path) -> Key {
    let a: &[packet::Attribute] = &p.attr;
    let val = |c: u8| a.iter().find(|x| x.code() == c).and_then(|x| x.value());
    let hops = a
        .iter()
        .find(|x| x.code() == packet::Attribute::AS_PATH)
        .and_then(|x| x.binary())
        .map(|b| {
            let (mut i, mut n) = (0usize, 0usize);
            while i + 2 <= b.len() {
                match b[i] {
                    1 => n += 1,
                    2 => n += b[i + 1] as usize,
                    _ => {}
                }
                i += 2 + 4 * b[i + 1] as usize;
            }
            n
        })
        .unwrap_or(0);
    let llgr = p.source.is_llgr_stale() || a.iter().find(|x| x.code() == packet::Attribute::COMMUNITY).and_then(|x| x.binary()).is_some_and(|b| b.chunks(4).any(|c| c == [0xff, 0xff, 0, 6]));
    Key {
        llgr,
        lp: std::cmp::Reverse(val(packet::Attribute::LOCAL_PREF).unwrap_or(100)),
        hops,
        origin: val(packet::Attribute::ORIGIN).map(|v| v as u8).unwrap_or(2),
        not_ebgp: !matches!(p.source.role, table::PeerRole::Ebgp | table::PeerRole::RsClient),
        stale: p.source.is_stale(),
        cluster: a.iter().find(|x| x.code() == packet::Attribute::CLUSTER_LIST).and_then(|x| x.binary()).map(|b| b.len() / 4).unwrap_or(0),
    }
}

impl Check for KernelSync {
    fn property(&self) -> &'static str {
        "C20"
    }
    fn tier(&self) -> &'static str {
        "D"
    }
    fn name(&self) -> &'static str {
        "kernel-sync"
    }

    fn generate(&self, seed: u64, thorough: bool) -> Json {
        let mut rng = Rng::new(seed);
        let n_src = rng.range(1, 3) as usize;
        let roles: &[u64] = &[0, 0, 1, 2];
        let sources: Vec<Json> = (0..n_src)
            .map(|_| jobj! {"role" => *rng.pick(roles), "send_max" => 1u64, "addpath_rx" => rng.chance(1, 4), "ext_msg" => true, "gr" => if rng.chance(1, 3) { jarr![20u64, false] } else { Json::Null }})
            .collect();
        let src_roles: Vec<Role> = sources.iter().map(|s| Role::from_u(s.i("role", 0) as u64)).collect();
        let n_pfx = rng.range(2, 5);
        let n = rng.range(4, if thorough { 50 } else { 28 });
        let mut ops = Vec::new();
        for _ in 0..n {
            let s = rng.usize_below(n_src);
            let ap = sources[s].get("addpath_rx").map(|b| b.as_bool()).unwrap_or(false);
            match rng.weighted(&[36, 14, 14, 5, 4, 6, 4, 4, 6]) {
                8 => ops.push(jarr!["local", rng.below(n_pfx), rng.below(4), rng.chance(2, 3), rng.chance(1, 3)]),
                0 => {
                    let mut spec = gen_rspec(&mut rng, src_roles[s], asn_for(src_roles[s], s));
                    spec.nh = rng.range(1, 3) as u8;
                    // small colliding domains so that several paths tie before the router-id step
                    spec.asp.truncate(2);
                    spec.med = -1;
                    spec.org = 0;
                    ops.push(jarr!["ann", s, rng.below(n_pfx), if ap { rng.range(1, 2) } else { 0 }, spec.to_json(), rng.chance(1, 3)]);
                }
                1 => ops.push(jarr!["wd", s, rng.below(n_pfx), if ap { rng.range(1, 2) } else { 0 }, rng.chance(1, 3)]),
                2 => ops.push(jarr!["nh", rng.range(1, 3), rng.coin(), rng.chance(1, 2)]),
                7 => ops.push(jarr!["pol", rng.below(3), rng.chance(1, 3)]),
                3 => ops.push(jarr!["down", s]),
                4 => ops.push(jarr!["up", s]),
                5 => ops.push(jarr!["wait", *rng.pick(&[10u64, 1000, 25_000])]),
                _ => ops.push(jarr!["settle"]),
            }
        }
        jobj! {"shards" => rng.range(1, 3), "sources" => Json::Arr(sources), "sub" => rng.next_u64() >> 1, "ops" => Json::Arr(ops)}
    }

    fn execute(&self, case: &Json, tol: &Tolerate) -> Outcome {
        let case = case.clone();
        let tol = tol.clone();
        let mut out = run_sim(case.i("sub", 1) as u64, move || run(case, tol));
        fix_task_panic(&mut out, "C20");
        out
    }

    fn info(&self) -> CheckInfo {
        CheckInfo {
            rule: "1-3 source peers (eBGP / iBGP / RR client, optional add-path towards the DUT, optional GR so that stale marking and purge happen) announcing 2-5 prefixes over 3 shared next hops with attributes from small colliding domains (so that paths tie before the router-id step); ops announce / replace / withdraw (optionally without quiescence before the next op = inside a burst), peer drop and reconnect, routes originated / deleted by the operator for the same prefixes (with one of the shared next hops or none), an import policy installed / replaced / removed with a soft reset IN of every peer (every path inserted again over itself), next-hop reachability reports injected through the kernel event channel (optionally inside a burst), waits across the GR restart timer; 1-3 shards. At quiescence: the fold of Apply requests per prefix equals the next-hop set of the RIB's best path and the paths tied with it on every step before router-id (reference comparator), empty when there is none; register - unregister per address equals the number of peer-learned RIB entries using that next hop and never goes negative; no eligible best path uses a next hop reported unreachable. non-trivial = at least two paths tied or a next-hop report arrived while routes existed".into(),
            components_real: vec!["TableManager::{insert_route,remove_route,unregister_peer,drop_stale_families,update_nexthop_validity}, TableShard::distribute_update, nht_register".into(), "table::Table::{insert,remove,drop,restale,drop_stale,update_nexthop_validity}, NlriChange::ecmp_paths".into(), "the kernel-event arm of the dispatch loop; real sessions".into()],
            components_stubbed: vec!["netlink: kernel::run_service_loop and its own refcount map are not run; requests are observed at the KernelHandle channel (H7 hook)".into(), "TCP, clock, peers".into()],
            assumptions: vec!["VRF tables and VPN import targets are the subject of the second scenario (vrf-fib); an import policy cannot rewrite next hops in this daemon (the policy table refuses it): the `pol` op switches a MED-setting import policy and soft-resets every peer inbound".into()],
            bounds: "<=50 ops, <=3 sources, <=5 prefixes, 3 next hops, IPv4 unicast".into(),
        }
    }
}

async fn run(case: Json, tol: Tolerate) -> Outcome {
    let mut out = Outcome::default();
    let srcs: Vec<Json> = case.get("sources").map(|s| s.arr().to_vec()).unwrap_or_default();
    let n = srcs.len();
    if n == 0 {
        return out;
    }
    let nodes: Vec<NodeCfg> = srcs.iter().enumerate().map(|(i, j)| node_from_json(j, IpAddr::V4(Ipv4Addr::new(10, 0, 1, i as u8 + 1)), i)).collect();
    let mut wcfg = WorldCfg::default();
    wcfg.shards = case.i("shards", 1) as usize;
    wcfg.kernel = true;
    let mut t = Topo::new(&wcfg, nodes, vec![Family::IPV4], 0).await;
    for i in 0..n {
        t.connect(i, &PipeOpts::default(), &PipeOpts::default()).await;
    }
    t.settle().await;
    let mut fib: BTreeMap<String, BTreeSet<IpAddr>> = BTreeMap::new();
    let mut regs: BTreeMap<IpAddr, i64> = BTreeMap::new();
    let mut unreachable: BTreeSet<IpAddr> = BTreeSet::new();
    let mut interesting = false;

    macro_rules! fail {
        ($class:expr, $($arg:tt)*) => {{
            let v = Violation::new(format!("C20/{}", $class), format!($($arg)*));
            if out.violate(&tol, v) { out.vtime_ms = t.now(); out.nontrivial = interesting; return out; }
        }};
    }

    let ops: Vec<Json> = case.get("ops").map(|o| o.arr().to_vec()).unwrap_or_default();
    for (opi, op) in ops.iter().enumerate() {
        let tag = op.at(0).as_str().to_string();
        let mut in_burst = false;
        match tag.as_str() {
            "ann" => {
                let s = op.at(1).as_usize() % n;
                if t.nodes[s].spk.established() {
                    let spec = RSpec::from_json(op.at(4));
                    let role = t.nodes[s].cfg.role;
                    let net = packet::PathNlri { path_id: op.at(3).as_u32(), nlri: v4_prefix(op.at(2).as_u64()) };
                    t.nodes[s].spk.announce(Family::IPV4, vec![net], Some(spec.nexthop()), spec.attrs(role));
                    out.hit("op.announce");
                }
                in_burst = op.at(5).as_bool();
            }
            "wd" => {
                let s = op.at(1).as_usize() % n;
                if t.nodes[s].spk.established() {
                    let net = packet::PathNlri { path_id: op.at(3).as_u32(), nlri: v4_prefix(op.at(2).as_u64()) };
                    t.nodes[s].spk.withdraw(Family::IPV4, vec![net]);
                    out.hit("op.withdraw");
                }
                in_burst = op.at(4).as_bool();
            }
            "nh" => {
                let addr = nh_addr(op.at(1).as_u64());
                let reachable = op.at(2).as_bool();
                let _ = t.w.kernel_event_tx.send(kernel::KernelEvent::NexthopUpdate { addr, reachable });
                if reachable {
                    unreachable.remove(&addr);
                } else {
                    unreachable.insert(addr);
                }
                out.hit(if reachable { "fault.nexthop-reachable-report" } else { "fault.nexthop-unreachable-report" });
                in_burst = op.at(3).as_bool();
            }
            "pol" => {
                // the operator installs an import policy (mode 1, 2: MED 10 / 20 on every route) or removes
                // it (mode 0) and soft-resets every peer inbound: each path is inserted again over itself,
                // which must leave the registrations and the FIB as they are
                let mode = op.at(1).as_u64();
                let pol = if mode == 0 {
                    None
                } else {
                    let mut pt = table::PolicyTable::new();
                    let mut a = table::Actions::default();
                    a.med = Some(table::MedAction { action_type: table::MedActionType::Replace, value: 10 * mode as i64 });
                    pt.add_statement("m", vec![], None, a).unwrap();
                    pt.add_policy("p", vec!["m".into()]).unwrap();
                    Some(pt.add_assignment("global", table::PolicyDirection::Import, table::Disposition::Accept, vec!["p".into()]).unwrap().1)
                };
                t.w.tables.import_policy.store(pol);
                for k in 0..n {
                    let req = api::ResetPeerRequest { address: t.nodes[k].cfg.addr.to_string(), soft: true, direction: api::reset_peer_request::Direction::In as i32, ..Default::default() };
                    let _ = t.w.grpc.reset_peer(tonic::Request::new(req)).await;
                }
                out.hit("op.import-policy-switched+soft-reset-in");
                in_burst = op.at(2).as_bool();
            }
            "local" => {
                // the operator originates / deletes a route for one of the prefixes, with one of the shared
                // next hops or none: it takes part in selection and in the FIB, never in the registrations
                let net = packet::PathNlri { path_id: 0, nlri: v4_prefix(op.at(1).as_u64()) };
                if op.at(3).as_bool() {
                    let k = op.at(2).as_u64();
                    let nh = if k == 0 { Ipv4Addr::UNSPECIFIED } else { Ipv4Addr::new(192, 0, 2, k as u8) };
                    let attrs = vec![packet::Attribute::new_with_value(packet::Attribute::ORIGIN, 0).unwrap(), packet::Attribute::new_with_bin(packet::Attribute::AS_PATH, vec![]).unwrap()];
                    t.w.tables.insert_route(table::Source::local(), Family::IPV4, net, Some(bgp::Nexthop::V4(nh)), Arc::new(attrs), None, 0);
                    out.hit("op.local-route-added");
                } else {
                    t.w.tables.remove_route(table::Source::local(), Family::IPV4, net, None, 0);
                    out.hit("op.local-route-removed");
                }
                in_burst = op.at(4).as_bool();
            }
            "down" => {
                let s = op.at(1).as_usize() % n;
                if t.nodes[s].spk.conn.is_some() {
                    t.nodes[s].spk.close();
                    out.hit("fault.source-fin");
                }
            }
            "up" => {
                let s = op.at(1).as_usize() % n;
                if t.nodes[s].spk.conn.is_none() {
                    t.settle().await;
                    t.connect(s, &PipeOpts::default(), &PipeOpts::default()).await;
                }
            }
            "wait" => {
                t.advance(op.at(1).as_u64()).await;
            }
            _ => {}
        }
        if in_burst && opi + 1 < ops.len() {
            out.hit("probe.op-inside-burst");
            continue;
        }
        t.settle().await;

        // ---- fold the kernel requests issued so far -----------------------------------------------
        if let Some(rx) = t.w.kernel_rx.as_mut() {
            while let Some(r) = rx.try_recv() {
                match r {
                    kernel::verif::VerifRequest::Apply(c) => {
                        if c.table_id.is_none() {
                            let k = format!("{:?}", c.net);
                            let set: BTreeSet<IpAddr> = c.nexthops.iter().map(|n| n.addr()).collect();
                            if set.is_empty() {
                                fib.remove(&k);
                            } else {
                                fib.insert(k, set);
                            }
                        }
                    }
                    kernel::verif::VerifRequest::RegisterNexthop(a) => *regs.entry(a).or_insert(0) += 1,
                    kernel::verif::VerifRequest::UnregisterNexthop(a) => {
                        let e = regs.entry(a).or_insert(0);
                        *e -= 1;
                        if *e < 0 {
                            fail!("nht/registration-count-negative", "op {} {}: {} unregistered more often than registered", opi, op.to_compact(), a);
                            *e = 0;
                        }
                    }
                    _ => {}
                }
            }
        }
        // ---- reference from the RIB -------------------------------------------------------------------
        let loc = t.w.tables.collect_loc_rib_paths(Family::IPV4);
        let mut want: BTreeMap<String, BTreeSet<IpAddr>> = BTreeMap::new();
        for c in &loc {
            let Some(best) = c.current_paths.first() else {
                continue;
            };
            let bk = key_of(best);
            let tied: Vec<&table::Path> = c.current_paths.iter().take_while(|p| key_of(p) == bk).collect();
            if tied.len() > 1 {
                interesting = true;
                out.hit("probe.paths-tied-before-router-id");
            }
            let set: BTreeSet<IpAddr> = tied.iter().filter_map(|p| p.nexthop.map(|n| n.addr())).collect();
            for a in &set {
                if unreachable.contains(a) {
                    fail!("nht/eligible-path-uses-unreachable-nexthop", "op {} {}: {:?} via {}", opi, op.to_compact(), c.net, a);
                }
            }
            if !set.is_empty() {
                want.insert(format!("{:?}", c.net), set);
            }
        }
        if !unreachable.is_empty() && !loc.is_empty() {
            interesting = true;
        }
        if fib != want {
            let k = want.keys().chain(fib.keys()).find(|k| want.get(*k) != fib.get(*k)).cloned().unwrap_or_default();
            let (w_, f_) = (want.get(&k), fib.get(&k));
            let class = match (w_, f_) {
                (Some(_), None) => "fib/route-missing-from-fib",
                (None, Some(_)) => "fib/withdrawn-route-still-in-fib",
                (Some(a), Some(b)) if a.len() > b.len() => "fib/tied-path-missing-from-ecmp-set",
                (Some(a), Some(b)) if a.len() < b.len() => "fib/ecmp-set-has-extra-nexthop",
                _ => "fib/nexthop-set-differs",
            };
            fail!(format!("{}/after-{}", class, tag), "op {} {}: prefix {}: RIB best+ties {:?}, FIB {:?}", opi, op.to_compact(), k, w_, f_);
            fib = want.clone();
        }
        // registrations == peer-learned entries using the next hop
        let mut uses: BTreeMap<IpAddr, i64> = BTreeMap::new();
        for d in t.w.tables.collect_paths(table::TableQuery::Global, Family::IPV4, vec![], true) {
            for p in &d.paths {
                if p.source.is_local() || p.source.is_kernel() {
                    continue;
                }
                // PathEntry carries no next hop: look it up
                let shard_nh = t.w.tables.shards.iter().find_map(|s| s.lock().unwrap().rtable.lookup_nexthop(p.source.remote_addr, Family::IPV4, &d.net, p.remote_path_id));
                if let Some(nh) = shard_nh {
                    *uses.entry(nh.addr()).or_insert(0) += 1;
                }
            }
        }
        let regs_nz: BTreeMap<IpAddr, i64> = regs.iter().filter(|(_, v)| **v != 0).map(|(k, v)| (*k, *v)).collect();
        if regs_nz != uses {
            let a = regs_nz.keys().chain(uses.keys()).find(|a| regs_nz.get(*a) != uses.get(*a)).cloned().unwrap();
            let (r, u) = (regs_nz.get(&a).copied().unwrap_or(0), uses.get(&a).copied().unwrap_or(0));
            fail!(format!("nht/{}/after-{}", if r > u { "registration-leaked" } else { "registration-missing" }, tag), "op {} {}: next hop {}: {} registrations outstanding, {} RIB entries use it", opi, op.to_compact(), a, r, u);
            regs = uses.clone();
        }
    }
    out.nontrivial = interesting;
    out.vtime_ms = t.now();
    out
}
