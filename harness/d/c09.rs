//! C09 — routes are propagated only where BGP allows, with correctly rewritten attributes.
//! Tier D: source x receiver role matrix (with/without confederation), peer-learned and locally
//! originated routes, arbitrary attribute sets; every receiver's mirror is compared at quiescence
//! with a reference export function written from the statement.  Inbound half: looped routes are
//! never installed.

use super::super::*;
use super::c08::fix_task_panic;
use super::speaker::*;
use super::topo::*;
use super::world::*;
use crate::verif_net::PipeOpts;
use std::collections::BTreeMap;
use vcore::{jarr, jobj, Check, CheckInfo, Json, Outcome, Rng, Tolerate, Violation};

pub(crate) struct ExportRules;

const DUT_RID: u32 = 0x0a00_00fe; // 10.0.0.254
const LLGR_STALE: u32 = 0xffff_0006;
const CONFIGURED_CLUSTER_ID: u32 = 0x0707_0707; // 7.7.7.7, when the run configures one
const POLICY_NH: Ipv4Addr = Ipv4Addr::new(192, 0, 2, 77);
const POLICY_MED: u32 = 55;

/// Attribute description (wire-level, as a peer would send it).
#[derive(Clone, Debug, Default)]
struct ASpec {
    segs: Vec<(u8, Vec<u32>)>,
    org: u8,
    lp: i64,
    med: i64,
    com: Vec<u32>,
    oid: u32,
    cl: Vec<u32>,
    aigp: bool,
    unk_t: bool,  // unknown optional transitive (code 200)
    unk_nt: bool, // unknown optional non-transitive (code 201)
    nh: u8,       // 192.0.2.nh; 0 = unspecified (local routes only)
}

impl ASpec {
    fn to_json(&self) -> Json {
        jobj! {
            "segs" => Json::Arr(self.segs.iter().map(|(t, a)| Json::Arr(std::iter::once(Json::from(*t as u64)).chain(a.iter().map(|x| Json::from(*x))).collect())).collect()),
            "org" => self.org as u64, "lp" => self.lp, "med" => self.med, "com" => Json::Arr(self.com.iter().map(|x| Json::from(*x)).collect()),
            "oid" => self.oid, "cl" => Json::Arr(self.cl.iter().map(|x| Json::from(*x)).collect()), "aigp" => self.aigp, "ut" => self.unk_t, "unt" => self.unk_nt, "nh" => self.nh as u64
        }
    }
    fn from_json(j: &Json) -> ASpec {
        ASpec {
            segs: j.get("segs").map(|s| s.arr().iter().map(|x| (x.at(0).as_u8(), x.arr().iter().skip(1).map(|a| a.as_u32()).collect())).collect()).unwrap_or_default(),
            org: j.i("org", 0) as u8,
            lp: j.i("lp", -1),
            med: j.i("med", -1),
            com: j.get("com").map(|a| a.arr().iter().map(|x| x.as_u32()).collect()).unwrap_or_default(),
            oid: j.i("oid", 0) as u32,
            cl: j.get("cl").map(|a| a.arr().iter().map(|x| x.as_u32()).collect()).unwrap_or_default(),
            aigp: j.get("aigp").map(|b| b.as_bool()).unwrap_or(false),
            unk_t: j.get("ut").map(|b| b.as_bool()).unwrap_or(false),
            unk_nt: j.get("unt").map(|b| b.as_bool()).unwrap_or(false),
            nh: j.i("nh", 1) as u8,
        }
    }
    fn as_path_bytes(segs: &[(u8, Vec<u32>)]) -> Vec<u8> {
        let mut b = Vec::new();
        for (t, a) in segs {
            b.push(*t);
            b.push(a.len() as u8);
            for x in a {
                b.extend_from_slice(&x.to_be_bytes());
            }
        }
        b
    }
    fn attrs(&self) -> Vec<packet::Attribute> {
        let mut v = vec![packet::Attribute::new_with_value(packet::Attribute::ORIGIN, self.org as u32).unwrap()];
        v.push(packet::Attribute::new_with_bin(packet::Attribute::AS_PATH, Self::as_path_bytes(&self.segs)).unwrap());
        if self.med >= 0 {
            v.push(packet::Attribute::new_with_value(packet::Attribute::MULTI_EXIT_DESC, self.med as u32).unwrap());
        }
        if self.lp >= 0 {
            v.push(packet::Attribute::new_with_value(packet::Attribute::LOCAL_PREF, self.lp as u32).unwrap());
        }
        if !self.com.is_empty() {
            let mut c = Vec::new();
            for x in &self.com {
                c.extend_from_slice(&x.to_be_bytes());
            }
            v.push(packet::Attribute::new_with_bin(packet::Attribute::COMMUNITY, c).unwrap());
        }
        if self.oid != 0 {
            v.push(packet::Attribute::new_with_value(packet::Attribute::ORIGINATOR_ID, self.oid).unwrap());
        }
        if !self.cl.is_empty() {
            let mut c = Vec::new();
            for x in &self.cl {
                c.extend_from_slice(&x.to_be_bytes());
            }
            v.push(packet::Attribute::new_with_bin(packet::Attribute::CLUSTER_LIST, c).unwrap());
        }
        if self.aigp {
            v.push(packet::Attribute::new_with_bin(packet::Attribute::AIGP, vec![1, 0, 11, 0, 0, 0, 0, 0, 0, 0, 100]).unwrap());
        }
        if self.unk_t {
            v.push(packet::Attribute::new_opaque(200, 0xc0, vec![1, 2, 3]));
        }
        if self.unk_nt {
            v.push(packet::Attribute::new_opaque(201, 0x80, vec![4, 5]));
        }
        v
    }
}

fn gen_aspec(rng: &mut Rng, role: Option<Role>, own_as: u32, confed: bool) -> ASpec {
    let mut segs: Vec<(u8, Vec<u32>)> = Vec::new();
    match role {
        Some(Role::Ebgp) | Some(Role::RsClient) => segs.push((2, vec![own_as])),
        Some(Role::Confed) => segs.push((3, vec![own_as])),
        _ => {}
    }
    for _ in 0..rng.below(3) {
        let t = *rng.pick(&[2u8, 2, 2, 1]);
        let n = if rng.chance(1, 12) { 255 } else { rng.range(1, 3) as usize };
        let seg: Vec<u32> = (0..n).map(|k| *rng.pick(&[64600u32, 64601, 4_200_000_123]) + (k as u32 % 2)).collect();
        // merge into a leading sequence when types agree (what a real speaker sends)
        if let Some(last) = segs.last_mut() {
            if last.0 == t && t == 2 && last.1.len() + seg.len() <= 255 {
                last.1.extend(seg);
                continue;
            }
        }
        segs.push((t, seg));
    }
    if confed && matches!(role, Some(Role::Ibgp) | Some(Role::RrClient)) && rng.chance(1, 4) {
        segs.insert(0, (3, vec![65100]));
    }
    // loops, on purpose, now and then
    let mut oid = 0;
    let mut cl = vec![];
    let internal = matches!(role, Some(Role::Ibgp) | Some(Role::RrClient));
    if internal && rng.chance(1, 4) {
        oid = *rng.pick(&[0x0101_0101u32, 0x0202_0202, DUT_RID]);
    }
    if internal && rng.chance(1, 4) {
        cl = vec![*rng.pick(&[0x0909_0909u32, DUT_RID])];
        if rng.coin() {
            cl.push(0x0808_0808);
        }
    }
    if internal && rng.chance(1, 8) {
        cl.push(CONFIGURED_CLUSTER_ID);
    }
    if rng.chance(1, 10) {
        let loop_as = if confed && rng.coin() { CONFED_ID } else { DUT_AS };
        segs.push((2, vec![loop_as]));
    }
    ASpec {
        segs,
        org: rng.below(3) as u8,
        lp: if internal || role == Some(Role::Confed) || role.is_none() { *rng.pick(&[-1i64, 50, 200]) } else if rng.chance(1, 5) { 300 } else { -1 },
        med: *rng.pick(&[-1i64, -1, 0, 10]),
        com: if rng.chance(1, 4) { vec![*rng.pick(&[0xfde8_0001u32, 0xfde8_0002])] } else { vec![] },
        oid,
        cl,
        aigp: rng.chance(1, 8),
        unk_t: rng.chance(1, 6),
        unk_nt: rng.chance(1, 6),
        nh: if role.is_none() { rng.below(3) as u8 } else { rng.range(1, 2) as u8 },
    }
}

impl Check for ExportRules {
    fn property(&self) -> &'static str {
        "C09"
    }
    fn tier(&self) -> &'static str {
        "D"
    }
    fn name(&self) -> &'static str {
        "reference-export"
    }

    fn generate(&self, seed: u64, thorough: bool) -> Json {
        let mut rng = Rng::new(seed);
        let confed = rng.chance(1, 3);
        let roles: &[u64] = if confed { &[0, 1, 2, 3, 4, 4] } else { &[0, 1, 2, 3] };
        let n_nodes = rng.range(2, 4) as usize;
        let nodes: Vec<Json> = (0..n_nodes).map(|_| jobj! {"role" => *rng.pick(roles), "send_max" => *rng.pick(&[1u64, 1, 1, 2, 3]), "addpath_rx" => false, "ext_msg" => true, "gr" => if rng.chance(1, 4) { jarr![5u64, false] } else { Json::Null }, "llgr" => if rng.chance(1, 4) { Json::from(30u64) } else { Json::Null }}).collect();
        let node_roles: Vec<Role> = nodes.iter().map(|n| Role::from_u(n.i("role", 0) as u64)).collect();
        let n_pfx = rng.range(2, 5);
        let n = rng.range(3, if thorough { 40 } else { 24 });
        let mut ops = Vec::new();
        for _ in 0..n {
            let s = rng.usize_below(n_nodes);
            match rng.weighted(&[36, 10, 10, 4, 4, 3, 3]) {
                6 => ops.push(jarr!["wlocal", rng.below(n_pfx), rng.below(13)]),
                0 => {
                    let spec = gen_aspec(&mut rng, Some(node_roles[s]), asn_for(node_roles[s], s), confed);
                    ops.push(jarr!["ann", s, rng.below(n_pfx), spec.to_json()]);
                }
                1 => ops.push(jarr!["wd", s, rng.below(n_pfx)]),
                2 => {
                    let spec = gen_aspec(&mut rng, None, 0, confed);
                    ops.push(jarr!["local", rng.below(n_pfx), spec.to_json()]);
                }
                3 => {
                    if rng.coin() {
                        ops.push(jarr!["unlocal", rng.below(n_pfx)]);
                    } else if rng.coin() {
                        // a route redistributed from the kernel: originated here just like a local one
                        let spec = gen_aspec(&mut rng, None, 0, confed);
                        ops.push(jarr!["kernel", rng.below(n_pfx), spec.to_json()]);
                    } else {
                        ops.push(jarr!["unkernel", rng.below(n_pfx)]);
                    }
                }
                4 => ops.push(jarr!["down", s]),
                _ => ops.push(jarr!["wait", *rng.pick(&[100u64, 6000, 40000])]),
            }
        }
        // the route-reflector cluster id: the router id (default) or one configured on every internal neighbour
        let cid = rng.chance(1, 3);
        // a global export policy whose single statement matches every route and sets MED and / or the
        // next hop (1 an address, 2 self, 3 unchanged, 4 the neighbour's address)
        let xact = if rng.chance(1, 3) {
            let nh = rng.below(5);
            let med = if nh == 0 || rng.coin() { 55i64 } else { -1 };
            jobj! {"med" => med, "nh" => nh}
        } else {
            Json::Null
        };
        jobj! {"confed" => confed, "cid" => cid, "xact" => xact, "nodes" => Json::Arr(nodes), "sub" => rng.next_u64() >> 1, "ops" => Json::Arr(ops)}
    }

    fn execute(&self, case: &Json, tol: &Tolerate) -> Outcome {
        let case = case.clone();
        let tol = tol.clone();
        let mut out = run_sim(case.i("sub", 1) as u64, move || run(case, tol));
        fix_task_panic(&mut out, "C09");
        out
    }

    fn info(&self) -> CheckInfo {
        CheckInfo {
            rule: "2-4 neighbours drawn from eBGP / iBGP non-client / RR client / RS client / confed-eBGP (confederation on in a third of the runs), each both source and receiver, a third of them add-path receivers (send-max 2-3: the first N paths allowed towards the receiver are expected, by path id); the route-reflector cluster id left at the router id or configured on every neighbour; in a third of the runs a global export policy (configured through the gRPC handlers) whose statement sets MED and / or the next hop (address, self, unchanged, neighbour's address); peer-learned and locally originated routes (some through AddPath with an AS_PATH only an API client can build - a segment of 256 / 257 / 300 numbers, an empty segment, a segment type that does not exist; an ORIGIN value that does not exist; ORIGIN, MED, AS_PATH or AGGREGATOR handed over as \"unknown\" octets of the wrong size - which must be refused or exported without bringing a task down; those prefixes are not judged otherwise) over 2-5 prefixes with attribute sets drawn per attribute (AS_PATH with SEQ/SET/confed segments and full 255-AS segments, MED, LOCAL_PREF, communities, ORIGINATOR_ID, CLUSTER_LIST, AIGP, unknown transitive / non-transitive attributes, next hops), deliberate AS / ORIGINATOR_ID / CLUSTER_LIST loops; sources with GR+LLGR go down so that LLGR-stale routes exist. At quiescence after every op each receiver's mirror is compared with reference_export(real Loc-RIB ranking, receiver) per the statement, and the RIB must not hold a looped route. non-trivial = some receiver's expected view was non-empty; distinct = hash of seam events".into(),
            components_real: vec!["export::{process_nlri_change, export_attrs, pre_policy_defaults, export_nexthop, rr_reflect_attrs, with_llgr_stale_community, ibgp_split_horizon_suppress, rs_isolation_suppress, is_as_loop}".into(), "PeerSession::{rx_update,run_select,handle_prefix_update,flush_tx}".into(), "packet::Attribute::{as_path_prepend, as_path_prepend_confed, as_path_strip_confed}, PeerCodec both ways".into(), "TableManager, table::Table".into()],
            components_stubbed: vec!["TCP, clock, listener loop, remote speakers".into()],
            assumptions: vec!["the real RIB's ranking is taken as given (C02 checks it)".into(), "RS-client receivers: only the set of prefixes is judged; confed-eBGP receivers: next hop not judged; MED of locally originated routes towards eBGP not judged (statement silent); with an export policy: the MED it sets is expected towards every role, its next-hop action decides the next hop ('unchanged' = the stored next hop when there is a specified one)".into()],
            bounds: "<=40 ops, <=4 neighbours, <=5 prefixes, IPv4 unicast, one export-policy statement without conditions (C14 covers evaluation, C01 policy changes)".into(),
        }
    }
}

fn attr_bin(attrs: &[packet::Attribute], code: u8) -> Option<Vec<u8>> {
    attrs.iter().find(|a| a.code() == code).and_then(|a| a.binary().cloned())
}
fn attr_val(attrs: &[packet::Attribute], code: u8) -> Option<u32> {
    attrs.iter().find(|a| a.code() == code).and_then(|a| a.value())
}

fn parse_segs(b: &[u8]) -> Vec<(u8, Vec<u32>)> {
    let mut v = Vec::new();
    let mut i = 0;
    while i + 2 <= b.len() {
        let (t, n) = (b[i], b[i + 1] as usize);
        let mut a = Vec::new();
        for k in 0..n {
            let o = i + 2 + 4 * k;
            if o + 4 <= b.len() {
                a.push(u32::from_be_bytes([b[o], b[o + 1], b[o + 2], b[o + 3]]));
            }
        }
        v.push((t, a));
        i += 2 + 4 * n;
    }
    v
}

/// Reference AS_PATH rewrite.
fn ref_as_path(src: &[(u8, Vec<u32>)], recv: Role, confed: bool) -> Vec<(u8, Vec<u32>)> {
    match recv {
        Role::Ebgp => {
            let mut segs: Vec<(u8, Vec<u32>)> = src.iter().filter(|(t, _)| *t != 3 && *t != 4).cloned().collect();
            let asn = if confed { CONFED_ID } else { DUT_AS };
            if segs.first().map(|(t, a)| *t == 2 && a.len() < 255).unwrap_or(false) {
                segs[0].1.insert(0, asn);
            } else {
                segs.insert(0, (2, vec![asn]));
            }
            segs
        }
        Role::Confed => {
            let mut segs = src.to_vec();
            if segs.first().map(|(t, a)| *t == 3 && a.len() < 255).unwrap_or(false) {
                segs[0].1.insert(0, DUT_AS);
            } else {
                segs.insert(0, (3, vec![DUT_AS]));
            }
            segs
        }
        _ => src.to_vec(),
    }
}

async fn run(case: Json, tol: Tolerate) -> Outcome {
    let mut out = Outcome::default();
    let confed = case.get("confed").map(|b| b.as_bool()).unwrap_or(false);
    let njs: Vec<Json> = case.get("nodes").map(|s| s.arr().to_vec()).unwrap_or_default();
    let n = njs.len();
    if n == 0 {
        return out;
    }
    let nodes: Vec<NodeCfg> = njs.iter().enumerate().map(|(i, j)| super::c01::node_from_json(j, IpAddr::V4(Ipv4Addr::new(10, 0, 1, i as u8 + 1)), i)).collect();
    let mut wcfg = WorldCfg::default();
    if confed {
        wcfg.confed = Some((CONFED_ID, vec![DUT_AS, CONFED_PEER_AS]));
    }
    let cluster_id: u32 = if case.get("cid").map(|b| b.as_bool()).unwrap_or(false) { CONFIGURED_CLUSTER_ID } else { DUT_RID };
    if cluster_id != DUT_RID {
        wcfg.cluster_id = Some(Ipv4Addr::from(cluster_id));
    }
    let mut t = Topo::new(&wcfg, nodes, vec![Family::IPV4], 0).await;
    let xact = case.get("xact").filter(|x| matches!(x, Json::Obj(_))).cloned();
    let pol_med: Option<u32> = xact.as_ref().and_then(|x| if x.i("med", -1) >= 0 { Some(x.i("med", -1) as u32) } else { None });
    let pol_nh: u64 = xact.as_ref().map(|x| x.i("nh", 0) as u64).unwrap_or(0);
    if xact.is_some() {
        let g = &t.w.grpc;
        let actions = api::Actions {
            med: pol_med.map(|m| api::MedAction { r#type: api::med_action::Type::Replace as i32, value: m as i64 }),
            nexthop: match pol_nh {
                1 => Some(api::NexthopAction { address: POLICY_NH.to_string(), ..Default::default() }),
                2 => Some(api::NexthopAction { self_: true, ..Default::default() }),
                3 => Some(api::NexthopAction { unchanged: true, ..Default::default() }),
                4 => Some(api::NexthopAction { peer_address: true, ..Default::default() }),
                _ => None,
            },
            ..Default::default()
        };
        g.add_statement(tonic::Request::new(api::AddStatementRequest { statement: Some(api::Statement { name: "set".into(), conditions: Some(api::Conditions { rpki_result: api::ValidationState::None as i32, ..Default::default() }), actions: Some(actions) }) })).await.expect("add_statement");
        g.add_policy(tonic::Request::new(api::AddPolicyRequest { policy: Some(api::Policy { name: "p".into(), statements: vec![api::Statement { name: "set".into(), ..Default::default() }] }), refer_existing_statements: true })).await.expect("add_policy");
        g.add_policy_assignment(tonic::Request::new(api::AddPolicyAssignmentRequest {
            assignment: Some(api::PolicyAssignment { name: "global".into(), direction: api::PolicyDirection::Export as i32, policies: vec![api::Policy { name: "p".into(), statements: vec![] }], default_action: api::RouteAction::Accept as i32 }),
        }))
        .await
        .expect("add_policy_assignment");
    }
    for i in 0..n {
        t.connect(i, &PipeOpts::default(), &PipeOpts::default()).await;
    }
    t.settle().await;
    // what each source currently announces (wire-level), and what is locally originated
    let mut announced: BTreeMap<(usize, u64), ASpec> = BTreeMap::new();
    let mut local: BTreeMap<u64, ASpec> = BTreeMap::new();
    // prefixes whose local path carries an AS_PATH only an API client can build: not judged
    let mut weird_local: std::collections::BTreeSet<u64> = Default::default();
    let mut nonempty_expected = false;

    macro_rules! fail {
        ($class:expr, $($arg:tt)*) => {{
            let v = Violation::new(format!("C09/{}", $class), format!($($arg)*));
            if out.violate(&tol, v) { out.vtime_ms = t.now(); out.nontrivial = nonempty_expected; return out; }
        }};
    }

    let ops: Vec<Json> = case.get("ops").map(|o| o.arr().to_vec()).unwrap_or_default();
    for (opi, op) in ops.iter().enumerate() {
        let tag = op.at(0).as_str().to_string();
        match tag.as_str() {
            "ann" => {
                let s = op.at(1).as_usize() % n;
                if t.nodes[s].spk.established() {
                    let spec = ASpec::from_json(op.at(3));
                    let net = packet::PathNlri { path_id: 0, nlri: v4_prefix(op.at(2).as_u64()) };
                    t.nodes[s].spk.announce(Family::IPV4, vec![net], Some(bgp::Nexthop::V4(Ipv4Addr::new(192, 0, 2, spec.nh.max(1)))), spec.attrs());
                    announced.insert((s, op.at(2).as_u64()), spec);
                    out.hit("op.announce");
                }
            }
            "wd" => {
                let s = op.at(1).as_usize() % n;
                if t.nodes[s].spk.established() {
                    let net = packet::PathNlri { path_id: 0, nlri: v4_prefix(op.at(2).as_u64()) };
                    t.nodes[s].spk.withdraw(Family::IPV4, vec![net]);
                    announced.remove(&(s, op.at(2).as_u64()));
                }
            }
            "local" => {
                let spec = ASpec::from_json(op.at(2));
                let mut attrs = spec.attrs();
                attrs.retain(|a| !matches!(a.code(), packet::Attribute::ORIGINATOR_ID | packet::Attribute::CLUSTER_LIST));
                let nh = if spec.nh == 0 { Ipv4Addr::UNSPECIFIED } else { Ipv4Addr::new(192, 0, 2, spec.nh) };
                t.w.tables.insert_route(table::Source::local(), Family::IPV4, packet::PathNlri { path_id: 0, nlri: v4_prefix(op.at(1).as_u64()) }, Some(bgp::Nexthop::V4(nh)), Arc::new(attrs), None, 0);
                local.insert(op.at(1).as_u64(), spec);
                weird_local.remove(&op.at(1).as_u64());
                out.hit("op.local-route");
            }
            "wlocal" => {
                // A route originated through AddPath whose AS_PATH only an API client can build: a
                // segment of 256 or 257 numbers (the count octet wraps), an empty segment, a segment
                // type that does not exist. Whatever the daemon makes of it - refuse it, or take it and
                // export it - must not bring a task down; what the receivers are sent is not judged.
                let shape = op.at(2).as_u64();
                let segs: Vec<api::AsSegment> = match shape.min(5) {
                    0 => vec![api::AsSegment { r#type: 2, numbers: (0..256u32).map(|k| 64600 + k % 3).collect() }],
                    1 => vec![api::AsSegment { r#type: 2, numbers: (0..257u32).map(|k| 64600 + k % 3).collect() }],
                    2 => vec![api::AsSegment { r#type: 2, numbers: vec![] }, api::AsSegment { r#type: 2, numbers: vec![64601] }],
                    3 => vec![api::AsSegment { r#type: 9, numbers: vec![64601, 64602] }],
                    4 => vec![api::AsSegment { r#type: 3, numbers: (0..300u32).map(|k| 65100 + k % 2).collect() }, api::AsSegment { r#type: 2, numbers: vec![64601] }],
                    _ => vec![api::AsSegment { r#type: 0, numbers: vec![1] }, api::AsSegment { r#type: 1, numbers: (0..255u32).collect() }],
                };
                let unknown = |code: u32, value: Vec<u8>| api::Attribute { attr: Some(api::attribute::Attr::Unknown(api::UnknownAttribute { flags: 0x40, r#type: code, value })) };
                let mut pattrs = vec![
                    // an ORIGIN value that does not exist
                    api::Attribute { attr: Some(api::attribute::Attr::Origin(api::OriginAttribute { origin: if shape == 6 { 7 } else { 0 } })) },
                    api::Attribute { attr: Some(api::attribute::Attr::AsPath(api::AsPathAttribute { segments: if shape <= 5 { segs } else { vec![] } })) },
                    api::Attribute { attr: Some(api::attribute::Attr::NextHop(api::NextHopAttribute { next_hop: "192.0.2.9".into() })) },
                ];
                match shape {
                    // attributes the daemon knows, handed over as "unknown" octets of the wrong size
                    7 => pattrs[0] = unknown(1, vec![0, 0, 0]),
                    8 => pattrs.push(unknown(4, vec![1, 2])),
                    9 => pattrs[1] = unknown(2, vec![2, 5, 0, 0]),
                    10 => pattrs.push(unknown(7, vec![0xfd])),
                    // an IPv4 route with an IPv6 next hop (no neighbour here negotiated RFC 8950)
                    11 => pattrs[2] = api::Attribute { attr: Some(api::attribute::Attr::MpReach(api::MpReachNlriAttribute { family: Some(crate::convert::family_to_api(Family::IPV4)), next_hops: vec!["2001:db8::9".into()], nlris: vec![] })) },
                    12 => pattrs[2] = api::Attribute { attr: Some(api::attribute::Attr::NextHop(api::NextHopAttribute { next_hop: "2001:db8::9".into() })) },
                    _ => {}
                }
                let path = api::Path { nlri: Some(crate::convert::nlri_to_api(&v4_prefix(op.at(1).as_u64()))), family: Some(crate::convert::family_to_api(Family::IPV4)), pattrs, ..Default::default() };
                match t.w.grpc.add_path(tonic::Request::new(api::AddPathRequest { table_type: api::TableType::Global as i32, vrf_id: String::new(), path: Some(path) })).await {
                    Ok(_) => {
                        out.hit("op.api-route-with-an-as-path-the-wire-cannot-carry.accepted");
                        weird_local.insert(op.at(1).as_u64());
                        local.remove(&op.at(1).as_u64());
                    }
                    Err(_) => out.hit("op.api-route-with-an-as-path-the-wire-cannot-carry.refused"),
                }
            }
            "kernel" => {
                let spec = ASpec::from_json(op.at(2));
                let mut attrs = spec.attrs();
                attrs.retain(|a| !matches!(a.code(), packet::Attribute::ORIGINATOR_ID | packet::Attribute::CLUSTER_LIST));
                let nh = Ipv4Addr::new(192, 0, 2, spec.nh.max(1));
                t.w.tables.insert_route(table::Source::kernel(), Family::IPV4, packet::PathNlri { path_id: 0, nlri: v4_prefix(op.at(1).as_u64()) }, Some(bgp::Nexthop::V4(nh)), Arc::new(attrs), None, 0);
                out.hit("op.kernel-route");
            }
            "unkernel" => {
                t.w.tables.remove_route(table::Source::kernel(), Family::IPV4, packet::PathNlri { path_id: 0, nlri: v4_prefix(op.at(1).as_u64()) }, None, 0);
            }
            "unlocal" => {
                t.w.tables.remove_route(table::Source::local(), Family::IPV4, packet::PathNlri { path_id: 0, nlri: v4_prefix(op.at(1).as_u64()) }, None, 0);
                local.remove(&op.at(1).as_u64());
                weird_local.remove(&op.at(1).as_u64());
            }
            "down" => {
                let s = op.at(1).as_usize() % n;
                if t.nodes[s].spk.conn.is_some() {
                    t.nodes[s].spk.close();
                    out.hit("fault.session-fin");
                }
            }
            "wait" => {
                t.advance(op.at(1).as_u64()).await;
            }
            _ => {}
        }
        t.settle().await;

        // ---- inbound half: nothing looped is installed ---------------------------------------------
        for d in t.w.tables.collect_paths(table::TableQuery::Global, Family::IPV4, vec![], true) {
            for p in &d.paths {
                if p.source.is_local() || p.source.is_kernel() {
                    continue;
                }
                let segs = attr_bin(&p.attr, packet::Attribute::AS_PATH).map(|b| parse_segs(&b)).unwrap_or_default();
                let has = |asn: u32| segs.iter().any(|(_, a)| a.contains(&asn));
                // "the local AS" is the one this session presents: the confederation id towards
                // non-members (member-AS numbers are not visible outside), the member AS inside
                let external = matches!(p.source.role, table::PeerRole::Ebgp | table::PeerRole::RsClient);
                let loops = if confed && external { has(CONFED_ID) } else { has(DUT_AS) || (confed && has(CONFED_ID)) };
                if loops {
                    fail!("inbound/as-path-loop-installed", "op {}: {:?} from {} has AS_PATH {:?}", opi, d.net, p.source.remote_addr, segs);
                }
                if attr_val(&p.attr, packet::Attribute::ORIGINATOR_ID) == Some(DUT_RID) {
                    fail!("inbound/originator-id-loop-installed", "op {}: {:?} from {}", opi, d.net, p.source.remote_addr);
                }
                let internal = matches!(p.source.role, table::PeerRole::Ibgp | table::PeerRole::IbgpRrClient);
                if internal && attr_bin(&p.attr, packet::Attribute::CLUSTER_LIST).is_some_and(|b| b.chunks(4).any(|c| c == cluster_id.to_be_bytes())) {
                    fail!("inbound/cluster-list-loop-installed", "op {}: {:?} from {}", opi, d.net, p.source.remote_addr);
                }
            }
        }

        // ---- outbound half ----------------------------------------------------------------------------
        let loc = t.w.tables.collect_loc_rib_paths(Family::IPV4);
        for r in 0..n {
            if !t.nodes[r].spk.established() {
                continue;
            }
            let recv = t.nodes[r].cfg.role;
            let raddr = t.nodes[r].cfg.addr;
            let mirror = t.mirror_canon(r);
            let send_max = t.nodes[r].cfg.send_max.max(1);
            let allowed = |p: &table::Path| -> bool {
                let src = &p.source;
                let originated = src.is_local() || src.is_kernel();
                if src.remote_addr == raddr && !originated {
                    return false; // never back to the peer it was learned from
                }
                let src_ibgp = !originated && matches!(src.role, table::PeerRole::Ibgp | table::PeerRole::IbgpRrClient);
                if src_ibgp && src.role == table::PeerRole::Ibgp && recv == Role::Ibgp {
                    return false; // non-client to non-client
                }
                let src_rs = src.role == table::PeerRole::RsClient && !originated;
                src_rs == (recv == Role::RsClient) // route-server boundary
            };
            // (prefix, path id on the wire) -> the RIB path it stands for
            let mut expected: BTreeMap<(String, u32), &table::Path> = BTreeMap::new();
            for c in &loc {
                if send_max == 1 {
                    // a plain session is told the best path, or nothing when the best may not go there
                    if let Some(best) = c.current_paths.first() {
                        if allowed(best) {
                            expected.insert((format!("{:?}", c.net), 0), best);
                        }
                    }
                } else {
                    for p in c.current_paths.iter().filter(|p| allowed(p)).take(send_max) {
                        expected.insert((format!("{:?}", c.net), p.local_path_id), p);
                        out.hit("probe.add-path-route-expected");
                    }
                }
            }
            let weird_keys: std::collections::BTreeSet<String> = weird_local.iter().map(|i| format!("{:?}", v4_prefix(*i))).collect();
            let got_keys: Vec<(String, u32)> = mirror.keys().map(|k| (k.1.clone(), k.2)).collect();
            for k in expected.keys() {
                if weird_keys.contains(&k.0) {
                    continue;
                }
                if !got_keys.contains(k) {
                    nonempty_expected = true;
                    fail!(format!("propagation/route-not-sent/{}-receiver", recv.name()), "op {} {}: receiver {} ({}, send-max {}) lacks {:?} (path from {} role {:?})", opi, op.to_compact(), r, recv.name(), send_max, k, expected[k].source.remote_addr, expected[k].source.role);
                }
            }
            for (mk, (attrs, nh)) in &mirror {
                if weird_keys.contains(&mk.1) {
                    continue;
                }
                let Some(best) = expected.get(&(mk.1.clone(), mk.2)) else {
                    let why = loc.iter().find(|c| format!("{:?}", c.net) == mk.1).map(|c| c.current_paths.iter().map(|b| (b.source.remote_addr, b.source.role, b.local_path_id)).collect::<Vec<_>>());
                    fail!(format!("propagation/route-sent-where-not-allowed/{}-receiver", recv.name()), "op {} {}: receiver {} ({}, send-max {}) holds {} path id {} (RIB paths {:?})", opi, op.to_compact(), r, recv.name(), send_max, mk.1, mk.2, why);
                    continue;
                };
                nonempty_expected = true;
                out.hit("probe.route-compared");
                if recv == Role::RsClient {
                    continue;
                }
                let src = &best.source;
                let src_attrs: &[packet::Attribute] = &best.attr;
                let originated = src.is_local() || src.is_kernel();
                let src_ibgp = !originated && matches!(src.role, table::PeerRole::Ibgp | table::PeerRole::IbgpRrClient);
                let internal_recv = matches!(recv, Role::Ibgp | Role::RrClient);
                // AS_PATH
                let want_path = ref_as_path(&attr_bin(src_attrs, packet::Attribute::AS_PATH).map(|b| parse_segs(&b)).unwrap_or_default(), recv, confed);
                let got_path = attr_bin(attrs, packet::Attribute::AS_PATH).map(|b| parse_segs(&b)).unwrap_or_default();
                if want_path != got_path {
                    fail!(format!("rewrite/as-path/{}-receiver", recv.name()), "op {}: {} to receiver {}: expected {:?} got {:?}", opi, mk.1, r, want_path, got_path);
                }
                // the next hop the statement (and, when one is configured, the export policy) asks for
                let self_nh = bgp::Nexthop::V4(Ipv4Addr::new(10, 0, 0, 254));
                let stored_explicit = best.nexthop.filter(|n| !n.addr().is_unspecified());
                let default_nh = match recv {
                    // to eBGP the next hop is self (a route the operator originated with an explicit next hop keeps it)
                    Role::Ebgp => {
                        if src.is_local() {
                            stored_explicit.unwrap_or(self_nh)
                        } else {
                            self_nh
                        }
                    }
                    // to iBGP it is untouched; self when there is none to keep
                    _ => {
                        if originated {
                            if src.is_local() { stored_explicit.unwrap_or(self_nh) } else { best.nexthop.unwrap_or(self_nh) }
                        } else {
                            best.nexthop.unwrap_or(self_nh)
                        }
                    }
                };
                let want_nh = match pol_nh {
                    1 => bgp::Nexthop::V4(POLICY_NH),
                    2 => self_nh,
                    3 => stored_explicit.unwrap_or(default_nh),
                    4 => match raddr {
                        IpAddr::V4(a) => bgp::Nexthop::V4(a),
                        IpAddr::V6(a) => bgp::Nexthop::V6(a),
                    },
                    _ => default_nh,
                };
                if nh.is_some_and(|n| n.addr().is_unspecified()) {
                    fail!(format!("rewrite/unspecified-next-hop-sent/{}-receiver", recv.name()), "op {}: {} to receiver {}: next hop {:?} (stored {:?}, policy next-hop action {})", opi, mk.1, r, nh, best.nexthop, pol_nh);
                } else if recv != Role::Confed && *nh != Some(want_nh) {
                    if pol_nh != 0 {
                        fail!(format!("rewrite/export-policy-next-hop-not-applied/{}-receiver", recv.name()), "op {}: {} to receiver {}: action {} expected {:?} got {:?} (stored {:?})", opi, mk.1, r, pol_nh, want_nh, nh, best.nexthop);
                    } else if recv == Role::Ebgp {
                        fail!("rewrite/next-hop-not-self-to-ebgp", "op {}: {} to receiver {}: next hop {:?} expected {:?}", opi, mk.1, r, nh, want_nh);
                    } else if !originated {
                        fail!("rewrite/next-hop-touched-to-ibgp", "op {}: {} to receiver {}: stored {:?} sent {:?}", opi, mk.1, r, best.nexthop, nh);
                    } else {
                        fail!("rewrite/originated-route-next-hop-to-ibgp", "op {}: {} to receiver {}: stored {:?} sent {:?} expected {:?}", opi, mk.1, r, best.nexthop, nh, want_nh);
                    }
                }
                if pol_nh != 0 {
                    out.hit("probe.export-policy-next-hop-compared");
                }
                // MED: one set by the export policy is what the neighbour gets, whatever its role
                if let Some(m) = pol_med {
                    if attr_val(attrs, packet::Attribute::MULTI_EXIT_DESC) != Some(m) {
                        fail!(format!("rewrite/export-policy-med-not-applied/{}-receiver", recv.name()), "op {}: {} to receiver {}: expected MED {} got {:?}", opi, mk.1, r, m, attr_val(attrs, packet::Attribute::MULTI_EXIT_DESC));
                    }
                    out.hit("probe.export-policy-med-compared");
                }
                // iBGP-only attributes and MED towards eBGP
                if recv == Role::Ebgp {
                    for (code, name) in [(packet::Attribute::LOCAL_PREF, "local-pref"), (packet::Attribute::ORIGINATOR_ID, "originator-id"), (packet::Attribute::CLUSTER_LIST, "cluster-list"), (packet::Attribute::AIGP, "aigp")] {
                        if attrs.iter().any(|a| a.code() == code) {
                            fail!(format!("rewrite/{}-sent-to-ebgp", name), "op {}: {} to receiver {}", opi, mk.1, r);
                        }
                    }
                    if pol_med.is_none() && !originated && attrs.iter().any(|a| a.code() == packet::Attribute::MULTI_EXIT_DESC) {
                        fail!("rewrite/received-med-sent-to-ebgp", "op {}: {} to receiver {}", opi, mk.1, r);
                    }
                }
                if internal_recv {
                    let want_lp = attr_val(src_attrs, packet::Attribute::LOCAL_PREF).unwrap_or(100);
                    if attr_val(attrs, packet::Attribute::LOCAL_PREF) != Some(want_lp) {
                        fail!("rewrite/local-pref-missing-or-changed-to-ibgp", "op {}: {} to receiver {}: expected {} got {:?}", opi, mk.1, r, want_lp, attr_val(attrs, packet::Attribute::LOCAL_PREF));
                    }
                    if src_ibgp {
                        // reflection
                        let want_oid = attr_val(src_attrs, packet::Attribute::ORIGINATOR_ID).unwrap_or(src.router_id);
                        if attr_val(attrs, packet::Attribute::ORIGINATOR_ID) != Some(want_oid) {
                            fail!("rewrite/reflected-route-without-originator-id", "op {}: {} to receiver {}: expected {:#x} got {:?}", opi, mk.1, r, want_oid, attr_val(attrs, packet::Attribute::ORIGINATOR_ID));
                        }
                        let mut want_cl = cluster_id.to_be_bytes().to_vec();
                        want_cl.extend(attr_bin(src_attrs, packet::Attribute::CLUSTER_LIST).unwrap_or_default());
                        if attr_bin(attrs, packet::Attribute::CLUSTER_LIST) != Some(want_cl.clone()) {
                            fail!("rewrite/reflected-route-without-cluster-id", "op {}: {} to receiver {}: expected {:?} got {:?}", opi, mk.1, r, want_cl, attr_bin(attrs, packet::Attribute::CLUSTER_LIST));
                        }
                        out.hit("probe.reflected-route-compared");
                    }
                }
                // LLGR_STALE on LLGR-stale routes
                let llgr = src.is_llgr_stale();
                let has_ls = attr_bin(attrs, packet::Attribute::COMMUNITY).is_some_and(|b| b.chunks(4).any(|c| c == LLGR_STALE.to_be_bytes()));
                if llgr && !has_ls {
                    fail!(format!("rewrite/llgr-stale-route-without-llgr-stale-community/{}-receiver", recv.name()), "op {} {}: {} to receiver {}", opi, op.to_compact(), mk.1, r);
                } else if llgr {
                    out.hit("probe.llgr-stale-route-exported-with-community");
                }
                // unknown attributes
                let src_ut = src_attrs.iter().find(|a| a.code() == 200);
                let got_ut = attrs.iter().find(|a| a.code() == 200);
                match (src_ut, got_ut) {
                    (Some(_), Some(g)) => {
                        if g.flags() & packet::Attribute::FLAG_PARTIAL == 0 {
                            fail!("rewrite/unknown-transitive-forwarded-without-partial", "op {}: {} to receiver {}", opi, mk.1, r);
                        }
                    }
                    (Some(_), None) => fail!("rewrite/unknown-transitive-dropped", "op {}: {} to receiver {}", opi, mk.1, r),
                    _ => {}
                }
                if attrs.iter().any(|a| a.code() == 201) {
                    fail!("rewrite/unknown-non-transitive-forwarded", "op {}: {} to receiver {}", opi, mk.1, r);
                }
            }
        }
        if t.collect_speaker_errors(&mut out, "C09", &tol) {
            out.vtime_ms = t.now();
            return out;
        }
    }
    out.nontrivial = nonempty_expected;
    out.vtime_ms = t.now();
    out
}
