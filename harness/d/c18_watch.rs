//! C18 (tier D) — gRPC watch streams against the whole daemon.
//!
//! The third kind of subscriber the statement names: `WatchEvent` clients. Each client opens the
//! real handler (`GrpcService::watch_event`) with a drawn request (peer events or not; pre-policy
//! or post-policy Adj-RIB-In; with or without the initial snapshot; optionally restricted to one
//! neighbour) at an arbitrary point of a history of real sessions, also in the middle of bursts
//! that have not settled, reads its stream lazily (a client may fall behind) and folds what it is
//! sent the way the API tells it to: a table event inserts or (is_withdraw) removes the entry
//! (neighbour, family, NLRI, path identifier); a peer event in state Idle discards the
//! neighbour's entries. At every quiescent point a client that has read everything is compared
//! with the RIB.

use super::super::*;
use super::c01::{gen_rspec, node_from_json, node_json, RSpec};
use super::c08::fix_task_panic;
use super::speaker::*;
use super::topo::*;
use super::world::*;
use crate::verif_net::PipeOpts;
use futures::{FutureExt, StreamExt};
use std::collections::{BTreeMap, BTreeSet};
use vcore::{jarr, jobj, Check, CheckInfo, Json, Outcome, Rng, Tolerate, Violation};

pub(crate) struct WatchStreams;

const FAMS: [Family; 2] = [Family::IPV4, Family::IPV6];

fn prefix(fam: usize, idx: u64) -> packet::Nlri {
    if fam == 0 {
        v4_prefix(idx)
    } else {
        v6_prefix(idx)
    }
}

type WKey = (IpAddr, u32, String, u32); // neighbour, family, NLRI (API form), path identifier
type WStream = std::pin::Pin<Box<dyn futures::Stream<Item = Result<api::WatchEventResponse, tonic::Status>> + Send + Sync + 'static>>;

fn attrs_key(a: &[api::Attribute]) -> String {
    let mut v: Vec<String> = a.iter().map(|x| format!("{:?}", x)).collect();
    v.sort();
    v.join(",")
}

fn nlri_key(a: &Option<api::Nlri>) -> String {
    match a {
        Some(x) => format!("{:?}", x),
        None => String::new(),
    }
}

#[derive(Clone, Debug)]
struct WCfg {
    peer: bool,
    post: bool,
    init: bool,
    filter: Option<usize>,
    /// a second filter in the request (End-of-RIB events, no snapshot asked for it): 0 none,
    /// 1 after the table filter, 2 before it
    extra: u8,
}

struct Watcher {
    cfg: WCfg,
    stream: Option<WStream>,
    routes: BTreeMap<WKey, String>,
    up: BTreeSet<IpAddr>,
    end_of_init: bool,
    /// neighbours that went away while a client that does not ask for peer events was listening
    /// (it cannot know that their routes are gone)
    went_down: BTreeSet<IpAddr>,
    stalled: bool,
    events: u64,
    findings: Vec<(String, String)>,
}

impl Watcher {
    fn new(cfg: WCfg) -> Watcher {
        Watcher { cfg, stream: None, routes: BTreeMap::new(), up: BTreeSet::new(), end_of_init: false, went_down: BTreeSet::new(), stalled: false, events: 0, findings: Vec::new() }
    }

    fn find(&mut self, class: &str, detail: String) {
        if !self.findings.iter().any(|(c, _)| c == class) {
            self.findings.push((class.to_string(), detail));
        }
    }

    /// Read whatever the stream holds right now. Returns the number of events taken.
    fn drain(&mut self) -> usize {
        let mut n = 0;
        if self.stalled {
            return 0;
        }
        loop {
            let Some(s) = self.stream.as_mut() else { return n };
            match s.next().now_or_never() {
                Some(Some(Ok(ev))) => {
                    n += 1;
                    self.events += 1;
                    self.apply(ev);
                }
                Some(Some(Err(e))) => {
                    self.find("C18/watch/stream-error", format!("{:?}", e));
                    self.stream = None;
                }
                Some(None) => {
                    self.find("C18/watch/stream-ended-by-the-daemon", "the stream ended although the client did not cancel".into());
                    self.stream = None;
                }
                None => return n,
            }
        }
    }

    fn apply(&mut self, ev: api::WatchEventResponse) {
        use api::watch_event_response::{peer_event::Type as PT, Event};
        match ev.event {
            Some(Event::Peer(pe)) => {
                if !self.cfg.peer {
                    self.find("C18/watch/peer-event-not-asked-for", format!("{:?}", pe));
                }
                match PT::try_from(pe.r#type).unwrap_or(PT::Unspecified) {
                    PT::EndOfInit => self.end_of_init = true,
                    t @ (PT::Init | PT::State) => {
                        let Some(p) = pe.peer else {
                            self.find("C18/watch/peer-event-without-peer", format!("{:?}", t));
                            return;
                        };
                        let addr: Option<IpAddr> = p.conf.as_ref().and_then(|c| c.neighbor_address.parse().ok());
                        let Some(addr) = addr else {
                            self.find("C18/watch/peer-event-without-address", format!("{:?}", p));
                            return;
                        };
                        let est = p.state.as_ref().map(|s| s.session_state == api::peer_state::SessionState::Established as i32).unwrap_or(false);
                        if est {
                            self.up.insert(addr);
                        } else {
                            if !self.up.remove(&addr) {
                                self.find("C18/watch/pairing/peer-down-without-peer-up", format!("{} reported down; the client was never told it was up", addr));
                            }
                            self.routes.retain(|k, _| k.0 != addr);
                        }
                    }
                    PT::Unspecified => self.find("C18/watch/peer-event-of-unspecified-type", format!("{:?}", pe)),
                }
            }
            Some(Event::Table(te)) => {
                for p in te.paths {
                    if p.nlri.is_none() {
                        continue; // End-of-RIB marker
                    }
                    let Ok(addr) = p.neighbor_ip.parse::<IpAddr>() else {
                        self.find("C18/watch/table-event-does-not-name-the-neighbour", format!("neighbor_ip {:?} in {:?}: the client cannot tell whose Adj-RIB-In the path belongs to", p.neighbor_ip, p.nlri));
                        continue;
                    };
                    let fam = p.family.as_ref().map(|f| ((f.afi as u32) << 16) | f.safi as u32).unwrap_or(0);
                    let key = (addr, fam, nlri_key(&p.nlri), p.identifier);
                    if p.is_withdraw {
                        self.routes.remove(&key);
                    } else if p.pattrs.is_empty() {
                        self.find("C18/watch/withdrawal-not-marked-as-withdrawal", format!("path {:?} of {} has no attributes and is_withdraw=false", p.nlri, addr));
                        self.routes.remove(&key);
                    } else {
                        self.routes.insert(key, attrs_key(&p.pattrs));
                    }
                }
            }
            None => self.find("C18/watch/empty-event", String::new()),
        }
    }
}

fn import_policy() -> Arc<table::PolicyAssignment> {
    let mut pt = table::PolicyTable::new();
    pt.add_defined_set(table::DefinedSetConfig::Prefix { name: "deny".into(), prefixes: vec![table::PrefixConfig { ip_prefix: "10.1.0.0/24".into(), mask_length_min: 24, mask_length_max: 24 }, table::PrefixConfig { ip_prefix: "2001:db8:1::/48".into(), mask_length_min: 48, mask_length_max: 48 }] }).unwrap();
    pt.add_statement("deny", vec![table::ConditionConfig::PrefixSet("deny".into(), table::MatchOption::Any)], Some(table::Disposition::Reject), table::Actions::default()).unwrap();
    let mut a = table::Actions::default();
    a.med = Some(table::MedAction { action_type: table::MedActionType::Replace, value: 77 });
    pt.add_statement("mark", vec![], None, a).unwrap();
    pt.add_policy("p", vec!["deny".into(), "mark".into()]).unwrap();
    pt.add_assignment("global", table::PolicyDirection::Import, table::Disposition::Accept, vec!["p".into()]).unwrap().1
}

impl Check for WatchStreams {
    fn property(&self) -> &'static str {
        "C18"
    }
    fn tier(&self) -> &'static str {
        "D"
    }
    fn name(&self) -> &'static str {
        "watch-streams"
    }

    fn generate(&self, seed: u64, thorough: bool) -> Json {
        let mut rng = Rng::new(seed);
        let n_nodes = rng.range(1, 3) as usize;
        let n_w = rng.range(1, 3);
        let mut nodes = Vec::new();
        for i in 0..n_nodes {
            let role = *rng.pick(&[Role::Ebgp, Role::Ebgp, Role::Ibgp]);
            let n = NodeCfg {
                role,
                addr: IpAddr::V4(Ipv4Addr::new(10, 0, 1, i as u8 + 1)),
                asn: asn_for(role, i),
                rid: 0,
                send_max: 1,
                addpath_rx: rng.chance(1, 3),
                gr: if rng.chance(1, 3) { Some((*rng.pick(&[5u16, 30]), rng.coin())) } else { None },
                llgr: None,
                prefix_limit: None,
                ext_msg: false,
            };
            nodes.push(node_json(&n));
        }
        let watchers: Vec<Json> = (0..n_w)
            .map(|_| jobj! {"peer" => rng.chance(2, 3), "post" => rng.coin(), "init" => rng.chance(4, 5), "filter" => if rng.chance(1, 4) { rng.below(n_nodes as u64) as i64 } else { -1i64 }, "extra" => *rng.pick(&[0u64, 0, 1, 2])})
            .collect();
        let n = rng.range(8, if thorough { 60 } else { 30 });
        let mut ops: Vec<Json> = Vec::new();
        for i in 0..n_nodes {
            if rng.chance(4, 5) {
                ops.push(jarr!["up", i as u64, 0u64]);
            }
        }
        for _ in 0..n {
            let burst = if rng.chance(1, 3) { 1u64 } else { 0 };
            let i = rng.below(n_nodes as u64);
            match rng.weighted(&[34, 12, 7, 7, 4, 6, 9, 3, 3, 3]) {
                0 => {
                    let role = Role::from_u(nodes[i as usize].i("role", 0) as u64);
                    let spec = gen_rspec(&mut rng, role, asn_for(role, i as usize));
                    ops.push(jarr!["ann", i, burst, rng.below(2), rng.below(5), if rng.chance(1, 3) { rng.range(1, 2) } else { 0 }, spec.to_json()]);
                }
                1 => ops.push(jarr!["wd", i, burst, rng.below(2), rng.below(5), if rng.chance(1, 3) { rng.range(1, 2) } else { 0 }]),
                2 => ops.push(jarr!["down", i, burst, *rng.pick(&["fin", "rst", "notif-cease", "notif-other", "dut-reset"])]),
                3 => ops.push(jarr!["up", i, burst]),
                4 => ops.push(jarr!["eor", i, burst, rng.below(2)]),
                5 => ops.push(jarr!["wait", 0u64, 0u64, *rng.pick(&[100u64, 3000, 6000, 11000, 31000])]),
                6 => ops.push(jarr!["w-open", rng.below(n_w), burst]),
                7 => ops.push(jarr!["w-close", rng.below(n_w), burst]),
                8 => ops.push(jarr!["w-stall", rng.below(n_w), burst, 1u64]),
                _ => ops.push(jarr!["w-stall", rng.below(n_w), burst, 0u64]),
            }
        }
        for w in 0..n_w {
            ops.push(jarr!["w-stall", w, 0u64, 0u64]);
            ops.push(jarr!["w-open", w, 0u64]);
        }
        ops.push(jarr!["wait", 0u64, 0u64, 3000u64]);
        jobj! {
            "nodes" => Json::Arr(nodes), "watchers" => Json::Arr(watchers), "shards" => rng.range(1, 3), "policy" => rng.below(2), "hold" => *rng.pick(&[0u64, 30, 90]),
            "sub" => rng.next_u64() >> 1, "ops" => Json::Arr(ops)
        }
    }

    fn execute(&self, case: &Json, tol: &Tolerate) -> Outcome {
        let case = case.clone();
        let tol = tol.clone();
        let mut out = run_sim(case.i("sub", 1) as u64, move || run(case, tol));
        fix_task_panic(&mut out, "C18");
        out
    }

    fn info(&self) -> CheckInfo {
        CheckInfo {
            rule: "1-3 real sessions (eBGP / iBGP, optional add-path receive, optional graceful restart) announcing and withdrawing IPv4 / IPv6 prefixes with several path ids, dropping by FIN, RST, NOTIFICATION or operator reset and coming back, End-of-RIB, waits across the restart timer; 1-3 WatchEvent clients (with or without peer events; pre-policy or post-policy Adj-RIB-In; with or without the initial snapshot; all neighbours or one; optionally with a second filter for End-of-RIB events before or after the table filter) opened and cancelled through the real gRPC handler at arbitrary points, also inside bursts that are not allowed to settle; a client may stop reading for a while. Each client folds its stream as the API documents (insert / is_withdraw remove per (neighbour, family, NLRI, path id); a neighbour reported Idle loses its entries). At each quiescent point a client that asked for the snapshot and has read everything is compared with the RIB, neighbour by neighbour. non-trivial = such a client was compared for at least one neighbour with routes".into(),
            components_real: vec![
                "GrpcService::watch_event (request parsing, peer init phase, snapshot drain, live loop, filters), adj_rib_in_to_table_event, watch_peer_event".into(),
                "TableManager::{subscribe, unsubscribe, insert_route, remove_route, unregister_peer, drop_stale_families, notify_stale_purge, peer_up, peer_down}; real sessions".into(),
                "convert::{nlri_to_api, attr_to_api, family_to_api} (used on both sides as the representation)".into(),
            ],
            components_stubbed: vec!["TCP, clock, the peers; the gRPC transport (the handler is called directly and its response stream polled by the scenario)".into()],
            assumptions: vec![
                "a client discards a neighbour's entries when the neighbour is reported Idle, so routes retained as stale for a restarting peer may be unknown to it; nothing it knows may be absent from the RIB".into(),
                "a client that did not ask for peer events cannot learn that a neighbour went away: neighbours that went down while it listened are not compared for it".into(),
            ],
            bounds: "<=60 ops, <=3 peers, <=3 clients, 5 prefixes per family, path ids 0-2".into(),
        }
    }
}

async fn settle_all(t: &mut Topo, ws: &mut [Watcher]) {
    for _ in 0..64 {
        t.settle().await;
        let mut n = 0;
        for w in ws.iter_mut() {
            n += w.drain();
        }
        if n == 0 {
            break;
        }
    }
}

async fn run(case: Json, tol: Tolerate) -> Outcome {
    let mut out = Outcome::default();
    let node_js: Vec<Json> = case.get("nodes").map(|s| s.arr().to_vec()).unwrap_or_default();
    if node_js.is_empty() {
        return out;
    }
    let hold = case.i("hold", 0) as u64;
    let nodes: Vec<NodeCfg> = node_js.iter().enumerate().map(|(i, j)| node_from_json(j, IpAddr::V4(Ipv4Addr::new(10, 0, 1, i as u8 + 1)), i)).collect();
    let mut wcfg = WorldCfg::default();
    wcfg.shards = case.i("shards", 1) as usize;
    let mut t = Topo::new(&wcfg, nodes, FAMS.to_vec(), hold).await;
    if case.i("policy", 0) != 0 {
        t.w.tables.import_policy.store(Some(import_policy()));
    }
    let mut ws: Vec<Watcher> = case
        .get("watchers")
        .map(|s| s.arr().to_vec())
        .unwrap_or_default()
        .iter()
        .map(|j| {
            let f = j.i("filter", -1);
            Watcher::new(WCfg { peer: j.get("peer").map(|b| b.as_bool()).unwrap_or(true), post: j.get("post").map(|b| b.as_bool()).unwrap_or(false), init: j.get("init").map(|b| b.as_bool()).unwrap_or(true), filter: if f < 0 { None } else { Some(f as usize % t.nodes.len()) }, extra: j.i("extra", 0) as u8 })
        })
        .collect();
    if ws.is_empty() {
        return out;
    }
    let mut compared = false;
    // sessions ended by the peer inside a burst: the daemon has not seen the end yet
    let mut unsettled_down: BTreeSet<IpAddr> = BTreeSet::new();

    let ops: Vec<Json> = case.get("ops").map(|o| o.arr().to_vec()).unwrap_or_default();
    for (opi, op) in ops.iter().enumerate() {
        let tag = op.at(0).as_str().to_string();
        let i = op.at(1).as_usize();
        let burst = op.at(2).as_u64() != 0;
        match tag.as_str() {
            "up" => {
                let i = i % t.nodes.len();
                if t.nodes[i].spk.conn.is_none() {
                    let Topo { w, nodes, .. } = &mut t;
                    nodes[i].spk.connect(w, &PipeOpts::default(), &PipeOpts::default());
                    out.hit("op.session-up");
                    if burst {
                        t.w.quiesce().await;
                        let now = t.now();
                        t.nodes[i].spk.process_inbox(now);
                    }
                }
            }
            "ann" | "wd" => {
                let i = i % t.nodes.len();
                if !t.nodes[i].spk.established() {
                    continue;
                }
                let fam = op.at(3).as_usize() % 2;
                let pid = if t.nodes[i].cfg.addpath_rx { op.at(5).as_u32() } else { 0 };
                let net = packet::PathNlri { path_id: pid, nlri: prefix(fam, op.at(4).as_u64()) };
                if tag == "ann" {
                    let spec = RSpec::from_json(op.at(6));
                    let mut attrs = spec.attrs(t.nodes[i].cfg.role);
                    let nh = if fam == 0 { spec.nexthop() } else { bgp::Nexthop::V6("2001:db8:ffff::1".parse().unwrap()) };
                    if fam == 1 {
                        attrs.retain(|a| a.code() != packet::Attribute::NEXTHOP);
                    }
                    t.nodes[i].spk.announce(FAMS[fam], vec![net], Some(nh), attrs);
                    out.hit("op.announce");
                } else {
                    t.nodes[i].spk.withdraw(FAMS[fam], vec![net]);
                    out.hit("op.withdraw");
                }
            }
            "eor" => {
                let i = i % t.nodes.len();
                if t.nodes[i].spk.established() {
                    t.nodes[i].spk.eor(FAMS[op.at(3).as_usize() % 2]);
                    out.hit("op.end-of-rib");
                }
            }
            "down" => {
                let i = i % t.nodes.len();
                if t.nodes[i].spk.conn.is_none() {
                    continue;
                }
                let addr = t.nodes[i].cfg.addr;
                match op.at(3).as_str() {
                    "fin" => t.nodes[i].spk.close(),
                    "rst" => t.nodes[i].spk.rst(),
                    "notif-cease" => {
                        t.nodes[i].spk.send(&bgp::Message::Notification(packet::Notification::from_notification(6, 4, vec![])));
                        t.nodes[i].spk.close();
                    }
                    "notif-other" => {
                        t.nodes[i].spk.send(&bgp::Message::Notification(packet::Notification::UpdateMalformedAttributeList));
                        t.nodes[i].spk.close();
                    }
                    _ => {
                        let req = api::ResetPeerRequest { address: addr.to_string(), soft: false, ..Default::default() };
                        let _ = t.w.grpc.reset_peer(tonic::Request::new(req)).await;
                    }
                }
                unsettled_down.insert(addr);
                for w in ws.iter_mut() {
                    if w.stream.is_some() && !w.cfg.peer {
                        w.went_down.insert(addr);
                    }
                }
                out.hit(&format!("fault.session-drop.{}", op.at(3).as_str()));
                if !burst {
                    settle_all(&mut t, &mut ws).await;
                    if t.nodes[i].spk.conn.is_some() {
                        let now = t.now();
                        t.nodes[i].spk.process_inbox(now);
                        t.nodes[i].spk.close();
                    }
                }
            }
            "wait" => {
                let ms = op.at(3).as_u64();
                let mut left = ms;
                while left > 0 {
                    let d = left.min(2000);
                    t.advance(d).await;
                    settle_all(&mut t, &mut ws).await;
                    left -= d;
                }
            }
            "w-open" => {
                let k = i % ws.len();
                if ws[k].stream.is_none() {
                    use api::watch_event_request::table::{filter::Type as FT, Filter};
                    let cfg = ws[k].cfg.clone();
                    let filt = Filter { r#type: if cfg.post { FT::PostPolicy as i32 } else { FT::Adjin as i32 }, init: cfg.init, peer_address: cfg.filter.map(|n| t.nodes[n].cfg.addr.to_string()).unwrap_or_default(), peer_group: String::new() };
                    // a request may carry several filters: what one of them asks for (the snapshot, the
                    // neighbour) must not be lost because another one does not ask for it
                    let eor = Filter { r#type: FT::Eor as i32, init: false, peer_address: filt.peer_address.clone(), peer_group: String::new() };
                    let filters = match cfg.extra {
                        1 => vec![filt, eor],
                        2 => vec![eor, filt],
                        _ => vec![filt],
                    };
                    let req = api::WatchEventRequest { peer: if cfg.peer { Some(api::watch_event_request::Peer {}) } else { None }, table: Some(api::watch_event_request::Table { filters }), batch_size: 0 };
                    match t.w.grpc.watch_event(tonic::Request::new(req)).await {
                        Ok(r) => {
                            let mut w = Watcher::new(cfg);
                            if !w.cfg.peer {
                                w.went_down.extend(unsettled_down.iter().copied());
                            }
                            w.stream = Some(r.into_inner());
                            w.findings = std::mem::take(&mut ws[k].findings);
                            ws[k] = w;
                            out.hit("op.watch-opened");
                        }
                        Err(e) => {
                            let v = Violation::new("C18/watch/request-refused", format!("op {}: {:?}", opi, e));
                            if out.violate(&tol, v) {
                                out.vtime_ms = t.now();
                                return out;
                            }
                        }
                    }
                }
            }
            "w-close" => {
                let k = i % ws.len();
                if ws[k].stream.take().is_some() {
                    ws[k].routes.clear();
                    ws[k].up.clear();
                    ws[k].stalled = false;
                    out.hit("op.watch-cancelled");
                }
            }
            "w-stall" => {
                let k = i % ws.len();
                let on = op.at(3).as_u64() != 0;
                if on && !ws[k].stalled && ws[k].stream.is_some() {
                    out.hit("fault.client-stops-reading");
                }
                ws[k].stalled = on;
            }
            _ => continue,
        }
        if burst {
            out.hit("burst.op-without-settling");
            continue;
        }
        settle_all(&mut t, &mut ws).await;
        unsettled_down.clear();
        for n in t.nodes.iter_mut() {
            if n.spk.state == SpkState::Closed && n.spk.conn.is_some() {
                n.spk.close();
            }
        }
        settle_all(&mut t, &mut ws).await;
        // a neighbour that is away (also when the daemon ended the session): table-only clients cannot know
        for n in &t.nodes {
            if !n.spk.established() {
                for w in ws.iter_mut() {
                    if w.stream.is_some() && !w.cfg.peer {
                        w.went_down.insert(n.cfg.addr);
                    }
                }
            }
        }

        // ---- client findings -------------------------------------------------------------------
        for w in ws.iter_mut() {
            for (class, detail) in std::mem::take(&mut w.findings) {
                let v = Violation::new(class, format!("op {} {}: client {:?}: {}", opi, op.to_compact(), w.cfg, detail));
                if out.violate(&tol, v) {
                    out.vtime_ms = t.now();
                    out.nontrivial |= compared;
                    return out;
                }
            }
        }

        // ---- the RIB in the clients' representation ---------------------------------------------
        let mut rib_pre: BTreeMap<WKey, (String, bool)> = BTreeMap::new();
        let mut rib_post: BTreeMap<WKey, (String, bool)> = BTreeMap::new();
        for shard in &t.w.tables.shards {
            let g = shard.lock().unwrap();
            for f in FAMS {
                let fk = ((f.afi() as u32) << 16) | f.safi() as u32;
                for r in g.rtable.iter_reach(f) {
                    let a: Vec<api::Attribute> = r.attr.iter().map(crate::convert::attr_to_api).collect();
                    rib_pre.insert((r.source.remote_addr, fk, nlri_key(&Some(crate::convert::nlri_to_api(&r.net.nlri))), r.net.path_id), (attrs_key(&a), r.source.is_stale() || r.source.is_llgr_stale()));
                }
                for r in g.rtable.iter_reach_post(f) {
                    let a: Vec<api::Attribute> = r.attr.iter().map(crate::convert::attr_to_api).collect();
                    rib_post.insert((r.source.remote_addr, fk, nlri_key(&Some(crate::convert::nlri_to_api(&r.net.nlri))), r.net.path_id), (attrs_key(&a), r.source.is_stale() || r.source.is_llgr_stale()));
                }
            }
        }
        for (k, w) in ws.iter().enumerate() {
            if w.stream.is_none() || w.stalled {
                continue;
            }
            out.hit("compare.client-has-read-everything");
            for (ni, n) in t.nodes.iter().enumerate() {
                let a = n.cfg.addr;
                if let Some(f) = w.cfg.filter {
                    if f != ni {
                        if let Some((key, _)) = w.routes.iter().find(|(key, _)| key.0 == a) {
                            let v = Violation::new("C18/watch/filter/route-of-another-neighbour-delivered", format!("op {} {}: client {} {:?} holds {:?}", opi, op.to_compact(), k, w.cfg, key));
                            if out.violate(&tol, v) {
                                out.vtime_ms = t.now();
                                return out;
                            }
                        }
                        continue;
                    }
                }
                let est = n.spk.established();
                if w.cfg.peer && w.cfg.filter.is_none() {
                    let bad = match (est, w.up.contains(&a)) {
                        (true, false) => Some(("C18/watch/pairing/peer-up-missing", "is established but the client was not told")),
                        (false, true) => Some(("C18/watch/pairing/peer-down-missing", "has gone but the client still holds it up")),
                        _ => None,
                    };
                    if let Some((class, what)) = bad {
                        let v = Violation::new(class, format!("op {} {}: client {} {:?}: neighbour {} {}", opi, op.to_compact(), k, w.cfg, a, what));
                        if out.violate(&tol, v) {
                            out.vtime_ms = t.now();
                            return out;
                        }
                        continue;
                    }
                }
                if !est || !w.cfg.init || w.went_down.contains(&a) {
                    continue;
                }
                let (name, rib) = if w.cfg.post { ("post-policy", &rib_post) } else { ("pre-policy", &rib_pre) };
                let got: BTreeMap<&WKey, &String> = w.routes.iter().filter(|(key, _)| key.0 == a).collect();
                let fresh: BTreeMap<&WKey, &String> = rib.iter().filter(|(key, v)| key.0 == a && !v.1).map(|(key, v)| (key, &v.0)).collect();
                let stale: BTreeSet<&WKey> = rib.iter().filter(|(key, v)| key.0 == a && v.1).map(|(key, _)| key).collect();
                if !fresh.is_empty() {
                    compared = true;
                }
                let mut bad: Option<(String, String)> = None;
                for (key, v) in &fresh {
                    match got.get(key) {
                        Some(g) if g == v => {}
                        Some(g) => bad = Some((format!("C18/watch/fold/{}/last-event-is-not-current-state", name), format!("{:?}: client holds {}, RIB holds {}", key, g, v))),
                        None => bad = Some((format!("C18/watch/fold/{}/update-missing", name), format!("{:?} is in the RIB but the client never learnt it (or was told to forget it)", key))),
                    }
                }
                for (key, g) in &got {
                    if !fresh.contains_key(key) && !stale.contains(key) {
                        bad = Some((format!("C18/watch/fold/{}/phantom-route", name), format!("{:?}: client holds {}, the RIB has no such route", key, g)));
                    }
                }
                if let Some((class, d)) = bad {
                    let v = Violation::new(class, format!("op {} {}: client {} {:?} neighbour {}: {}; client holds {} entries, RIB {} fresh", opi, op.to_compact(), k, w.cfg, a, d, got.len(), fresh.len()));
                    if out.violate(&tol, v) {
                        out.vtime_ms = t.now();
                        out.nontrivial = true;
                        return out;
                    }
                }
            }
        }
    }
    out.nontrivial = compared;
    out.vtime_ms = t.now();
    for w in &ws {
        out.count("client.events", w.events);
    }
    if t.collect_speaker_errors(&mut out, "C18", &tol) {
        return out;
    }
    out
}
