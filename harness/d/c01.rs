//! C01 — every neighbour's view converges to export(Loc-RIB); no withdrawal is lost.
//! Tier D.  Source speakers feed the real RIB through real sessions; observer speakers hold
//! long-lived sessions whose receive window the schedule opens and closes (so that changes are
//! coalesced in `PendingTx` across arbitrarily many RIB events); at check points each observer's
//! mirror Adj-RIB-In is compared with that of an identically configured twin that connects at
//! that instant — the property's own definition of "what a brand-new session would be sent".

use super::super::*;
use super::c08::fix_task_panic;
use super::speaker::*;
use super::topo::*;
use super::world::*;
use crate::verif_net::PipeOpts;
use vcore::{jarr, jobj, Check, CheckInfo, Json, Outcome, Rng, Tolerate, Violation};

pub(crate) struct Convergence;

#[derive(Clone, Debug)]
pub(crate) struct RSpec {
    pub asp: Vec<u32>,
    pub org: u8,
    pub lp: i64,
    pub med: i64,
    pub com: Vec<u32>,
    pub nh: u8,
}

impl RSpec {
    pub(crate) fn to_json(&self) -> Json {
        jobj! {"asp" => Json::Arr(self.asp.iter().map(|a| Json::from(*a)).collect()), "org" => self.org as u64, "lp" => self.lp, "med" => self.med,
               "com" => Json::Arr(self.com.iter().map(|a| Json::from(*a)).collect()), "nh" => self.nh as u64}
    }
    pub(crate) fn from_json(j: &Json) -> RSpec {
        RSpec {
            asp: j.get("asp").map(|a| a.arr().iter().map(|x| x.as_u32()).collect()).unwrap_or_default(),
            org: j.i("org", 0) as u8,
            lp: j.i("lp", -1),
            med: j.i("med", -1),
            com: j.get("com").map(|a| a.arr().iter().map(|x| x.as_u32()).collect()).unwrap_or_default(),
            nh: j.i("nh", 1) as u8,
        }
    }
    pub(crate) fn attrs(&self, role: Role) -> Vec<packet::Attribute> {
        let mut v = vec![packet::Attribute::new_with_value(packet::Attribute::ORIGIN, self.org as u32).unwrap()];
        let mut b = Vec::new();
        if !self.asp.is_empty() {
            if role == Role::Confed {
                // first AS travels in a confederation sequence
                b.push(3u8);
                b.push(1);
                b.extend_from_slice(&self.asp[0].to_be_bytes());
                if self.asp.len() > 1 {
                    b.push(2);
                    b.push((self.asp.len() - 1) as u8);
                    for a in &self.asp[1..] {
                        b.extend_from_slice(&a.to_be_bytes());
                    }
                }
            } else {
                b.push(2u8);
                b.push(self.asp.len() as u8);
                for a in &self.asp {
                    b.extend_from_slice(&a.to_be_bytes());
                }
            }
        }
        v.push(packet::Attribute::new_with_bin(packet::Attribute::AS_PATH, b).unwrap());
        if self.med >= 0 {
            v.push(packet::Attribute::new_with_value(packet::Attribute::MULTI_EXIT_DESC, self.med as u32).unwrap());
        }
        if self.lp >= 0 && matches!(role, Role::Ibgp | Role::RrClient | Role::Confed) {
            v.push(packet::Attribute::new_with_value(packet::Attribute::LOCAL_PREF, self.lp as u32).unwrap());
        }
        if !self.com.is_empty() {
            let mut c = Vec::new();
            for x in &self.com {
                c.extend_from_slice(&x.to_be_bytes());
            }
            v.push(packet::Attribute::new_with_bin(packet::Attribute::COMMUNITY, c).unwrap());
        }
        v
    }
    pub(crate) fn nexthop(&self) -> bgp::Nexthop {
        bgp::Nexthop::V4(Ipv4Addr::new(192, 0, 2, self.nh))
    }
}

pub(crate) fn gen_rspec(rng: &mut Rng, role: Role, own_as: u32) -> RSpec {
    let mut asp = Vec::new();
    if matches!(role, Role::Ebgp | Role::RsClient | Role::Confed) {
        asp.push(own_as);
    }
    for _ in 0..rng.below(3) {
        asp.push(*rng.pick(&[64600u32, 64601, 64602]));
    }
    RSpec {
        asp,
        org: rng.below(3) as u8,
        lp: *rng.pick(&[-1i64, -1, 50, 200]),
        med: *rng.pick(&[-1i64, -1, 0, 10]),
        com: if rng.chance(1, 5) { vec![*rng.pick(&[0xfde8_0001u32, 0xfde8_0002])] } else { vec![] },
        nh: rng.range(1, 2) as u8,
    }
}

pub(crate) fn node_json(n: &NodeCfg) -> Json {
    jobj! {"role" => n.role.to_u(), "send_max" => n.send_max as u64, "addpath_rx" => n.addpath_rx, "ext_msg" => n.ext_msg,
           "gr" => match n.gr { Some((t, nb)) => jarr![t as u64, nb], None => Json::Null },
           "llgr" => match n.llgr { Some(t) => Json::from(t), None => Json::Null },
           "limit" => match n.prefix_limit { Some(t) => Json::from(t), None => Json::Null }}
}

pub(crate) fn node_from_json(j: &Json, addr: IpAddr, idx: usize) -> NodeCfg {
    let role = Role::from_u(j.i("role", 0) as u64);
    let rid = match addr {
        IpAddr::V4(a) => u32::from(a),
        _ => 0x0a0a_0a00 + idx as u32,
    };
    NodeCfg {
        role,
        addr,
        asn: asn_for(role, idx),
        rid,
        send_max: j.i("send_max", 1).max(1) as usize,
        addpath_rx: j.get("addpath_rx").map(|b| b.as_bool()).unwrap_or(false),
        gr: j.get("gr").filter(|g| !g.arr().is_empty()).map(|g| (g.at(0).as_u64() as u16, g.at(1).as_bool())),
        llgr: j.get("llgr").filter(|g| matches!(g, Json::Int(_))).map(|g| g.as_u32()),
        prefix_limit: j.get("limit").filter(|g| matches!(g, Json::Int(_))).map(|g| g.as_u32()),
        ext_msg: j.get("ext_msg").map(|b| b.as_bool()).unwrap_or(true),
    }
}

impl Check for Convergence {
    fn property(&self) -> &'static str {
        "C01"
    }
    fn tier(&self) -> &'static str {
        "D"
    }
    fn name(&self) -> &'static str {
        "observer-vs-twin"
    }

    fn generate(&self, seed: u64, thorough: bool) -> Json {
        let mut rng = Rng::new(seed);
        let n_src = rng.range(1, 3) as usize;
        let n_obs = rng.range(1, 2) as usize;
        let n_pfx = rng.range(2, if thorough { 8 } else { 5 });
        let confed = rng.chance(1, 4);
        let roles: &[u64] = if confed { &[0, 1, 2, 3, 4, 4] } else { &[0, 0, 1, 2, 3] };
        let sources: Vec<Json> = (0..n_src)
            .map(|_| {
                let role = *rng.pick(roles);
                jobj! {"role" => role, "send_max" => 1u64, "addpath_rx" => rng.chance(1, 4), "ext_msg" => rng.coin()}
            })
            .collect();
        // sources that negotiated graceful restart (and long-lived GR): their routes stay, stale and
        // then LLGR-stale, after a crash - attributes of unchanged paths change under the observers
        let sources: Vec<Json> = sources
            .into_iter()
            .map(|mut s| {
                if rng.chance(1, 4) {
                    s.set("gr", jarr![5u64, false]);
                    if rng.chance(2, 3) {
                        s.set("llgr", Json::from(30u64));
                    }
                }
                s
            })
            .collect();
        let observers: Vec<Json> = (0..n_obs)
            .map(|_| {
                let role = *rng.pick(roles);
                jobj! {"role" => role, "send_max" => *rng.pick(&[1u64, 1, 2, 3]), "addpath_rx" => false, "ext_msg" => rng.coin()}
            })
            .collect();
        let swarm_lat = rng.chance(1, 3);
        let swarm_frag = rng.chance(1, 2);
        let pipes: Vec<Json> = (0..(n_src + 2 * n_obs) * 2).map(|_| pipe_opts_to_json(&pipe_opts(&mut rng, swarm_lat, swarm_frag))).collect();
        let en_down = rng.chance(1, 2);
        let en_win = rng.chance(3, 4);
        let en_rr = rng.chance(1, 3);
        // 0 no policy; 1 a global export policy from the start (reject community 65000:1, MED 77 on the rest);
        // 2 the same, and export / import policies switched on and off during the history, each switch
        // followed by the soft reset an operator issues for it
        let xpol = *rng.pick(&[0u64, 0, 1, 2, 2]);
        // a second address family on every session (IPv6 unicast over the same IPv4 transport), and
        // routes the operator originates and deletes through AddPath / DeletePath (with path
        // identifiers, so that one prefix can have several local paths)
        let v6 = rng.chance(1, 3);
        let en_local = rng.chance(1, 2);
        // next-hop flaps: the kernel reports one of the next hops in use unreachable / reachable again
        let en_nh = rng.chance(1, 3);
        let n_ops = rng.range(4, if thorough { 60 } else { 30 });
        let mut ops = Vec::new();
        let mut locals: Vec<(u64, u64, u64)> = Vec::new();
        let src_roles: Vec<Role> = sources.iter().map(|s| Role::from_u(s.i("role", 0) as u64)).collect();
        for _ in 0..n_ops {
            let s = rng.usize_below(n_src);
            let o = rng.usize_below(n_obs);
            match rng.weighted(&[40, 16, if en_win { 14 } else { 0 }, 4, if en_down { 5 } else { 0 }, 7, if en_rr { 3 } else { 0 }, 3, if xpol == 2 { 5 } else { 0 }, if en_local { 12 } else { 0 }, if en_nh { 7 } else { 0 }]) {
                10 => ops.push(jarr!["nh", rng.range(1, 2), rng.chance(2, 5), v6 && rng.chance(1, 3)]),
                8 => ops.push(jarr!["pol", rng.below(3), rng.coin(), o]),
                9 => {
                    let fam = if v6 && rng.chance(1, 3) { 1u64 } else { 0 };
                    if rng.chance(2, 3) {
                        let mut spec = gen_rspec(&mut rng, Role::Ibgp, 0);
                        if xpol != 0 && rng.chance(1, 3) {
                            spec.com = vec![0xfde8_0001];
                        }
                        if rng.chance(1, 4) {
                            spec.nh = 0; // no next hop given: the daemon's own address
                        }
                        let (p, id) = (rng.below(n_pfx), rng.below(3));
                        locals.push((p, id, fam));
                        ops.push(jarr!["ladd", p, id, spec.to_json(), fam]);
                    } else if !locals.is_empty() && rng.chance(4, 5) {
                        let (p, id, f) = locals.swap_remove(rng.usize_below(locals.len()));
                        ops.push(jarr!["ldel", p, id, f]);
                    } else {
                        ops.push(jarr!["ldel", rng.below(n_pfx), rng.below(3), fam]);
                    }
                }
                0 => {
                    let mut spec = gen_rspec(&mut rng, src_roles[s], asn_for(src_roles[s], s));
                    if xpol != 0 && rng.chance(1, 3) {
                        // the community the policies look at: a replacement flips exportability
                        spec.com = vec![0xfde8_0001];
                    }
                    let pid = if sources[s].get("addpath_rx").map(|b| b.as_bool()).unwrap_or(false) { rng.range(1, 2) } else { 0 };
                    let fam = if v6 && rng.chance(1, 3) { 1u64 } else { 0 };
                    ops.push(jarr!["ann", s, rng.below(n_pfx), pid, spec.to_json(), fam]);
                }
                1 => {
                    let pid = if sources[s].get("addpath_rx").map(|b| b.as_bool()).unwrap_or(false) { rng.range(1, 2) } else { 0 };
                    let fam = if v6 && rng.chance(1, 3) { 1u64 } else { 0 };
                    ops.push(jarr!["wd", s, rng.below(n_pfx), pid, fam]);
                }
                2 => ops.push(jarr!["win", o, rng.coin()]),
                3 => ops.push(jarr!["wait", *rng.pick(&[1u64, 10, 100, 1000, 6000, 20000])]),
                4 => {
                    ops.push(jarr!["down", s, rng.below(2)]);
                    if rng.chance(2, 3) {
                        ops.push(jarr!["up", s]);
                    }
                }
                5 => ops.push(jarr!["check"]),
                6 => {
                    if rng.coin() {
                        ops.push(jarr!["rr", o]);
                    } else {
                        ops.push(jarr!["bounce", o]);
                    }
                }
                _ => ops.push(jarr!["settle"]),
            }
        }
        jobj! {
            "shards" => rng.range(1, 3), "hold" => *rng.pick(&[0u64, 0, 30, 90]), "confed" => confed, "xpol" => xpol, "v6" => v6,
            "sources" => Json::Arr(sources), "observers" => Json::Arr(observers), "pipes" => Json::Arr(pipes),
            "sub" => rng.next_u64() >> 1, "ops" => Json::Arr(ops)
        }
    }

    fn execute(&self, case: &Json, tol: &Tolerate) -> Outcome {
        let case = case.clone();
        let tol = tol.clone();
        let mut out = run_sim(case.i("sub", 1) as u64, move || run(case, tol));
        fix_task_panic(&mut out, "C01");
        out
    }

    fn simplify(&self, case: &Json) -> Vec<Json> {
        let mut v = Vec::new();
        // plain pipes, one shard, no hold timer
        if case.get("pipes").map(|p| !p.arr().is_empty()).unwrap_or(false) {
            let mut c = case.clone();
            c.set("pipes", Json::Arr(vec![]));
            v.push(c);
        }
        if case.i("shards", 1) != 1 {
            let mut c = case.clone();
            c.set("shards", Json::Int(1));
            v.push(c);
        }
        if case.i("hold", 0) != 0 {
            let mut c = case.clone();
            c.set("hold", Json::Int(0));
            v.push(c);
        }
        v
    }

    fn info(&self) -> CheckInfo {
        CheckInfo {
            rule: "1-3 source speakers (roles eBGP/iBGP/RR-client/RS-client/confed, optional add-path towards the DUT) and 1-2 observers (any role, send-max 1-3) on real sessions; history of announce / replace / withdraw / source crash (FIN, RST; a quarter of the sources negotiated GR, most of those LLGR, so their routes stay as stale and LLGR-stale paths) / reconnect / route-refresh / next-hop flap (the kernel reports a next hop in use unreachable, later reachable; a third of the runs) over 2-8 prefixes; in a third of the runs every session also carries IPv6 unicast and announcements, withdrawals and refreshes are spread over both families; in half of the runs the operator originates and deletes routes through the AddPath / DeletePath handlers (path identifiers 0-2, so one prefix can hold several local paths; with and without an explicit next hop); in 3 of 5 runs a global export policy (reject community 65000:1, set MED on the rest) so that a replacement can make a route non-exportable, in 2 of 5 also the global export policy, the global import policy and one observer's own export policy (and its twin's) added and deleted through the gRPC handlers during the history, each switch followed by the operator's soft reset (out towards the observers, in for the sources); the observer's receive window is opened and closed by the schedule, pipes have seeded latency, fragmentation and capacity, 1-3 shards. At check points: windows opened, quiescence, an identically configured twin connects and receives its initial dump; mirror(observer) must equal mirror(twin) (prefix, path id, attributes, next hop). non-trivial = at least one RIB change was delivered to an observer while its window was closed, or a check compared a non-empty mirror; distinct = hash of the seam-event sequence (which connection read/wrote how much, in order)".into(),
            components_real: vec!["accept_connection, PeerSession::{run,session_loop,run_select,rx_msg,rx_update,handle_prefix_update,do_route_refresh,on_established,flush_tx}".into(), "export::process_nlri_change, ExportMap, peer_tx::PendingTx".into(), "TableManager, table::Table".into(), "fsm::PeerFsm, packet::PeerCodec (both directions)".into(), "GrpcService::{start_bgp, add_path, delete_path, local_path, add_policy_assignment, delete_policy_assignment, reset_peer}".into()],
            components_stubbed: vec!["TCP, clock, listener/dispatch loop, remote speakers (scripted; decode with the repository codec negotiated from their side + an independent frame walker)".into()],
            assumptions: vec!["observers and twins announce nothing, so echo suppression cannot differ between them".into(), "a mirror bug shared by encoder and decoder is invisible (framing is checked independently)".into()],
            bounds: "<=60 ops, <=3 sources, <=2 observers (+twins), <=8 prefixes, IPv4 and IPv6 unicast".into(),
        }
    }
}

async fn run(case: Json, tol: Tolerate) -> Outcome {
    let mut out = Outcome::default();
    let confed = case.get("confed").map(|b| b.as_bool()).unwrap_or(false);
    let hold = case.i("hold", 0) as u64;
    let srcs: Vec<Json> = case.get("sources").map(|s| s.arr().to_vec()).unwrap_or_default();
    let obss: Vec<Json> = case.get("observers").map(|s| s.arr().to_vec()).unwrap_or_default();
    let (n_src, n_obs) = (srcs.len(), obss.len());
    if n_src == 0 || n_obs == 0 {
        return out;
    }
    let mut nodes = Vec::new();
    for (i, s) in srcs.iter().enumerate() {
        nodes.push(node_from_json(s, IpAddr::V4(Ipv4Addr::new(10, 0, 1, i as u8 + 1)), i));
    }
    for (j, o) in obss.iter().enumerate() {
        nodes.push(node_from_json(o, IpAddr::V4(Ipv4Addr::new(10, 0, 2, j as u8 + 1)), 10 + j));
    }
    for (j, o) in obss.iter().enumerate() {
        // the twin: same configuration, different address / router id
        let mut n = node_from_json(o, IpAddr::V4(Ipv4Addr::new(10, 0, 3, j as u8 + 1)), 10 + j);
        n.asn = nodes[n_src + j].asn;
        nodes.push(n);
    }
    let mut wcfg = WorldCfg::default();
    wcfg.shards = case.i("shards", 1) as usize;
    if confed {
        wcfg.confed = Some((CONFED_ID, vec![DUT_AS, CONFED_PEER_AS]));
    }
    let pipes: Vec<PipeOpts> = case.get("pipes").map(|p| p.arr().iter().map(pipe_opts_from_json).collect()).unwrap_or_default();
    let pipe = |k: usize| -> PipeOpts { pipes.get(k).cloned().unwrap_or_default() };
    let v6 = case.get("v6").map(|b| b.as_bool()).unwrap_or(false);
    let families = if v6 { vec![Family::IPV4, Family::IPV6] } else { vec![Family::IPV4] };
    let mut t = Topo::new(&wcfg, nodes, families.clone(), hold).await;
    let fam_of = |j: &Json| -> (Family, fn(u64) -> packet::Nlri) { if v6 && matches!(j, Json::Int(1)) { (Family::IPV6, v6_prefix) } else { (Family::IPV4, v4_prefix) } };
    // uuids the daemon returned for the operator's local paths: (family, prefix, identifier) -> uuid
    let mut local_uuid: std::collections::BTreeMap<(u32, u64, u32), Vec<u8>> = Default::default();
    let xpol = case.i("xpol", 0);
    // Policies are configured the way an operator does it, through the gRPC handlers: a community
    // set, two statements (reject routes carrying 65000:1; MED 77 on the rest) and a policy made of
    // them; assignments are added and deleted later.
    let assignment_msg = |name: &str, import: bool| api::PolicyAssignment {
        name: name.to_string(),
        direction: if import { api::PolicyDirection::Import as i32 } else { api::PolicyDirection::Export as i32 },
        policies: vec![api::Policy { name: "p".into(), statements: vec![] }],
        default_action: api::RouteAction::Accept as i32,
    };
    if xpol != 0 {
        let g = &t.w.grpc;
        g.add_defined_set(tonic::Request::new(api::AddDefinedSetRequest { defined_set: Some(api::DefinedSet { defined_type: api::DefinedType::Community as i32, name: "marked".into(), list: vec!["65000:1".into()], prefixes: vec![] }), replace: false })).await.expect("add_defined_set");
        g.add_statement(tonic::Request::new(api::AddStatementRequest {
            statement: Some(api::Statement {
                name: "drop-marked".into(),
                conditions: Some(api::Conditions { community_set: Some(api::MatchSet { r#type: api::match_set::Type::Any as i32, name: "marked".into() }), rpki_result: api::ValidationState::None as i32, ..Default::default() }),
                actions: Some(api::Actions { route_action: api::RouteAction::Reject as i32, ..Default::default() }),
            }),
        }))
        .await
        .expect("add_statement drop-marked");
        g.add_statement(tonic::Request::new(api::AddStatementRequest {
            statement: Some(api::Statement { name: "mark".into(), conditions: Some(api::Conditions { rpki_result: api::ValidationState::None as i32, ..Default::default() }), actions: Some(api::Actions { med: Some(api::MedAction { r#type: api::med_action::Type::Replace as i32, value: 77 }), ..Default::default() }) }),
        }))
        .await
        .expect("add_statement mark");
        g.add_policy(tonic::Request::new(api::AddPolicyRequest { policy: Some(api::Policy { name: "p".into(), statements: vec![api::Statement { name: "drop-marked".into(), ..Default::default() }, api::Statement { name: "mark".into(), ..Default::default() }] }), refer_existing_statements: true })).await.expect("add_policy");
        g.add_policy_assignment(tonic::Request::new(api::AddPolicyAssignmentRequest { assignment: Some(assignment_msg("global", false)) })).await.expect("add_policy_assignment");
    }
    for i in 0..n_src + n_obs {
        t.connect(i, &pipe(2 * i), &pipe(2 * i + 1)).await;
    }
    t.settle().await;

    macro_rules! fail {
        ($class:expr, $($arg:tt)*) => {{
            let v = Violation::new(format!("C01/{}", $class), format!($($arg)*));
            if out.violate(&tol, v) { out.vtime_ms = t.now(); return out; }
        }};
    }

    let mut ops: Vec<Json> = case.get("ops").map(|o| o.arr().to_vec()).unwrap_or_default();
    ops.push(jarr!["check"]);
    let mut closed_window_changes = 0u64;
    for (opi, op) in ops.iter().enumerate() {
        let tag = op.at(0).as_str();
        if crate::verif_net::trace_on() {
            eprintln!("[trace] ---- op {} {}", opi, op.to_compact());
        }
        match tag {
            "ann" => {
                let s = op.at(1).as_usize() % n_src;
                let spec = RSpec::from_json(op.at(4));
                let role = t.nodes[s].cfg.role;
                if t.nodes[s].spk.established() {
                    let (fam, pfx) = fam_of(op.at(5));
                    let net = packet::PathNlri { path_id: op.at(3).as_u32(), nlri: pfx(op.at(2).as_u64()) };
                    let nh = if fam == Family::IPV6 { bgp::Nexthop::V6(Ipv6Addr::new(0x2001, 0xdb8, 0xffff, 0, 0, 0, 0, spec.nh as u16)) } else { spec.nexthop() };
                    t.nodes[s].spk.announce(fam, vec![net], Some(nh), spec.attrs(role));
                    out.hit("op.announce");
                    if (n_src..n_src + n_obs).any(|o| t.nodes[o].spk.conn.as_ref().map(|c| !c.ctl().window_open()).unwrap_or(false)) {
                        closed_window_changes += 1;
                    }
                    t.w.quiesce().await;
                }
            }
            "wd" => {
                let s = op.at(1).as_usize() % n_src;
                if t.nodes[s].spk.established() {
                    let (fam, pfx) = fam_of(op.at(4));
                    let net = packet::PathNlri { path_id: op.at(3).as_u32(), nlri: pfx(op.at(2).as_u64()) };
                    t.nodes[s].spk.withdraw(fam, vec![net]);
                    out.hit("op.withdraw");
                    if (n_src..n_src + n_obs).any(|o| t.nodes[o].spk.conn.as_ref().map(|c| !c.ctl().window_open()).unwrap_or(false)) {
                        closed_window_changes += 1;
                    }
                    t.w.quiesce().await;
                }
            }
            "ladd" => {
                // AddPath: what `gobgp global rib add` sends. A second AddPath for the same prefix and
                // identifier replaces the path (and the operator forgets the first uuid).
                let (fam, pfx) = fam_of(op.at(4));
                let spec = RSpec::from_json(op.at(3));
                let mut pattrs: Vec<api::Attribute> = spec.attrs(Role::Ibgp).iter().map(crate::convert::attr_to_api).collect();
                if spec.nh != 0 {
                    if fam == Family::IPV6 {
                        pattrs.push(api::Attribute { attr: Some(api::attribute::Attr::MpReach(api::MpReachNlriAttribute { family: Some(crate::convert::family_to_api(fam)), next_hops: vec![format!("2001:db8:ffff::{:x}", spec.nh)], nlris: vec![] })) });
                    } else {
                        pattrs.push(api::Attribute { attr: Some(api::attribute::Attr::NextHop(api::NextHopAttribute { next_hop: format!("192.0.2.{}", spec.nh) })) });
                    }
                } else if fam == Family::IPV6 {
                    pattrs.push(api::Attribute { attr: Some(api::attribute::Attr::MpReach(api::MpReachNlriAttribute { family: Some(crate::convert::family_to_api(fam)), next_hops: vec!["::".to_string()], nlris: vec![] })) });
                } else {
                    pattrs.push(api::Attribute { attr: Some(api::attribute::Attr::NextHop(api::NextHopAttribute { next_hop: "0.0.0.0".to_string() })) });
                }
                let path = api::Path { nlri: Some(crate::convert::nlri_to_api(&pfx(op.at(1).as_u64()))), family: Some(crate::convert::family_to_api(fam)), identifier: op.at(2).as_u32(), pattrs, ..Default::default() };
                match t.w.grpc.add_path(tonic::Request::new(api::AddPathRequest { table_type: api::TableType::Global as i32, vrf_id: String::new(), path: Some(path) })).await {
                    Ok(r) => {
                        let key = (fam_key(fam), op.at(1).as_u64(), op.at(2).as_u32());
                        if let Some(old) = local_uuid.insert(key, r.into_inner().uuid) {
                            // the handle of the replaced path is dropped the way a client drops it
                            let _ = old;
                        }
                        out.hit("op.local-path-added");
                    }
                    Err(e) => {
                        out.harness_error = Some(format!("AddPath refused: {}", e));
                        out.vtime_ms = t.now();
                        return out;
                    }
                }
                if (n_src..n_src + n_obs).any(|o| t.nodes[o].spk.conn.as_ref().map(|c| !c.ctl().window_open()).unwrap_or(false)) {
                    closed_window_changes += 1;
                }
                t.w.quiesce().await;
            }
            "ldel" => {
                let (fam, _) = fam_of(op.at(3));
                let key = (fam_key(fam), op.at(1).as_u64(), op.at(2).as_u32());
                if let Some(uuid) = local_uuid.remove(&key) {
                    if let Err(e) = t.w.grpc.delete_path(tonic::Request::new(api::DeletePathRequest { uuid, ..Default::default() })).await {
                        out.harness_error = Some(format!("DeletePath refused: {}", e));
                        out.vtime_ms = t.now();
                        return out;
                    }
                    out.hit("op.local-path-deleted");
                    if (n_src..n_src + n_obs).any(|o| t.nodes[o].spk.conn.as_ref().map(|c| !c.ctl().window_open()).unwrap_or(false)) {
                        closed_window_changes += 1;
                    }
                    t.w.quiesce().await;
                }
            }
            "nh" => {
                let k = op.at(1).as_u64() as u16;
                let addr = if op.at(3).as_bool() { IpAddr::V6(Ipv6Addr::new(0x2001, 0xdb8, 0xffff, 0, 0, 0, 0, k)) } else { IpAddr::V4(Ipv4Addr::new(192, 0, 2, k as u8)) };
                let reachable = op.at(2).as_bool();
                let _ = t.w.kernel_event_tx.send(kernel::KernelEvent::NexthopUpdate { addr, reachable });
                out.hit(if reachable { "fault.nexthop-reachable-report" } else { "fault.nexthop-unreachable-report" });
                if (n_src..n_src + n_obs).any(|o| t.nodes[o].spk.conn.as_ref().map(|c| !c.ctl().window_open()).unwrap_or(false)) {
                    closed_window_changes += 1;
                }
                t.w.quiesce().await;
            }
            "win" => {
                let o = n_src + op.at(1).as_usize() % n_obs;
                if let Some(c) = &t.nodes[o].spk.conn {
                    c.ctl().set_window(op.at(2).as_bool());
                    out.hit(if op.at(2).as_bool() { "fault.window-opened" } else { "fault.window-closed(back-pressure)" });
                }
                t.w.quiesce().await;
            }
            "wait" => {
                t.advance(op.at(1).as_u64()).await;
            }
            "settle" => {
                t.settle().await;
            }
            "down" => {
                let s = op.at(1).as_usize() % n_src;
                if t.nodes[s].spk.conn.is_some() {
                    if op.at(2).as_u64() == 0 {
                        t.nodes[s].spk.close();
                        out.hit("fault.source-fin");
                    } else {
                        t.nodes[s].spk.rst();
                        out.hit("fault.source-rst");
                    }
                    t.w.quiesce().await;
                }
            }
            "up" => {
                let s = op.at(1).as_usize() % n_src;
                if t.nodes[s].spk.conn.is_none() {
                    t.settle().await;
                    t.connect(s, &pipe(2 * s), &pipe(2 * s + 1)).await;
                    out.hit("op.source-reconnect");
                }
            }
            "bounce" => {
                // an observer's session ends and comes back with its receive window shut from the
                // moment it has answered the OPEN: the daemon's initial table dump for it stays queued
                // while the RIB keeps changing (dump and incremental changes meet in one flush)
                let o = n_src + op.at(1).as_usize() % n_obs;
                if t.nodes[o].spk.conn.is_some() {
                    t.nodes[o].spk.close();
                    t.settle().await;
                }
                let Topo { w, nodes, .. } = &mut t;
                nodes[o].spk.connect(w, &pipe(2 * o), &pipe(2 * o + 1));
                for _ in 0..20 {
                    t.w.quiesce().await;
                    let now = t.now();
                    t.nodes[o].spk.process_inbox(now);
                    if matches!(t.nodes[o].spk.state, SpkState::OpenConfirm | SpkState::Established) {
                        break;
                    }
                    tokio::time::sleep(Duration::from_millis(5)).await;
                }
                if let Some(c) = &t.nodes[o].spk.conn {
                    c.ctl().set_window(false);
                    out.hit("fault.window-closed-before-initial-dump");
                }
                t.w.quiesce().await;
            }
            "pol" => {
                // The operator adds or deletes a policy assignment through the gRPC handlers and issues
                // the soft reset that goes with it: 0 = global export (soft reset OUT towards every
                // observer), 1 = global import (soft reset IN for every source), 2 = the export policy
                // of one observer and of its twin (soft reset OUT towards that observer).
                let dir = op.at(1).as_u64();
                let on = op.at(2).as_bool();
                let import = dir == 1;
                let o = n_src + op.at(3).as_usize() % n_obs;
                let names: Vec<String> = if dir == 2 { vec![t.nodes[o].cfg.addr.to_string(), t.nodes[o + n_obs].cfg.addr.to_string()] } else { vec!["global".to_string()] };
                for name in &names {
                    if on {
                        let _ = t.w.grpc.add_policy_assignment(tonic::Request::new(api::AddPolicyAssignmentRequest { assignment: Some(assignment_msg(name, import)) })).await;
                    } else {
                        let _ = t.w.grpc.delete_policy_assignment(tonic::Request::new(api::DeletePolicyAssignmentRequest { assignment: Some(assignment_msg(name, import)), all: true })).await;
                    }
                }
                let targets: Vec<IpAddr> = match dir {
                    1 => (0..n_src).map(|i| t.nodes[i].cfg.addr).collect(),
                    2 => vec![t.nodes[o].cfg.addr],
                    _ => (n_src..n_src + n_obs).map(|i| t.nodes[i].cfg.addr).collect(),
                };
                for a in targets {
                    let req = api::ResetPeerRequest { address: a.to_string(), soft: true, direction: if import { api::reset_peer_request::Direction::In as i32 } else { api::reset_peer_request::Direction::Out as i32 }, ..Default::default() };
                    let _ = t.w.grpc.reset_peer(tonic::Request::new(req)).await;
                }
                out.hit(match dir {
                    1 => "op.import-policy-switched+soft-reset-in",
                    2 => "op.neighbour-export-policy-switched+soft-reset-out",
                    _ => "op.export-policy-switched+soft-reset-out",
                });
                t.w.quiesce().await;
            }
            "rr" => {
                let o = n_src + op.at(1).as_usize() % n_obs;
                if t.nodes[o].spk.established() {
                    let fam = if v6 && opi % 2 == 1 { Family::IPV6 } else { Family::IPV4 };
                    t.nodes[o].spk.send(&bgp::Message::RouteRefresh { family: fam });
                    out.hit("op.route-refresh");
                    t.w.quiesce().await;
                }
            }
            "check" => {
                for o in n_src..n_src + n_obs {
                    if let Some(c) = &t.nodes[o].spk.conn {
                        c.ctl().set_window(true);
                    }
                }
                t.settle().await;
                t.advance(50).await;
                for o in n_src..n_src + n_obs {
                    if !t.nodes[o].spk.established() {
                        out.hit("probe.observer-session-not-up-at-check");
                        continue;
                    }
                    let tw = o + n_obs;
                    t.connect(tw, &PipeOpts::default(), &PipeOpts::default()).await;
                    for _ in 0..20 {
                        if families.iter().all(|f| t.nodes[tw].spk.eor_seen.contains(&fam_key(*f))) {
                            break;
                        }
                        t.advance(10).await;
                    }
                    if !families.iter().all(|f| t.nodes[tw].spk.eor_seen.contains(&fam_key(*f))) {
                        out.harness_error = Some(format!("twin {} never received End-of-RIB (state {:?})", tw, t.nodes[tw].spk.state));
                        out.vtime_ms = t.now();
                        return out;
                    }
                    t.settle().await;
                    let mo = t.mirror_canon(o);
                    let mt = t.mirror_canon(tw);
                    out.hit("probe.check-performed");
                    if !mt.is_empty() {
                        out.hit("probe.check-with-non-empty-view");
                        out.nontrivial = true;
                    }
                    let kind = if t.nodes[o].cfg.send_max > 1 { "addpath" } else { "plain" };
                    if mo != mt {
                        let extra: Vec<_> = mo.keys().filter(|k| !mt.contains_key(*k)).collect();
                        let missing: Vec<_> = mt.keys().filter(|k| !mo.contains_key(*k)).collect();
                        let differ: Vec<_> = mo.iter().filter(|(k, v)| mt.get(*k).is_some_and(|x| x != *v)).map(|(k, _)| k).collect();
                        let class = if !extra.is_empty() {
                            "withdraw-lost/observer-keeps-route-a-new-session-would-not-get"
                        } else if !missing.is_empty() {
                            "route-missing/observer-lacks-route-a-new-session-gets"
                        } else {
                            "attrs-differ/observer-holds-other-attributes-than-a-new-session-gets"
                        };
                        let d0 = differ.first().map(|k| format!("{:?}: observer {:?} twin {:?}", k, mo.get(*k), mt.get(*k))).unwrap_or_default();
                        fail!(format!("{}/{}", class, kind), "op {} (check): observer {} role {} send-max {}: extra {:?} missing {:?} differ {} [{}]", opi, o - n_src,
                            t.nodes[o].cfg.role.name(), t.nodes[o].cfg.send_max, extra, missing, differ.len(), d0);
                        // tolerated: resynchronise by adopting the twin's view
                        let Topo { nodes, .. } = &mut t;
                        let tm = nodes[tw].spk.mirror.clone();
                        nodes[o].spk.mirror = tm;
                    }
                    t.nodes[tw].spk.close();
                    t.settle().await;
                }
                if t.collect_speaker_errors(&mut out, "C01", &tol) {
                    out.vtime_ms = t.now();
                    return out;
                }
            }
            _ => {}
        }
    }
    if closed_window_changes > 0 {
        out.count("probe.rib-change-while-observer-window-closed", closed_window_changes);
        out.nontrivial = true;
    }
    out.vtime_ms = t.now();
    out
}
