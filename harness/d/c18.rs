//! C18 / C19 (tier D) — monitoring stations against the whole daemon.
//!
//! The real `BmpClient` (try_connect / serve, its subscription, snapshot fold and live loop) runs
//! inside the simulated daemon and connects to scripted BMP stations over the simulated transport
//! (latency, fragmentation, small windows, a station that stalls, closes or resets).  Stations are
//! added and removed through the gRPC handlers at arbitrary points of a history of real sessions
//! (announce / withdraw / drop by FIN, RST or NOTIFICATION / graceful restart / End-of-RIB), with
//! bursts that are not allowed to settle, so that the subscription lands in the middle of update
//! streams.  Each station is an independent RFC 7854 reader.
//!
//! C18 (fold, pairing): at every quiescent point a station that has caught up knows exactly the
//! peers that are established, and the route-monitoring records it folded per (peer, prefix,
//! path-id) equal the pre-policy / post-policy Adj-RIB-In of the RIB; PeerDown only after PeerUp.
//! C19 (records): every record is well-formed (common header length, per-peer header address
//! family flag, exactly one BGP PDU where one belongs, OPENs and UPDATEs that parse with the
//! add-path setting derived from the PeerUp), and a PeerUp carries the OPENs that were exchanged.
//! The same scenario serves both properties; each instance judges its own classes only.

use super::super::*;
use super::c01::{gen_rspec, node_from_json, node_json, RSpec};
use super::c08::fix_task_panic;
use super::speaker::*;
use super::topo::*;
use super::world::*;
use crate::verif_net::{Frag, PipeOpts, TcpStream as SimStream};
use bytes::BytesMut;
use std::collections::{BTreeMap, BTreeSet};
use vcore::{jarr, jobj, Check, CheckInfo, Json, Outcome, Rng, Tolerate, Violation};

pub(crate) struct Monitoring {
    pub prop: &'static str,
}

const FAMS: [Family; 2] = [Family::IPV4, Family::IPV6];

fn prefix(fam: usize, idx: u64) -> packet::Nlri {
    if fam == 0 {
        v4_prefix(idx)
    } else {
        v6_prefix(idx)
    }
}

type RKey = (IpAddr, u32, String, u32); // peer, family, nlri, path id
type RVal = (String, Option<bgp::Nexthop>);

fn rval(attrs: &[packet::Attribute], nh: Option<bgp::Nexthop>) -> RVal {
    let mut a: Vec<&packet::Attribute> = attrs.iter().collect();
    a.sort_by_key(|x| x.code());
    (a.iter().map(|x| format!("{:?}", x)).collect::<Vec<_>>().join(","), nh)
}

struct PeerView {
    /// families on which the DUT receives add-path from this peer (derived from the PeerUp OPENs)
    addpath_rx: BTreeSet<u32>,
    addpath_tx: BTreeSet<u32>,
}

struct Station {
    addr: SocketAddr,
    policy: u8, // 0 pre, 1 post, 2 both, 3 local, 4 all
    listener: Option<mpsc::UnboundedReceiver<SimStream>>,
    conn: Option<SimStream>,
    rx: Vec<u8>,
    configured: bool,
    initiated: bool,
    broken: bool,
    stalled: bool,
    up: BTreeMap<IpAddr, PeerView>,
    pre: BTreeMap<RKey, RVal>,
    post: BTreeMap<RKey, RVal>,
    /// Adj-RIB-Out post-policy per peer (RFC 8671)
    out_post: BTreeMap<RKey, RVal>,
    /// peers whose session came up while this connection was already being served (their
    /// Adj-RIB-Out is monitored from the first advertisement on)
    saw_peer_up_live: BTreeSet<IpAddr>,
    /// set once a route-monitoring record or an end of the initial burst has been seen
    past_initial_burst: bool,
    records: u64,
    connections: u64,
    /// (class, detail): C18/... and C19/... findings of the reader
    findings: Vec<(String, String)>,
    counters: BTreeMap<String, u64>,
}

fn be16(b: &[u8]) -> usize {
    u16::from_be_bytes([b[0], b[1]]) as usize
}
fn be32(b: &[u8]) -> u32 {
    u32::from_be_bytes([b[0], b[1], b[2], b[3]])
}

/// Split a byte string into whole BGP PDUs; Err when the marker / length fields do not tile it.
fn split_pdus(b: &[u8]) -> Result<Vec<&[u8]>, String> {
    let mut v = Vec::new();
    let mut i = 0;
    while i < b.len() {
        if b.len() - i < 19 {
            return Err(format!("{} trailing bytes are too short for a BGP header", b.len() - i));
        }
        if b[i..i + 16].iter().any(|x| *x != 0xff) {
            return Err(format!("no BGP marker at offset {}", i));
        }
        let l = be16(&b[i + 16..]);
        if l < 19 || i + l > b.len() {
            return Err(format!("BGP length {} at offset {} does not fit the {} bytes left", l, i, b.len() - i));
        }
        v.push(&b[i..i + l]);
        i += l;
    }
    Ok(v)
}

fn parse_pdu(pdu: &[u8], addpath_rx: &BTreeSet<u32>) -> Result<Vec<bgp::Message>, String> {
    let mut codec = bgp::PeerCodec::new();
    for f in FAMS {
        codec.set_family(f, bgp::FamilyState { addpath_rx: addpath_rx.contains(&fam_key(f)), addpath_tx: false });
    }
    let mut b = BytesMut::from(pdu);
    match codec.try_parse(&mut b) {
        Ok(Some(p)) => {
            if !b.is_empty() {
                return Err(format!("parser left {} bytes of the PDU unread", b.len()));
            }
            bgp::validate_message(p, false).map(|it| it.collect()).map_err(|n| format!("validate_message: {:?}", n))
        }
        Ok(None) => Err("parser wants more bytes than the PDU holds".into()),
        Err(n) => Err(format!("parser rejects the PDU: {:?}", n)),
    }
}

struct Expect<'a> {
    dut_as: u32,
    dut_rid: u32,
    /// per configured peer: (what the DUT sent on the wire to it, what it sent) in the current session
    opens: &'a BTreeMap<IpAddr, (Option<bgp::Open>, bgp::Open, u32)>,
}

impl Station {
    fn new(addr: SocketAddr, policy: u8) -> Station {
        Station {
            addr,
            policy,
            listener: None,
            conn: None,
            rx: Vec::new(),
            configured: false,
            initiated: false,
            broken: false,
            stalled: false,
            up: BTreeMap::new(),
            pre: BTreeMap::new(),
            post: BTreeMap::new(),
            out_post: BTreeMap::new(),
            saw_peer_up_live: BTreeSet::new(),
            past_initial_burst: false,
            records: 0,
            connections: 0,
            findings: Vec::new(),
            counters: BTreeMap::new(),
        }
    }
    fn hit(&mut self, k: &str) {
        *self.counters.entry(k.to_string()).or_insert(0) += 1;
    }
    fn find(&mut self, class: &str, detail: String) {
        if !self.findings.iter().any(|(c, _)| c == class) {
            self.findings.push((class.to_string(), detail));
        }
    }
    fn reset_session(&mut self) {
        self.rx.clear();
        self.initiated = false;
        self.broken = false;
        self.up.clear();
        self.pre.clear();
        self.post.clear();
        self.out_post.clear();
        self.saw_peer_up_live.clear();
        self.past_initial_burst = false;
    }
    fn wants_pre(&self) -> bool {
        matches!(self.policy, 0 | 2 | 4)
    }
    fn wants_post(&self) -> bool {
        matches!(self.policy, 1 | 2 | 4)
    }
    /// connected, greeted, reading, nothing on the way
    fn caught_up(&self) -> bool {
        self.configured && !self.stalled && !self.broken && self.initiated && self.conn.as_ref().is_some_and(|c| !c.ctl().in_flight() && !c.ctl().peer_closed())
    }

    fn drain(&mut self, ex: &Expect) -> usize {
        if let Some(c) = &self.conn {
            if c.ctl().peer_closed() && c.ctl().pending_rx() == 0 {
                self.conn = None;
                self.reset_session();
                self.hit("station.connection-closed-by-dut");
            }
        }
        if self.conn.is_none() {
            if let Some(l) = &mut self.listener {
                if let Ok(s) = l.try_recv() {
                    self.conn = Some(s);
                    self.connections += 1;
                    self.reset_session();
                    self.hit("station.connection-accepted");
                }
            }
        }
        if self.stalled {
            return 0;
        }
        let Some(c) = &self.conn else { return 0 };
        let data = c.read_available();
        self.rx.extend_from_slice(&data);
        let mut n = 0;
        while !self.broken && self.rx.len() >= 6 {
            let ver = self.rx[0];
            let len = be32(&self.rx[1..5]) as usize;
            let typ = self.rx[5];
            if ver != 3 || len < 6 || typ > 6 {
                self.find("C19/bmp/common-header", format!("station {}: version {} length {} type {} at a record boundary", self.addr, ver, len, typ));
                self.broken = true;
                break;
            }
            if self.rx.len() < len {
                break;
            }
            let rec: Vec<u8> = self.rx.drain(..len).collect();
            n += 1;
            self.records += 1;
            self.record(&rec, ex);
        }
        n
    }

    fn per_peer(&mut self, rec: &[u8]) -> Option<(u8, u8, IpAddr, u32, u32)> {
        if rec.len() < 6 + 42 {
            self.find("C19/bmp/per-peer-header/truncated", format!("record type {} has {} bytes, a per-peer header needs 48", rec[5], rec.len()));
            return None;
        }
        let h = &rec[6..48];
        let (ptype, flags) = (h[0], h[1]);
        let a = &h[10..26];
        let v6 = flags & 0x80 != 0;
        let addr = if v6 {
            let mut o = [0u8; 16];
            o.copy_from_slice(a);
            IpAddr::V6(Ipv6Addr::from(o))
        } else {
            if a[..12].iter().any(|x| *x != 0) {
                self.find("C19/bmp/per-peer-header/address-family-flag", format!("V flag clear but the address field is {:02x?}", a));
            }
            IpAddr::V4(Ipv4Addr::new(a[12], a[13], a[14], a[15]))
        };
        if v6 && a[..12].iter().all(|x| *x == 0) && ptype != 3 {
            self.find("C19/bmp/per-peer-header/address-family-flag", format!("V flag set but the address field holds an IPv4-style value {:02x?}", a));
        }
        if ptype > 3 {
            self.find("C19/bmp/per-peer-header/peer-type", format!("peer type {}", ptype));
        }
        Some((ptype, flags, addr, be32(&h[26..30]), be32(&h[30..34])))
    }

    fn record(&mut self, rec: &[u8], ex: &Expect) {
        let typ = rec[5];
        if std::env::var("VERIF_DEBUG").is_ok() {
            eprintln!("station {} record type {} len {}: {:02x?}", self.addr, typ, rec.len(), &rec[..rec.len().min(160)]);
        }
        if !self.initiated && typ != 4 {
            self.find("C19/bmp/initiation-not-first", format!("first record of the connection has type {}", typ));
        }
        match typ {
            4 => {
                self.initiated = true;
                let mut i = 6;
                while i < rec.len() {
                    if rec.len() - i < 4 || i + 4 + be16(&rec[i + 2..]) > rec.len() {
                        self.find("C19/bmp/initiation/tlv-overruns", format!("TLV at offset {} of a {}-byte record", i, rec.len()));
                        break;
                    }
                    i += 4 + be16(&rec[i + 2..]);
                }
                self.hit("record.initiation");
            }
            0 => {
                let Some((ptype, flags, addr, _asn, _id)) = self.per_peer(rec) else { return };
                self.hit("record.route-monitoring");
                self.past_initial_burst = true;
                let body = &rec[48..];
                let pdus = match split_pdus(body) {
                    Ok(p) => p,
                    Err(e) => {
                        self.find("C19/bmp/route-monitoring/pdu-framing", format!("peer {}: {}", addr, e));
                        return;
                    }
                };
                if pdus.len() != 1 {
                    self.find("C19/bmp/route-monitoring/not-one-update", format!("peer {}: the record holds {} BGP PDUs (RFC 7854 4.6: one UPDATE)", addr, pdus.len()));
                }
                let adj_out = flags & 0x10 != 0;
                let is_post = flags & 0x40 != 0;
                if ptype == 0 && !adj_out && !self.up.contains_key(&addr) {
                    self.find("C18/pairing/route-monitoring-without-peer-up", format!("station {}: route monitoring for {} which has not been reported up", self.addr, addr));
                }
                let none = BTreeSet::new();
                let ap = match self.up.get(&addr) {
                    Some(v) if ptype == 0 => {
                        if adj_out {
                            v.addpath_tx.clone()
                        } else {
                            v.addpath_rx.clone()
                        }
                    }
                    _ => none,
                };
                for pdu in pdus {
                    if pdu[18] != 2 {
                        self.find("C19/bmp/route-monitoring/not-an-update", format!("peer {}: embedded PDU type {}", addr, pdu[18]));
                        continue;
                    }
                    let msgs = match parse_pdu(pdu, &ap) {
                        Ok(m) => m,
                        Err(e) => {
                            self.find("C19/bmp/route-monitoring/update-does-not-parse", format!("peer {} (add-path {:?}): {}; PDU {:02x?}", addr, ap, e, &pdu[..pdu.len().min(80)]));
                            continue;
                        }
                    };
                    if ptype != 0 || (adj_out && !is_post) {
                        continue;
                    }
                    // Adj-RIB-Out post-policy (RFC 8671): what the router says it advertised to the peer
                    let m = if adj_out { &mut self.out_post } else if is_post { &mut self.post } else { &mut self.pre };
                    for msg in msgs {
                        if let bgp::Message::Update(u) = msg {
                            match u {
                                bgp::Update::Reach { family, entries, nexthop, attr } => {
                                    for e in entries {
                                        m.insert((addr, fam_key(family), format!("{:?}", e.nlri), e.path_id), rval(&attr, nexthop));
                                    }
                                }
                                bgp::Update::Unreach { family, entries } => {
                                    for e in entries {
                                        m.remove(&(addr, fam_key(family), format!("{:?}", e.nlri), e.path_id));
                                    }
                                }
                                bgp::Update::EndOfRib(_) => {}
                            }
                        }
                    }
                }
            }
            3 => {
                let Some((ptype, _flags, addr, asn, id)) = self.per_peer(rec) else { return };
                self.hit("record.peer-up");
                if rec.len() < 48 + 20 {
                    self.find("C19/bmp/peer-up/truncated", format!("peer {}: {} bytes", addr, rec.len()));
                    return;
                }
                let pdus_and_tlvs = &rec[68..];
                // two OPENs, then optional information TLVs
                let mut opens: Vec<bgp::Open> = Vec::new();
                let mut i = 0;
                for which in ["sent", "received"] {
                    let b = &pdus_and_tlvs[i..];
                    if b.len() < 19 || b[..16].iter().any(|x| *x != 0xff) || be16(&b[16..]) < 19 || be16(&b[16..]) > b.len() || b[18] != 1 {
                        self.find("C19/bmp/peer-up/open-framing", format!("peer {}: the {} OPEN is not a whole OPEN PDU ({} bytes left)", addr, which, b.len()));
                        return;
                    }
                    let l = be16(&b[16..]);
                    match parse_pdu(&b[..l], &BTreeSet::new()) {
                        Ok(mut m) => match m.pop() {
                            Some(bgp::Message::Open(o)) => opens.push(o),
                            _ => {
                                self.find("C19/bmp/peer-up/open-does-not-parse", format!("peer {}: {} OPEN parsed to something else", addr, which));
                                return;
                            }
                        },
                        Err(e) => {
                            self.find("C19/bmp/peer-up/open-does-not-parse", format!("peer {}: {} OPEN: {}", addr, which, e));
                            return;
                        }
                    }
                    i += l;
                }
                let mut j = i;
                while j < pdus_and_tlvs.len() {
                    if pdus_and_tlvs.len() - j < 4 || j + 4 + be16(&pdus_and_tlvs[j + 2..]) > pdus_and_tlvs.len() {
                        self.find("C19/bmp/peer-up/trailing-bytes", format!("peer {}: {} bytes after the two OPENs are not information TLVs", addr, pdus_and_tlvs.len() - i));
                        break;
                    }
                    j += 4 + be16(&pdus_and_tlvs[j + 2..]);
                }
                if ptype == 3 {
                    return; // Loc-RIB instance peer
                }
                if self.up.contains_key(&addr) {
                    self.hit("probe.peer-up-repeated-without-peer-down");
                }
                // content: the OPENs that were exchanged on the session
                let (sent, recv) = (&opens[0], &opens[1]);
                let cap_str = |c: &[packet::Capability]| {
                    let mut v: Vec<String> = c.iter().map(|x| format!("{:?}", x)).collect();
                    v.sort();
                    v
                };
                if let Some((dut_open, spk_open, spk_rid)) = ex.opens.get(&addr) {
                    if recv.as_number != spk_open.as_number || recv.router_id != spk_open.router_id || format!("{:?}", recv.holdtime) != format!("{:?}", spk_open.holdtime) || cap_str(&recv.capability) != cap_str(&spk_open.capability) {
                        self.find("C19/bmp/peer-up/received-open-content", format!("peer {}: the record says AS {} id {:#x} hold {:?} caps {:?}; the peer sent AS {} id {:#x} hold {:?} caps {:?}", addr, recv.as_number, recv.router_id, recv.holdtime, cap_str(&recv.capability), spk_open.as_number, spk_open.router_id, spk_open.holdtime, cap_str(&spk_open.capability)));
                    }
                    if let Some(d) = dut_open {
                        if sent.as_number != d.as_number || sent.router_id != d.router_id || format!("{:?}", sent.holdtime) != format!("{:?}", d.holdtime) || cap_str(&sent.capability) != cap_str(&d.capability) {
                            self.find("C19/bmp/peer-up/sent-open-content", format!("peer {}: the record says the router sent AS {} id {:#x} hold {:?} caps {:?}; on the wire it sent AS {} id {:#x} hold {:?} caps {:?}", addr, sent.as_number, sent.router_id, sent.holdtime, cap_str(&sent.capability), d.as_number, d.router_id, d.holdtime, cap_str(&d.capability)));
                        }
                    } else if sent.as_number != ex.dut_as || sent.router_id != ex.dut_rid {
                        self.find("C19/bmp/peer-up/sent-open-content", format!("peer {}: sent OPEN AS {} id {:#x}, the router is AS {} id {:#x}", addr, sent.as_number, sent.router_id, ex.dut_as, ex.dut_rid));
                    }
                    if asn != spk_open.as_number || id != *spk_rid {
                        self.find("C19/bmp/per-peer-header/peer-identity", format!("peer {}: header AS {} id {:#x}; the peer is AS {} id {:#x}", addr, asn, id, spk_open.as_number, spk_rid));
                    }
                }
                let modes = |o: &bgp::Open, bit: u8| -> BTreeSet<u32> {
                    let mut s = BTreeSet::new();
                    for c in &o.capability {
                        if let packet::Capability::AddPath(v) = c {
                            for (f, m) in v {
                                if m & bit != 0 {
                                    s.insert(fam_key(*f));
                                }
                            }
                        }
                    }
                    s
                };
                // DUT receives add-path: it advertised "receive" (1) and the peer "send" (2)
                let rx: BTreeSet<u32> = modes(sent, 1).intersection(&modes(recv, 2)).cloned().collect();
                let tx: BTreeSet<u32> = modes(sent, 2).intersection(&modes(recv, 1)).cloned().collect();
                if self.past_initial_burst {
                    self.saw_peer_up_live.insert(addr);
                }
                self.up.insert(addr, PeerView { addpath_rx: rx, addpath_tx: tx });
            }
            2 => {
                let Some((ptype, _flags, addr, _asn, _id)) = self.per_peer(rec) else { return };
                self.hit("record.peer-down");
                let body = &rec[48..];
                if body.is_empty() {
                    self.find("C19/bmp/peer-down/no-reason", format!("peer {}", addr));
                    return;
                }
                let ok = match body[0] {
                    1 | 3 => matches!(split_pdus(&body[1..]), Ok(p) if p.len() == 1 && p[0][18] == 3),
                    2 => body.len() == 3,
                    4 | 5 => body.len() == 1,
                    _ => false,
                };
                if !ok {
                    self.find("C19/bmp/peer-down/reason-data", format!("peer {}: reason {} with {} data bytes {:02x?}", addr, body[0], body.len() - 1, &body[1..body.len().min(40)]));
                }
                if ptype == 3 {
                    return;
                }
                if self.up.remove(&addr).is_none() {
                    self.find("C18/pairing/peer-down-without-peer-up", format!("station {}: PeerDown for {} which had not been reported up on this connection", self.addr, addr));
                }
                self.pre.retain(|k, _| k.0 != addr);
                self.post.retain(|k, _| k.0 != addr);
                self.out_post.retain(|k, _| k.0 != addr);
                self.saw_peer_up_live.remove(&addr);
                self.past_initial_burst = true;
            }
            _ => {
                self.hit("record.other");
            }
        }
    }
}

fn import_policy() -> Arc<table::PolicyAssignment> {
    let mut pt = table::PolicyTable::new();
    pt.add_defined_set(table::DefinedSetConfig::Prefix { name: "deny".into(), prefixes: vec![table::PrefixConfig { ip_prefix: "10.1.0.0/24".into(), mask_length_min: 24, mask_length_max: 24 }, table::PrefixConfig { ip_prefix: "2001:db8:1::/48".into(), mask_length_min: 48, mask_length_max: 48 }] }).unwrap();
    pt.add_statement("deny", vec![table::ConditionConfig::PrefixSet("deny".into(), table::MatchOption::Any)], Some(table::Disposition::Reject), table::Actions::default()).unwrap();
    let mut a = table::Actions::default();
    a.med = Some(table::MedAction { action_type: table::MedActionType::Replace, value: 77 });
    a.community = Some(table::CommunityAction { action_type: table::CommunityActionType::Add, communities: vec![0xfde8_0064] });
    pt.add_statement("mark", vec![], None, a).unwrap();
    pt.add_policy("p", vec!["deny".into(), "mark".into()]).unwrap();
    pt.add_assignment("global", table::PolicyDirection::Import, table::Disposition::Accept, vec!["p".into()]).unwrap().1
}

impl Check for Monitoring {
    fn property(&self) -> &'static str {
        self.prop
    }
    fn tier(&self) -> &'static str {
        "D"
    }
    fn name(&self) -> &'static str {
        "bmp-stations"
    }

    fn generate(&self, seed: u64, thorough: bool) -> Json {
        let mut rng = Rng::new(seed);
        let n_nodes = rng.range(1, 3) as usize;
        let n_st = rng.range(1, 2);
        let mut nodes = Vec::new();
        for i in 0..n_nodes {
            let role = *rng.pick(&[Role::Ebgp, Role::Ebgp, Role::Ibgp]);
            let n = NodeCfg {
                role,
                addr: IpAddr::V4(Ipv4Addr::new(10, 0, 1, i as u8 + 1)),
                asn: asn_for(role, i),
                rid: 0,
                send_max: if rng.chance(1, 5) { 2 } else { 1 },
                addpath_rx: rng.chance(1, 3),
                gr: if rng.chance(1, 3) { Some((*rng.pick(&[5u16, 30]), rng.coin())) } else { None },
                llgr: None,
                prefix_limit: None,
                ext_msg: rng.chance(1, 4),
            };
            let mut j = node_json(&n);
            j.set("v6peer", Json::from(i == 2 && rng.chance(1, 2)));
            nodes.push(j);
        }
        let stations: Vec<Json> = (0..n_st).map(|_| Json::from(*rng.pick(&[0u64, 0, 1, 2, 2, 4, 3]))).collect();
        let n = rng.range(8, if thorough { 60 } else { 32 });
        let mut ops: Vec<Json> = Vec::new();
        // most histories start with sessions up and some routes, then a station arrives
        for i in 0..n_nodes {
            if rng.chance(4, 5) {
                ops.push(jarr!["up", i as u64, 0u64]);
            }
        }
        for _ in 0..n {
            let burst = if rng.chance(1, 3) { 1u64 } else { 0 };
            let i = rng.below(n_nodes as u64);
            match rng.weighted(&[34, 12, 7, 7, 4, 6, 8, 3, 3, 2, 3, 2, 4]) {
                12 => ops.push(jarr!["local", 0u64, burst, rng.below(2), rng.below(5), rng.chance(2, 3)]),
                0 => {
                    let role = Role::from_u(nodes[i as usize].i("role", 0) as u64);
                    let spec = gen_rspec(&mut rng, role, asn_for(role, i as usize));
                    ops.push(jarr!["ann", i, burst, rng.below(2), rng.below(5), if rng.chance(1, 3) { rng.range(1, 2) } else { 0 }, spec.to_json()]);
                }
                1 => ops.push(jarr!["wd", i, burst, rng.below(2), rng.below(5), if rng.chance(1, 3) { rng.range(1, 2) } else { 0 }]),
                2 => ops.push(jarr!["down", i, burst, *rng.pick(&["fin", "rst", "notif-cease", "notif-other", "dut-reset"])]),
                3 => ops.push(jarr!["up", i, burst]),
                4 => ops.push(jarr!["eor", i, burst, rng.below(2)]),
                5 => ops.push(jarr!["wait", 0u64, 0u64, *rng.pick(&[100u64, 3000, 6000, 11000, 31000])]),
                6 => ops.push(jarr!["bmp-add", rng.below(n_st), burst]),
                7 => ops.push(jarr!["bmp-del", rng.below(n_st), burst]),
                8 => ops.push(jarr!["st-close", rng.below(n_st), burst]),
                9 => ops.push(jarr!["st-rst", rng.below(n_st), burst]),
                10 => ops.push(jarr!["st-stall", rng.below(n_st), burst, 1u64]),
                _ => ops.push(jarr!["st-stall", rng.below(n_st), burst, 0u64]),
            }
        }
        // faults stop: stations read again, one more subscription from scratch, everything settles
        for s in 0..n_st {
            ops.push(jarr!["st-stall", s, 0u64, 0u64]);
            ops.push(jarr!["bmp-add", s, 0u64]);
        }
        ops.push(jarr!["wait", 0u64, 0u64, 12000u64]);
        let lat = rng.chance(1, 2);
        let frag = rng.chance(1, 2);
        jobj! {
            "nodes" => Json::Arr(nodes), "stations" => Json::Arr(stations), "shards" => rng.range(1, 3), "policy" => rng.below(2), "hold" => *rng.pick(&[0u64, 30, 90]),
            "bmp_pipe" => pipe_opts_to_json(&pipe_opts(&mut rng, lat, frag)), "sub" => rng.next_u64() >> 1, "ops" => Json::Arr(ops)
        }
    }

    fn execute(&self, case: &Json, tol: &Tolerate) -> Outcome {
        let case = case.clone();
        let tol = tol.clone();
        let prop = self.prop;
        let mut out = run_sim(case.i("sub", 1) as u64, move || run(case, tol, prop));
        fix_task_panic(&mut out, self.prop);
        out
    }

    fn info(&self) -> CheckInfo {
        CheckInfo {
            rule: "1-3 real sessions (eBGP / iBGP, optional add-path in either direction, optional graceful restart, extended messages, optionally an IPv6 transport peer) announcing and withdrawing IPv4 / IPv6 prefixes with several path ids, dropping by FIN, RST, NOTIFICATION or operator reset and coming back, End-of-RIB, routes originated and deleted by the operator, waits across the restart timer and the BMP reconnect delay; 1-2 BMP stations (policy pre / post / both / local / all) added and deleted through the gRPC handlers at arbitrary points, also inside bursts of updates that are not allowed to settle; in half of the runs a task that has just acquired the daemon's global lock yields once with a seeded probability (10% or 40%), which lets other tasks run where the multi-threaded runtime would let them run on another core; the station connection has seeded latency, fragmentation and a small window, and the station may stall (stop reading), close or reset. At each quiescent point a station that has caught up is compared with the RIB. non-trivial = a caught-up station was compared for at least one peer with routes; distinct = transport event signature".into(),
            components_real: vec![
                "BmpClient::{try_connect, serve} with its subscription, fold_snapshot_event, flush_peer_snapshot, live loop, track_peer_up/down; GrpcService::{add_bmp, delete_bmp}".into(),
                "packet::bmp::BmpCodec / PerPeerHeader / PeerDownReason and the embedded bgp::PeerCodec".into(),
                "TableManager::{subscribe, insert_route, remove_route, unregister_peer, drop_stale_families, peer_up, peer_down}; real sessions (on_established, apply_disconnect)".into(),
            ],
            components_stubbed: vec!["TCP, clock, the peers and the stations (scripted actors); hostname lookup is the real call".into()],
            assumptions: vec![
                "a station discards a peer's routes at PeerDown (RFC 7854 4.9), so routes retained as stale for a restarting peer may be unknown to it; nothing it knows may be absent from the RIB".into(),
                "one UPDATE PDU per route-monitoring record is demanded (RFC 7854 4.6)".into(),
                "the add-path setting of a record is derived from the OPENs of the PeerUp, as RFC 7854 intends".into(),
            ],
            bounds: "<=60 ops, <=3 peers, <=2 stations, 5 prefixes per family, path ids 0-2".into(),
        }
    }
}

async fn settle_all(t: &mut Topo, st: &mut [Station], opens: &BTreeMap<IpAddr, (Option<bgp::Open>, bgp::Open, u32)>) {
    // A station that reads is drained until the daemon has nothing more for it: the connection may
    // be slow (latency, a window of a few hundred bytes) and the backlog of a stalled station long, so
    // "nothing arrived and nothing is in flight" must hold across a whole round trip, twice in a row,
    // before the stations count as caught up.
    let rtt = crate::verif_net::with_net(|n| n.connect_opts.latency_ms + n.connect_opts.jitter_ms) + 6;
    let mut idle = 0;
    for _ in 0..20_000 {
        t.settle().await;
        // keep the expectation current: what the DUT sent on the wire in the session that is up
        let mut opens = opens.clone();
        for n in &t.nodes {
            if let Some(e) = opens.get_mut(&n.cfg.addr) {
                e.0 = n.spk.dut_open.clone();
            }
        }
        let ex = Expect { dut_as: DUT_AS, dut_rid: u32::from(Ipv4Addr::new(10, 0, 0, 254)), opens: &opens };
        let mut n = 0;
        let mut in_flight = false;
        for s in st.iter_mut() {
            n += s.drain(&ex);
            if let Some(c) = &s.conn {
                in_flight |= !s.stalled && c.ctl().in_flight();
            }
        }
        if n == 0 && !in_flight {
            idle += 1;
            if idle >= 2 {
                break;
            }
            tokio::time::sleep(Duration::from_millis(rtt)).await;
        } else {
            idle = 0;
            tokio::time::sleep(Duration::from_millis(5)).await;
        }
    }
}

async fn run(case: Json, tol: Tolerate, prop: &'static str) -> Outcome {
    let mut out = Outcome::default();
    let node_js: Vec<Json> = case.get("nodes").map(|s| s.arr().to_vec()).unwrap_or_default();
    if node_js.is_empty() {
        return out;
    }
    let hold = case.i("hold", 0) as u64;
    let nodes: Vec<NodeCfg> = node_js
        .iter()
        .enumerate()
        .map(|(i, j)| {
            let v6 = j.get("v6peer").map(|b| b.as_bool()).unwrap_or(false);
            let addr = if v6 { "2001:db8:0:1::9".parse().unwrap() } else { IpAddr::V4(Ipv4Addr::new(10, 0, 1, i as u8 + 1)) };
            node_from_json(j, addr, i)
        })
        .collect();
    let mut wcfg = WorldCfg::default();
    wcfg.shards = case.i("shards", 1) as usize;
    let mut t = Topo::new(&wcfg, nodes, FAMS.to_vec(), hold).await;
    if case.i("policy", 0) != 0 {
        t.w.tables.import_policy.store(Some(import_policy()));
    }
    let bmp_pipe = pipe_opts_from_json(case.get("bmp_pipe").unwrap_or(&Json::Null));
    crate::verif_net::with_net(|n| n.connect_opts = bmp_pipe.clone());
    let mut st: Vec<Station> = case
        .get("stations")
        .map(|s| s.arr().to_vec())
        .unwrap_or_default()
        .iter()
        .enumerate()
        .map(|(i, p)| Station::new(SocketAddr::new(IpAddr::V4(Ipv4Addr::new(10, 9, 0, i as u8 + 1)), 11019), p.as_u8()))
        .collect();
    let mut opens: BTreeMap<IpAddr, (Option<bgp::Open>, bgp::Open, u32)> = BTreeMap::new();
    for n in &t.nodes {
        if let bgp::Message::Open(o) = n.spk.open_msg() {
            opens.insert(n.cfg.addr, (None, o, n.spk.rid));
        }
    }
    let mut compared = false;

    let ops: Vec<Json> = case.get("ops").map(|o| o.arr().to_vec()).unwrap_or_default();
    for (opi, op) in ops.iter().enumerate() {
        let tag = op.at(0).as_str().to_string();
        let i = op.at(1).as_usize();
        let burst = op.at(2).as_u64() != 0;
        match tag.as_str() {
            "up" => {
                let i = i % t.nodes.len();
                if t.nodes[i].spk.conn.is_none() {
                    let Topo { w, nodes, .. } = &mut t;
                    nodes[i].spk.connect(w, &PipeOpts::default(), &PipeOpts::default());
                    out.hit("op.session-up");
                    if burst {
                        // let the handshake run but not the rest
                        t.w.quiesce().await;
                        let now = t.now();
                        t.nodes[i].spk.process_inbox(now);
                    }
                }
            }
            "ann" | "wd" => {
                let i = i % t.nodes.len();
                if !t.nodes[i].spk.established() {
                    continue;
                }
                let fam = op.at(3).as_usize() % 2;
                let pid = if t.nodes[i].cfg.addpath_rx { op.at(5).as_u32() } else { 0 };
                let net = packet::PathNlri { path_id: pid, nlri: prefix(fam, op.at(4).as_u64()) };
                if tag == "ann" {
                    let spec = RSpec::from_json(op.at(6));
                    let mut attrs = spec.attrs(t.nodes[i].cfg.role);
                    let nh = if fam == 0 { spec.nexthop() } else { bgp::Nexthop::V6("2001:db8:ffff::1".parse().unwrap()) };
                    if fam == 1 {
                        attrs.retain(|a| a.code() != packet::Attribute::NEXTHOP);
                    }
                    t.nodes[i].spk.announce(FAMS[fam], vec![net], Some(nh), attrs);
                    out.hit("op.announce");
                } else {
                    t.nodes[i].spk.withdraw(FAMS[fam], vec![net]);
                    out.hit("op.withdraw");
                }
            }
            "eor" => {
                let i = i % t.nodes.len();
                if t.nodes[i].spk.established() {
                    t.nodes[i].spk.eor(FAMS[op.at(3).as_usize() % 2]);
                    out.hit("op.end-of-rib");
                }
            }
            "down" => {
                let i = i % t.nodes.len();
                if t.nodes[i].spk.conn.is_none() {
                    continue;
                }
                let addr = t.nodes[i].cfg.addr;
                match op.at(3).as_str() {
                    "fin" => t.nodes[i].spk.close(),
                    "rst" => t.nodes[i].spk.rst(),
                    "notif-cease" => {
                        t.nodes[i].spk.send(&bgp::Message::Notification(packet::Notification::from_notification(6, 4, vec![])));
                        t.nodes[i].spk.close();
                    }
                    "notif-other" => {
                        t.nodes[i].spk.send(&bgp::Message::Notification(packet::Notification::UpdateMalformedAttributeList));
                        t.nodes[i].spk.close();
                    }
                    _ => {
                        let req = api::ResetPeerRequest { address: addr.to_string(), soft: false, ..Default::default() };
                        if tokio::time::timeout(Duration::from_secs(3), t.w.grpc.reset_peer(tonic::Request::new(req))).await.is_err() {
                            out.hit("probe.grpc-blocked-behind-stalled-station");
                            t.nodes[i].spk.close();
                        }
                    }
                }
                out.hit(&format!("fault.session-drop.{}", op.at(3).as_str()));
                if !burst {
                    settle_all(&mut t, &mut st, &opens).await;
                    if t.nodes[i].spk.conn.is_some() {
                        let now = t.now();
                        t.nodes[i].spk.process_inbox(now);
                        t.nodes[i].spk.close();
                    }
                }
            }
            "local" => {
                // the operator originates / deletes a route: no neighbour's Adj-RIB-In changes, and a
                // station must not be told of a peer it was never told is up
                let fam = op.at(3).as_usize() % 2;
                let net = packet::PathNlri { path_id: 0, nlri: if fam == 0 { v4_prefix(op.at(4).as_u64()) } else { v6_prefix(op.at(4).as_u64()) } };
                let f = if fam == 0 { Family::IPV4 } else { Family::IPV6 };
                if op.at(5).as_bool() {
                    let attrs = vec![packet::Attribute::new_with_value(packet::Attribute::ORIGIN, 0).unwrap(), packet::Attribute::new_with_bin(packet::Attribute::AS_PATH, vec![]).unwrap()];
                    let nh = if fam == 0 { bgp::Nexthop::V4(Ipv4Addr::UNSPECIFIED) } else { bgp::Nexthop::V6(Ipv6Addr::UNSPECIFIED) };
                    t.w.tables.insert_route(table::Source::local(), f, net, Some(nh), Arc::new(attrs), None, 0);
                    out.hit("op.local-route-added");
                } else {
                    t.w.tables.remove_route(table::Source::local(), f, net, None, 0);
                    out.hit("op.local-route-removed");
                }
            }
            "wait" => {
                let ms = op.at(3).as_u64();
                // advance in slices so that stations keep draining while time passes
                let mut left = ms;
                while left > 0 {
                    let d = left.min(2000);
                    t.advance(d).await;
                    settle_all(&mut t, &mut st, &opens).await;
                    left -= d;
                }
            }
            "bmp-add" => {
                let s = i % st.len();
                if !st[s].configured {
                    st[s].listener = Some(crate::verif_net::listen(st[s].addr));
                    let pol = st[s].policy as i32 + 1; // API enum: 1 pre, 2 post, 3 both, 4 local, 5 all
                    let req = api::AddBmpRequest { address: st[s].addr.ip().to_string(), port: st[s].addr.port() as u32, policy: pol, ..Default::default() };
                    // BmpClient::serve holds the global read lock while it writes the PeerUp burst: a
                    // stalled station can block every writer of that lock (not part of C18/C19: counted,
                    // and the stall is lifted so that the history can go on)
                    let mut r = tokio::time::timeout(Duration::from_secs(3), t.w.grpc.add_bmp(tonic::Request::new(req.clone()))).await;
                    if r.is_err() {
                        out.hit("probe.grpc-blocked-behind-stalled-station");
                        for x in st.iter_mut() {
                            x.stalled = false;
                            if let Some(c) = &x.conn {
                                c.ctl().set_window(true);
                            }
                        }
                        settle_all(&mut t, &mut st, &opens).await;
                        r = tokio::time::timeout(Duration::from_secs(3), t.w.grpc.add_bmp(tonic::Request::new(req))).await;
                    }
                    if matches!(r, Ok(Ok(_))) {
                        st[s].configured = true;
                        out.hit("op.station-added");
                    }
                }
            }
            "bmp-del" => {
                let s = i % st.len();
                if st[s].configured {
                    let req = api::DeleteBmpRequest { address: st[s].addr.ip().to_string(), port: st[s].addr.port() as u32 };
                    let mut r = tokio::time::timeout(Duration::from_secs(3), t.w.grpc.delete_bmp(tonic::Request::new(req.clone()))).await;
                    if r.is_err() {
                        out.hit("probe.grpc-blocked-behind-stalled-station");
                        for x in st.iter_mut() {
                            x.stalled = false;
                            if let Some(c) = &x.conn {
                                c.ctl().set_window(true);
                            }
                        }
                        settle_all(&mut t, &mut st, &opens).await;
                        r = tokio::time::timeout(Duration::from_secs(3), t.w.grpc.delete_bmp(tonic::Request::new(req))).await;
                    }
                    if r.is_ok() {
                        st[s].configured = false;
                        out.hit("op.station-deleted");
                    }
                }
            }
            "st-close" | "st-rst" => {
                let s = i % st.len();
                if let Some(c) = st[s].conn.take() {
                    if tag == "st-rst" {
                        c.ctl().rst();
                    }
                    drop(c);
                    st[s].reset_session();
                    out.hit(if tag == "st-rst" { "fault.station-reset" } else { "fault.station-closed" });
                }
            }
            "st-stall" => {
                let s = i % st.len();
                let on = op.at(3).as_u64() != 0;
                if st[s].stalled != on {
                    st[s].stalled = on;
                    if let Some(c) = &st[s].conn {
                        c.ctl().set_window(!on);
                    }
                    if on {
                        out.hit("fault.station-stalled");
                    }
                }
            }
            _ => continue,
        }
        if burst {
            out.hit("burst.op-without-settling");
            continue;
        }
        settle_all(&mut t, &mut st, &opens).await;
        // a session the DUT ended on its own
        for n in t.nodes.iter_mut() {
            if n.spk.state == SpkState::Closed && n.spk.conn.is_some() {
                n.spk.close();
            }
        }
        settle_all(&mut t, &mut st, &opens).await;

        // ---- reader findings ---------------------------------------------------------------
        for s in st.iter_mut() {
            for (k, v) in std::mem::take(&mut s.counters) {
                out.count(&k, v);
            }
            for (class, detail) in std::mem::take(&mut s.findings) {
                if class.starts_with(prop) {
                    let v = Violation::new(class, format!("op {} {}: {}", opi, op.to_compact(), detail));
                    if out.violate(&tol, v) {
                        out.vtime_ms = t.now();
                        out.nontrivial |= compared;
                        return out;
                    }
                } else {
                    out.hit(&format!("other-property.{}", class));
                }
            }
        }
        // the comparison with the RIB serves both properties: as the fold of C18, and as the
        // "carries the intended BGP data" half of C19 (a record that parses, with the add-path
        // setting it states, to other prefixes or attributes than were monitored)
        let judge_pairing = prop == "C18";

        // ---- C18: caught-up stations against the RIB ----------------------------------------
        let mut rib_pre: BTreeMap<RKey, (RVal, bool)> = BTreeMap::new();
        let mut rib_post: BTreeMap<RKey, (RVal, bool)> = BTreeMap::new();
        for shard in &t.w.tables.shards {
            let g = shard.lock().unwrap();
            for f in FAMS {
                for r in g.rtable.iter_reach(f) {
                    rib_pre.insert((r.source.remote_addr, fam_key(f), format!("{:?}", r.net.nlri), r.net.path_id), (rval(&r.attr, r.nexthop), r.source.is_stale() || r.source.is_llgr_stale()));
                }
                for r in g.rtable.iter_reach_post(f) {
                    rib_post.insert((r.source.remote_addr, fam_key(f), format!("{:?}", r.net.nlri), r.net.path_id), (rval(&r.attr, r.nexthop), r.source.is_stale() || r.source.is_llgr_stale()));
                }
            }
        }
        // BmpClient::serve holds the global read lock while it writes its PeerUp burst, so one station
        // that does not read can hold up session set-up and tear-down for everybody: nothing is
        // judged until it reads again (the events queued meanwhile are what is checked then)
        if st.iter().any(|s| s.stalled && s.conn.is_some()) {
            out.hit("compare.skipped-while-a-station-is-stalled");
            continue;
        }
        for s in st.iter() {
            if !s.caught_up() {
                continue;
            }
            out.hit("compare.station-caught-up");
            for n in &t.nodes {
                let a = n.cfg.addr;
                let est = n.spk.established();
                match (est, s.up.contains_key(&a)) {
                    (true, false) | (false, true) if !judge_pairing => continue,
                    (true, false) => {
                        let v = Violation::new("C18/pairing/peer-up-missing", format!("op {} {}: station {} (policy {}) has caught up but does not know established peer {}", opi, op.to_compact(), s.addr, s.policy, a));
                        if out.violate(&tol, v) {
                            out.vtime_ms = t.now();
                            return out;
                        }
                        continue;
                    }
                    (false, true) => {
                        let v = Violation::new("C18/pairing/peer-down-missing", format!("op {} {}: station {} still holds peer {} up although its session has ended", opi, op.to_compact(), s.addr, a));
                        if out.violate(&tol, v) {
                            out.vtime_ms = t.now();
                            return out;
                        }
                        continue;
                    }
                    (false, false) => continue,
                    (true, true) => {}
                }
                for (name, wanted, got, rib) in [("pre-policy", s.wants_pre(), &s.pre, &rib_pre), ("post-policy", s.wants_post(), &s.post, &rib_post)] {
                    if !wanted {
                        continue;
                    }
                    let got_p: BTreeMap<&RKey, &RVal> = got.iter().filter(|(k, _)| k.0 == a).collect();
                    let fresh: BTreeMap<&RKey, &RVal> = rib.iter().filter(|(k, v)| k.0 == a && !v.1).map(|(k, v)| (k, &v.0)).collect();
                    let stale: BTreeSet<&RKey> = rib.iter().filter(|(k, v)| k.0 == a && v.1).map(|(k, _)| k).collect();
                    if !fresh.is_empty() {
                        compared = true;
                    }
                    let mut bad: Option<(String, String)> = None;
                    for (k, v) in &fresh {
                        match got_p.get(k) {
                            Some(g) if g == v => {}
                            Some(g) => bad = Some((if judge_pairing { format!("C18/fold/{}/last-event-is-not-current-state", name) } else { format!("C19/content/{}/route-differs-from-what-was-monitored", name) }, format!("{:?}: station holds {:?}, RIB holds {:?}", k, g, v))),
                            None => bad = Some((if judge_pairing { format!("C18/fold/{}/update-missing", name) } else { format!("C19/content/{}/monitored-route-not-in-any-record", name) }, format!("{:?} is in the RIB but the station never learnt it (or was told to forget it)", k))),
                        }
                    }
                    for (k, g) in &got_p {
                        if !fresh.contains_key(k) && !stale.contains(k) {
                            bad = Some((if judge_pairing { format!("C18/fold/{}/phantom-route", name) } else { format!("C19/content/{}/record-decodes-to-a-route-that-was-not-monitored", name) }, format!("{:?}: station holds {:?}, the RIB has no such route", k, g)));
                        }
                    }
                    if let Some((class, d)) = bad {
                        let v = Violation::new(class, format!("op {} {}: station {} (policy {}, connection #{}) peer {}: {}; station holds {:?}; RIB holds {:?}", opi, op.to_compact(), s.addr, s.policy, s.connections, a, d, got_p.keys().collect::<Vec<_>>(), fresh.keys().collect::<Vec<_>>()));
                        if out.violate(&tol, v) {
                            out.vtime_ms = t.now();
                            out.nontrivial = true;
                            return out;
                        }
                    }
                }
                // Adj-RIB-Out post-policy records against what the peer was really sent (its mirror of
                // the session): the "intended data" of such a record is the advertisement itself.
                // Judged for a station that was there before the session came up (one that arrives later
                // is sent no Adj-RIB-Out snapshot) and monitors everything.
                if !judge_pairing && s.policy == 4 && s.saw_peer_up_live.contains(&a) {
                    let mirror: BTreeMap<RKey, RVal> = n.spk.mirror.iter().map(|(k, (attrs, nh))| ((a, k.0, k.1.clone(), k.2), rval(attrs, *nh))).collect();
                    let got_o: BTreeMap<&RKey, &RVal> = s.out_post.iter().filter(|(k, _)| k.0 == a).collect();
                    let want_o: BTreeMap<&RKey, &RVal> = mirror.iter().collect();
                    // (an advertisement without a record is not a malformed record: the initial dump of a
                    // session is not monitored at all, which neither C18 nor C19 speaks about)
                    if let Some(k) = got_o.keys().find(|k| want_o.get(*k) != got_o.get(*k)).cloned() {
                        let class = match want_o.get(k) {
                            None => "C19/content/adj-rib-out/record-for-a-route-the-peer-does-not-hold",
                            Some(_) => "C19/content/adj-rib-out/record-differs-from-what-was-sent",
                        };
                        let v = Violation::new(class, format!("op {} {}: station {} peer {}: {:?}: sent on the session {:?}, Adj-RIB-Out records say {:?}", opi, op.to_compact(), s.addr, a, k, want_o.get(k), got_o.get(k)));
                        if out.violate(&tol, v) {
                            out.vtime_ms = t.now();
                            out.nontrivial = true;
                            return out;
                        }
                    }
                    out.hit("compare.adj-rib-out-against-the-wire");
                }
            }
        }
    }
    out.nontrivial = compared;
    out.vtime_ms = t.now();
    for s in &st {
        out.count("station.records", s.records);
        out.count("station.connections", s.connections);
    }
    if t.collect_speaker_errors(&mut out, prop, &tol) {
        return out;
    }
    out
}
