//! C15 (tier D) — counters and prefix limits as sessions and the API see them.
//!
//! Real sessions with a per-family prefix limit announce, replace and withdraw prefixes (several
//! per UPDATE, several paths per prefix with add-path), drop and come back. At every quiescent
//! point the numbers a user reads (ListPeer received / accepted per family, GetTable
//! destinations / paths / accepted) are compared with a recount of the RIB, and the session
//! model decides whether the limit has been passed: a session that announced more distinct
//! prefixes than its maximum must have been told so (NOTIFICATION Cease / maximum number of
//! prefixes, connection closed, its routes gone) and one that did not must not have been.

use super::super::*;
use super::c01::{gen_rspec, node_from_json, node_json, RSpec};
use super::c08::fix_task_panic;
use super::speaker::*;
use super::topo::*;
use super::world::*;
use crate::verif_net::PipeOpts;
use futures::StreamExt;
use std::collections::{BTreeMap, BTreeSet};
use vcore::{jarr, jobj, Check, CheckInfo, Json, Outcome, Rng, Tolerate, Violation};

pub(crate) struct LimitSessions;

const FAMS: [Family; 2] = [Family::IPV4, Family::IPV6];

fn prefix(fam: usize, idx: u64) -> packet::Nlri {
    if fam == 0 {
        v4_prefix(idx)
    } else {
        v6_prefix(idx)
    }
}

fn import_policy() -> Arc<table::PolicyAssignment> {
    let mut pt = table::PolicyTable::new();
    pt.add_defined_set(table::DefinedSetConfig::Prefix { name: "deny".into(), prefixes: vec![table::PrefixConfig { ip_prefix: "10.1.0.0/24".into(), mask_length_min: 24, mask_length_max: 24 }, table::PrefixConfig { ip_prefix: "2001:db8:1::/48".into(), mask_length_min: 48, mask_length_max: 48 }] }).unwrap();
    pt.add_statement("deny", vec![table::ConditionConfig::PrefixSet("deny".into(), table::MatchOption::Any)], Some(table::Disposition::Reject), table::Actions::default()).unwrap();
    pt.add_policy("p", vec!["deny".into()]).unwrap();
    pt.add_assignment("global", table::PolicyDirection::Import, table::Disposition::Accept, vec!["p".into()]).unwrap().1
}

impl Check for LimitSessions {
    fn property(&self) -> &'static str {
        "C15"
    }
    fn tier(&self) -> &'static str {
        "D"
    }
    fn name(&self) -> &'static str {
        "limit-sessions"
    }

    fn generate(&self, seed: u64, thorough: bool) -> Json {
        let mut rng = Rng::new(seed);
        let n_nodes = rng.range(1, 2) as usize;
        let mut nodes = Vec::new();
        for i in 0..n_nodes {
            let role = *rng.pick(&[Role::Ebgp, Role::Ebgp, Role::Ibgp]);
            let n = NodeCfg {
                role,
                addr: IpAddr::V4(Ipv4Addr::new(10, 0, 1, i as u8 + 1)),
                asn: asn_for(role, i),
                rid: 0,
                send_max: 1,
                addpath_rx: rng.chance(1, 3),
                gr: None,
                llgr: None,
                prefix_limit: if rng.chance(4, 5) { Some(*rng.pick(&[1u32, 2, 3, 5])) } else { None },
                ext_msg: false,
            };
            nodes.push(node_json(&n));
        }
        let n = rng.range(6, if thorough { 50 } else { 28 });
        let mut ops: Vec<Json> = Vec::new();
        for i in 0..n_nodes {
            ops.push(jarr!["up", i as u64, 0u64]);
        }
        for _ in 0..n {
            let burst = if rng.chance(1, 3) { 1u64 } else { 0 };
            let i = rng.below(n_nodes as u64);
            match rng.weighted(&[40, 16, 8, 5, 7, 4, 5, 6]) {
                7 => ops.push(jarr!["local", 0u64, burst, rng.below(2), rng.below(7), rng.chance(2, 3), rng.below(2)]),
                0 => {
                    let role = Role::from_u(nodes[i as usize].i("role", 0) as u64);
                    let spec = gen_rspec(&mut rng, role, asn_for(role, i as usize));
                    ops.push(jarr!["ann", i, burst, rng.below(2), rng.below(7), if rng.chance(1, 3) { rng.range(1, 2) } else { 0 }, spec.to_json()]);
                }
                1 => ops.push(jarr!["wd", i, burst, rng.below(2), rng.below(7), if rng.chance(1, 3) { rng.range(1, 2) } else { 0 }]),
                2 => {
                    // several prefixes in one UPDATE: the limit may be passed in the middle of it
                    let role = Role::from_u(nodes[i as usize].i("role", 0) as u64);
                    let spec = gen_rspec(&mut rng, role, asn_for(role, i as usize));
                    let first = rng.below(5);
                    ops.push(jarr!["bulk", i, burst, rng.below(2), first, rng.range(2, 4), spec.to_json()]);
                }
                6 => ops.push(jarr!["pol", i, burst, rng.coin()]),
                3 => ops.push(jarr!["down", i, burst]),
                4 => ops.push(jarr!["up", i, burst]),
                _ => ops.push(jarr!["wait", 0u64, 0u64, *rng.pick(&[100u64, 3000, 35_000])]),
            }
        }
        jobj! {"nodes" => Json::Arr(nodes), "shards" => rng.range(1, 3), "policy" => rng.below(2), "hold" => *rng.pick(&[0u64, 90]), "sub" => rng.next_u64() >> 1, "ops" => Json::Arr(ops)}
    }

    fn execute(&self, case: &Json, tol: &Tolerate) -> Outcome {
        let case = case.clone();
        let tol = tol.clone();
        let mut out = run_sim(case.i("sub", 1) as u64, move || run(case, tol));
        fix_task_panic(&mut out, "C15");
        out
    }

    fn info(&self) -> CheckInfo {
        CheckInfo {
            rule: "1-2 real sessions (eBGP / iBGP, optional add-path receive) with a per-family prefix limit of 1, 2, 3 or 5 (one in five without), an optional import policy that rejects one prefix per family; ops announce / replace / withdraw one prefix (path ids 0-2), announce 2-4 prefixes in one UPDATE, drop and reconnect, the import policy switched on / off with a soft reset IN of every peer, waits, routes originated and deleted by the operator for the same prefixes (counted in the table totals, never in a peer's counters), each optionally inside a burst that is not allowed to settle. Reference per session: the set of distinct prefixes announced and not withdrawn. At quiescence: ListPeer's received / accepted per family and GetTable's destinations / paths / accepted equal a recount of the RIB; a session whose set ever exceeded the maximum has received NOTIFICATION Cease / maximum number of prefixes reached, is closed and left no route; a session that never exceeded it has received no such NOTIFICATION and holds exactly its set. non-trivial = a session came within one prefix of its limit".into(),
            components_real: vec!["accept_connection (per-session counters), PeerSession::{rx_update, handle_prefix_limit}, TableManager::{insert_route, remove_route, unregister_peer, collect_peer_stats, table_state}, table::Table::{insert, remove, drop, peer_stats, state}".into(), "GrpcService::{list_peer, get_table}, PeerView::update_stats and the conversion to api::Peer".into()],
            components_stubbed: vec!["TCP, clock, the peers".into()],
            assumptions: vec!["the limit counts the distinct prefixes a session has announced, whether or not import policy accepts them (as the per-session counter of the table does); the statement's bound on accepted prefixes follows from it".into()],
            bounds: "<=50 ops, <=2 peers, 7 prefixes per family, path ids 0-2".into(),
        }
    }
}

async fn run(case: Json, tol: Tolerate) -> Outcome {
    let mut out = Outcome::default();
    let node_js: Vec<Json> = case.get("nodes").map(|s| s.arr().to_vec()).unwrap_or_default();
    if node_js.is_empty() {
        return out;
    }
    let hold = case.i("hold", 0) as u64;
    let nodes: Vec<NodeCfg> = node_js.iter().enumerate().map(|(i, j)| node_from_json(j, IpAddr::V4(Ipv4Addr::new(10, 0, 1, i as u8 + 1)), i)).collect();
    let mut wcfg = WorldCfg::default();
    wcfg.shards = case.i("shards", 1) as usize;
    let mut t = Topo::new(&wcfg, nodes, FAMS.to_vec(), hold).await;
    let policy = case.i("policy", 0) != 0;
    if policy {
        t.w.tables.import_policy.store(Some(import_policy()));
    }
    let n = t.nodes.len();
    // per node: prefix (family, index) -> path ids announced in the current session
    let mut sess: Vec<BTreeMap<(usize, u64), BTreeSet<u32>>> = vec![BTreeMap::new(); n];
    // per node: did the current session ever hold more distinct prefixes of a family than allowed?
    let mut exceeded: Vec<bool> = vec![false; n];
    let mut interesting = false;

    macro_rules! fail {
        ($class:expr, $($arg:tt)*) => {{
            let v = Violation::new(format!("C15/{}", $class), format!($($arg)*));
            if out.violate(&tol, v) { out.vtime_ms = t.now(); out.nontrivial = interesting; return out; }
        }};
    }

    let ops: Vec<Json> = case.get("ops").map(|o| o.arr().to_vec()).unwrap_or_default();
    for (opi, op) in ops.iter().enumerate() {
        let tag = op.at(0).as_str().to_string();
        let i = op.at(1).as_usize() % n;
        let burst = op.at(2).as_u64() != 0;
        let limit = t.nodes[i].cfg.prefix_limit;
        let mut note_count = |sess: &BTreeMap<(usize, u64), BTreeSet<u32>>, exceeded: &mut bool, interesting: &mut bool| {
            if let Some(max) = limit {
                for fam in 0..2 {
                    let c = sess.keys().filter(|k| k.0 == fam).count() as u32;
                    if c > max {
                        *exceeded = true;
                    }
                    if c + 1 >= max {
                        *interesting = true;
                    }
                }
            }
        };
        match tag.as_str() {
            "up" => {
                if t.nodes[i].spk.conn.is_none() {
                    let Topo { w, nodes, .. } = &mut t;
                    nodes[i].spk.connect(w, &PipeOpts::default(), &PipeOpts::default());
                    sess[i].clear();
                    exceeded[i] = false;
                    out.hit("op.session-up");
                    // the handshake always completes before the next op: the model is per session
                    t.settle().await;
                }
            }
            "ann" | "wd" | "bulk" => {
                if !t.nodes[i].spk.established() || exceeded[i] {
                    continue;
                }
                let fam = op.at(3).as_usize() % 2;
                if tag == "bulk" {
                    let spec = RSpec::from_json(op.at(6));
                    let mut attrs = spec.attrs(t.nodes[i].cfg.role);
                    let nh = if fam == 0 { spec.nexthop() } else { bgp::Nexthop::V6("2001:db8:ffff::1".parse().unwrap()) };
                    if fam == 1 {
                        attrs.retain(|a| a.code() != packet::Attribute::NEXTHOP);
                    }
                    let first = op.at(4).as_u64();
                    let nets: Vec<packet::PathNlri> = (0..op.at(5).as_u64()).map(|k| packet::PathNlri { path_id: 0, nlri: prefix(fam, (first + k) % 7) }).collect();
                    for k in 0..op.at(5).as_u64() {
                        sess[i].entry((fam, (first + k) % 7)).or_default().insert(0);
                        // the limit is checked prefix by prefix
                        note_count(&sess[i], &mut exceeded[i], &mut interesting);
                    }
                    t.nodes[i].spk.announce(FAMS[fam], nets, Some(nh), attrs);
                    out.hit("op.announce-several");
                } else {
                    let pid = if t.nodes[i].cfg.addpath_rx { op.at(5).as_u32() } else { 0 };
                    let idx = op.at(4).as_u64();
                    let net = packet::PathNlri { path_id: pid, nlri: prefix(fam, idx) };
                    if tag == "ann" {
                        let spec = RSpec::from_json(op.at(6));
                        let mut attrs = spec.attrs(t.nodes[i].cfg.role);
                        let nh = if fam == 0 { spec.nexthop() } else { bgp::Nexthop::V6("2001:db8:ffff::1".parse().unwrap()) };
                        if fam == 1 {
                            attrs.retain(|a| a.code() != packet::Attribute::NEXTHOP);
                        }
                        sess[i].entry((fam, idx)).or_default().insert(pid);
                        note_count(&sess[i], &mut exceeded[i], &mut interesting);
                        t.nodes[i].spk.announce(FAMS[fam], vec![net], Some(nh), attrs);
                        out.hit("op.announce");
                    } else {
                        if let Some(s) = sess[i].get_mut(&(fam, idx)) {
                            s.remove(&pid);
                            if s.is_empty() {
                                sess[i].remove(&(fam, idx));
                            }
                        }
                        t.nodes[i].spk.withdraw(FAMS[fam], vec![net]);
                        out.hit("op.withdraw");
                    }
                }
            }
            "down" => {
                if t.nodes[i].spk.conn.is_some() {
                    t.nodes[i].spk.close();
                    sess[i].clear();
                    exceeded[i] = false;
                    t.nodes[i].spk.notifications.clear();
                    out.hit("fault.session-fin");
                }
            }
            "pol" => {
                // the operator switches the import policy on or off and soft-resets every peer inbound:
                // accepted counts change, received counts and the limit counters do not
                let on = op.at(3).as_bool();
                t.w.tables.import_policy.store(if on { Some(import_policy()) } else { None });
                for k in 0..n {
                    let req = api::ResetPeerRequest { address: t.nodes[k].cfg.addr.to_string(), soft: true, direction: api::reset_peer_request::Direction::In as i32, ..Default::default() };
                    let _ = t.w.grpc.reset_peer(tonic::Request::new(req)).await;
                }
                out.hit("op.import-policy-switched+soft-reset-in");
            }
            "local" => {
                // the operator originates / deletes a route for one of the prefixes the peers use (path
                // identifiers 0-1): table totals count it, per-peer counters and limits do not
                let fam = op.at(3).as_usize() % 2;
                let net = packet::PathNlri { path_id: op.at(6).as_u32(), nlri: prefix(fam, op.at(4).as_u64()) };
                if op.at(5).as_bool() {
                    let attrs = vec![packet::Attribute::new_with_value(packet::Attribute::ORIGIN, 0).unwrap(), packet::Attribute::new_with_bin(packet::Attribute::AS_PATH, vec![]).unwrap()];
                    let nh = if fam == 0 { bgp::Nexthop::V4(Ipv4Addr::UNSPECIFIED) } else { bgp::Nexthop::V6(Ipv6Addr::UNSPECIFIED) };
                    t.w.tables.insert_route(table::Source::local(), FAMS[fam], net, Some(nh), Arc::new(attrs), None, 0);
                    out.hit("op.local-route-added");
                } else {
                    t.w.tables.remove_route(table::Source::local(), FAMS[fam], net, None, 0);
                    out.hit("op.local-route-removed");
                }
            }
            "wait" => {
                t.advance(op.at(3).as_u64()).await;
            }
            _ => continue,
        }
        if burst {
            out.hit("burst.op-without-settling");
            continue;
        }
        t.settle().await;

        // ---- the limit: signalled iff passed ----------------------------------------------------
        for k in 0..n {
            let got_cease = t.nodes[k].spk.notifications.iter().any(|x| matches!(x, packet::Notification::CeaseMaxPrefixReached));
            let open = t.nodes[k].spk.established();
            if exceeded[k] {
                if open || !got_cease {
                    fail!("limit/exceeded-without-signal", "op {} {}: peer {} announced {} distinct prefixes in this session (limit {:?}): session still up = {}, Cease/max-prefix received = {}", opi, op.to_compact(), k, sess[k].len(), t.nodes[k].cfg.prefix_limit, open, got_cease);
                }
                out.hit("probe.limit-signalled");
                // the session is over: what it announced is gone
                if t.nodes[k].spk.conn.is_some() {
                    t.nodes[k].spk.close();
                }
                sess[k].clear();
                exceeded[k] = false;
                t.nodes[k].spk.notifications.clear();
                t.settle().await;
            } else if got_cease {
                fail!("limit/signalled-although-not-exceeded", "op {} {}: peer {} holds {} distinct prefixes (limit {:?}) and was sent Cease / maximum number of prefixes", opi, op.to_compact(), k, sess[k].len(), t.nodes[k].cfg.prefix_limit);
                if t.nodes[k].spk.conn.is_some() {
                    t.nodes[k].spk.close();
                }
                sess[k].clear();
                t.nodes[k].spk.notifications.clear();
                t.settle().await;
            } else if t.nodes[k].spk.state == SpkState::Closed && t.nodes[k].spk.conn.is_some() {
                // ended by the daemon for another reason (hold timer): start over
                t.nodes[k].spk.close();
                sess[k].clear();
                t.settle().await;
            }
        }

        // ---- recount --------------------------------------------------------------------------------
        let mut listed: BTreeMap<IpAddr, api::Peer> = BTreeMap::new();
        if let Ok(r) = t.w.grpc.list_peer(tonic::Request::new(api::ListPeerRequest { address: String::new(), ..Default::default() })).await {
            let mut s = r.into_inner();
            loop {
                match tokio::time::timeout(Duration::from_millis(50), s.next()).await {
                    Ok(Some(Ok(p))) => {
                        if let Some(p) = p.peer {
                            // the conf part is not filled in by this daemon: identify by the state
                            let a = p.state.as_ref().map(|s| s.neighbor_address.clone()).unwrap_or_default();
                            if let Ok(a) = a.parse::<IpAddr>() {
                                listed.insert(a, p);
                            }
                        }
                    }
                    _ => break,
                }
            }
        }
        for (fi, f) in FAMS.iter().enumerate() {
            let all = t.w.tables.collect_paths(table::TableQuery::Global, *f, vec![], true);
            let n_dest = all.len() as u64;
            let n_path: u64 = all.iter().map(|d| d.paths.len() as u64).sum();
            let n_acc: u64 = all.iter().map(|d| d.paths.iter().filter(|p| !p.filtered).count() as u64).sum();
            if let Ok(r) = t.w.grpc.get_table(tonic::Request::new(api::GetTableRequest { family: Some(crate::convert::family_to_api(*f)), ..Default::default() })).await {
                let g = r.into_inner();
                if g.num_destination != n_dest || g.num_path != n_path || g.num_accepted != n_acc {
                    fail!("api/table-totals-differ-from-recount", "op {} {}: family {}: GetTable says destinations {} paths {} accepted {}, recount {} {} {}", opi, op.to_compact(), fi, g.num_destination, g.num_path, g.num_accepted, n_dest, n_path, n_acc);
                }
            }
            for k in 0..n {
                let a = t.nodes[k].cfg.addr;
                let recv = all.iter().filter(|d| d.paths.iter().any(|p| p.source.remote_addr == a)).count() as u64;
                let acc_paths = all.iter().map(|d| d.paths.iter().filter(|p| p.source.remote_addr == a && !p.filtered).count() as u64).sum::<u64>();
                let acc_pfx = all.iter().filter(|d| d.paths.iter().any(|p| p.source.remote_addr == a && !p.filtered)).count() as u64;
                // the RIB holds exactly what the session announced
                let want = sess[k].keys().filter(|x| x.0 == fi).count() as u64;
                if t.nodes[k].spk.established() || want == 0 {
                    if recv != want {
                        fail!("rib/prefixes-of-session-differ-from-what-it-announced", "op {} {}: peer {} family {}: the RIB holds {} prefixes of it, the session announced {} (limit {:?})", opi, op.to_compact(), k, fi, recv, want, t.nodes[k].cfg.prefix_limit);
                    }
                }
                if let Some(max) = t.nodes[k].cfg.prefix_limit {
                    if acc_pfx > max as u64 {
                        fail!("limit/more-accepted-prefixes-than-the-maximum", "op {} {}: peer {} family {}: {} accepted prefixes, maximum {}", opi, op.to_compact(), k, fi, acc_pfx, max);
                    }
                }
                if let Some(p) = listed.get(&a) {
                    let st = p.afi_safis.iter().filter_map(|x| x.state.as_ref()).find(|s| s.family.as_ref().is_some_and(|x| crate::convert::family_from_api(x) == *f));
                    let (r, acc) = st.map(|s| (s.received, s.accepted)).unwrap_or((0, 0));
                    if r > (1 << 62) || acc > (1 << 62) {
                        fail!("api/peer-counter-underflow", "op {} {}: peer {} family {}: received {} accepted {}", opi, op.to_compact(), k, fi, r, acc);
                    } else if r != recv {
                        fail!("api/peer-received-differs-from-recount", "op {} {}: peer {} family {}: ListPeer says received {}, recount {}", opi, op.to_compact(), k, fi, r, recv);
                    } else if acc != acc_paths && acc != acc_pfx {
                        fail!("api/peer-accepted-differs-from-recount", "op {} {}: peer {} family {}: ListPeer says accepted {}, recount {} paths / {} prefixes", opi, op.to_compact(), k, fi, acc, acc_paths, acc_pfx);
                    }
                } else if recv > 0 {
                    fail!("api/peer-not-listed", "op {} {}: peer {} has {} prefixes in the RIB but ListPeer does not show it", opi, op.to_compact(), k, recv);
                }
            }
        }
    }
    out.nontrivial = interesting;
    out.vtime_ms = t.now();
    if t.collect_speaker_errors(&mut out, "C15", &tol) {
        return out;
    }
    out
}
