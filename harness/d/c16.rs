//! C16 — only configured or dynamically permitted neighbours get a session, set up right.
//! Tier D: `accept_connection`, `Global::add_peer`, `PeerParams::build`, `PeerFsm`, `PeerCodec::negotiate`
//! run for real; connections arrive from addresses inside and outside every configured prefix.

use super::super::*;
use super::c08::fix_task_panic;
use super::speaker::*;
use super::world::*;
use crate::verif_net as net;
use crate::verif_net::PipeOpts;
use std::collections::{BTreeMap, BTreeSet};
use std::str::FromStr;
use vcore::{jarr, jobj, Check, CheckInfo, Json, Outcome, Rng, Tolerate, Violation};

pub(crate) struct Admission;

const ALLF: [Family; 4] = [Family::IPV4, Family::IPV6, Family::IPV4_VPN, Family::L2VPN_EVPN];

fn fams_of(mask: u64) -> Vec<Family> {
    ALLF.iter().enumerate().filter(|(i, _)| mask & (1 << i) != 0).map(|(_, f)| *f).collect()
}

#[derive(Clone, Debug)]
struct GroupCfg {
    prefix: String,
    /// a second dynamic prefix of the same group (nested in, covering or disjoint from the first)
    prefix2: Option<String>,
    asn: u32,
    hold: u64,
    rs: bool,
    rr: bool,
    fam_mask: u64,
    addpath: u8,
    gr: bool,
    /// LLGR stale time for the group's families (0 = none)
    llgr: u32,
}

#[derive(Clone, Debug)]
struct StaticCfg {
    addr: String,
    asn: u32,
    hold: u64,
    admin_down: bool,
    rs: bool,
    rr: bool,
    fam_mask: u64,
    addpath: u8,
    gr: bool,
    active: bool,
    /// per-family maximum number of prefixes (0 = none)
    plimit: u32,
    /// families of the graceful-restart capability (its own, or the group's when inherited)
    gr_mask: u64,
    /// LLGR stale time (0 = none) and the families it is advertised for
    llgr: u32,
    llgr_mask: u64,
}

/// A neighbour configured through the gRPC API (AddPeer), optionally as a member of a peer group
/// whose settings it inherits where it has none of its own.
#[derive(Clone, Debug)]
struct ApiPeerCfg {
    addr: String,
    asn: u32,
    hold: u64,
    fam_mask: u64,
    addpath: u8,
    gr: bool,
    plimit: u32,
    rs: bool,
    rr: bool,
    group: i64,
    llgr: u32,
}

fn addr_pool() -> Vec<&'static str> {
    vec!["10.0.2.1", "10.0.2.2", "10.0.1.1", "10.0.1.2", "10.0.1.3", "10.9.0.5", "10.9.1.5", "10.9.1.77", "10.8.0.1", "192.168.7.7", "2001:db8:9::5", "2001:db8:9:1::9", "2001:db8:8::1"]
}

impl Check for Admission {
    fn property(&self) -> &'static str {
        "C16"
    }
    fn tier(&self) -> &'static str {
        "D"
    }
    fn name(&self) -> &'static str {
        "admission-and-setup"
    }

    fn generate(&self, seed: u64, thorough: bool) -> Json {
        let mut rng = Rng::new(seed);
        let confed = rng.chance(1, 4);
        let n_static = rng.range(1, 3);
        let statics: Vec<Json> = (0..n_static)
            .map(|i| {
                let kind = rng.below(4); // 0 ebgp 1 ibgp 2 confed-member 3 rs
                let asn = match kind {
                    1 => 65000u64,
                    2 if confed => 65100,
                    _ => 65001 + i,
                };
                jobj! {"addr" => format!("10.0.1.{}", i + 1), "asn" => asn, "hold" => *rng.pick(&[0u64, 9, 90, 180]), "admin_down" => rng.chance(1, 5),
                       "rs" => kind == 3, "rr" => kind == 1 && rng.coin(), "fams" => *rng.pick(&[0u64, 1, 3, 5, 15]), "addpath" => rng.below(4), "gr" => rng.chance(1, 3), "active" => rng.chance(2, 5)}
            })
            .collect();
        let prefixes = ["10.9.0.0/16", "10.9.1.0/24", "2001:db8:9::/48", "10.9.1.64/26", "0.0.0.0/0"];
        let n_groups = rng.range(0, 3);
        let groups: Vec<Json> = (0..n_groups)
            .map(|g| {
                let np = if rng.chance(1, 8) { 5 } else { 4 };
                let p1 = *rng.pick(&prefixes[..np]);
                let p2 = if rng.chance(1, 2) { Some(*rng.pick(&prefixes[..4])).filter(|p| *p != p1) } else { None };
                jobj! {"prefix" => p1, "prefix2" => match p2 { Some(p) => Json::from(p), None => Json::Null }, "asn" => *rng.pick(&[0u64, 65100 + g, 65100 + g]), "hold" => *rng.pick(&[0u64, 30, 240]),
                       "rs" => rng.chance(1, 5), "rr" => false, "fams" => *rng.pick(&[0u64, 1, 3]), "addpath" => rng.below(4), "gr" => rng.chance(1, 3), "llgr" => *rng.pick(&[0u64, 0, 3600])}
            })
            .collect();
        let n_api = rng.range(0, 2);
        let api_peers: Vec<Json> = (0..n_api)
            .map(|k| {
                // member of a named group (the groups above double as named groups) in 2 of 3 cases
                let group: i64 = if n_groups > 0 && rng.chance(2, 3) { rng.below(n_groups) as i64 } else { -1 };
                let g_asn = if group >= 0 { groups[group as usize].i("asn", 0) as u64 } else { 0 };
                let asn = if g_asn != 0 && rng.chance(1, 3) { 0 } else { *rng.pick(&[65000u64, 65021 + k, 65021 + k]) };
                let fams = *rng.pick(&[0u64, 1, 3, 5]);
                jobj! {"addr" => format!("10.0.2.{}", k + 1), "asn" => asn, "hold" => *rng.pick(&[0u64, 0, 9, 90]), "fams" => fams, "addpath" => if fams != 0 { rng.below(4) } else { 0 },
                       "gr" => fams != 0 && rng.chance(1, 3), "llgr" => if fams != 0 { *rng.pick(&[0u64, 0, 100]) } else { 0 }, "plimit" => if fams != 0 && rng.chance(1, 2) { rng.range(1, 5) } else { 0 }, "rs" => rng.chance(1, 6), "rr" => asn == 65000 && rng.coin(), "group" => group}
            })
            .collect();
        let pool = addr_pool();
        let n = rng.range(3, if thorough { 30 } else { 18 });
        let mut ops = Vec::new();
        for _ in 0..n {
            let a = rng.below(pool.len() as u64);
            match rng.weighted(&[30, 12, 14, 4, 4, 3, 3, 6, if n_api > 0 { 8 } else { 0 }, if n_api > 0 { 2 } else { 0 }, if n_api > 0 { 5 } else { 0 }, if n_groups > 0 { 4 } else { 0 }, if n_groups > 0 { 5 } else { 0 }]) {
                12 => ops.push(jarr![if rng.chance(3, 5) { "dyn-del" } else { "dyn-add" }, rng.below(n_groups.max(1)), rng.below(2)]),
                0 => ops.push(jarr!["conn", a, rng.below(4), *rng.pick(&[0u64, 1, 3, 5, 15]), rng.below(4)]),
                1 => ops.push(jarr!["handshake", a]),
                2 => ops.push(jarr!["close", a]),
                3 => ops.push(jarr!["disable", rng.below(n_static)]),
                4 => ops.push(jarr!["enable", rng.below(n_static)]),
                5 => ops.push(jarr!["second", a]),
                8 => ops.push(jarr!["api-add", rng.below(n_api.max(1))]),
                9 => ops.push(jarr!["api-del", rng.below(n_api.max(1))]),
                11 => {
                    let fams = *rng.pick(&[0u64, 1, 3]);
                    ops.push(jarr!["grp-upd", rng.below(n_groups.max(1)), *rng.pick(&[0u64, 30, 240]), fams, rng.below(4), rng.chance(1, 3), *rng.pick(&[0u64, 0, 3600, 7200])]);
                }
                10 => {
                    let fams = *rng.pick(&[0u64, 1, 3, 5]);
                    ops.push(jarr!["api-upd", rng.below(n_api.max(1)), *rng.pick(&[0u64, 0, 9, 90]), fams, rng.below(4), rng.chance(1, 3), if rng.chance(1, 2) { rng.range(1, 5) } else { 0 }, *rng.pick(&[0u64, 0, 100, 200])]);
                }
                7 => ops.push(jarr!["dial", rng.below(n_static), rng.below(4), *rng.pick(&[0u64, 1, 3, 5, 15]), rng.below(4), rng.chance(1, 3)]),
                _ => ops.push(jarr!["wait", *rng.pick(&[10u64, 4000])]),
            }
        }
        jobj! {"confed" => confed, "statics" => Json::Arr(statics), "groups" => Json::Arr(groups), "api_peers" => Json::Arr(api_peers), "sub" => rng.next_u64() >> 1, "ops" => Json::Arr(ops)}
    }

    fn execute(&self, case: &Json, tol: &Tolerate) -> Outcome {
        let case = case.clone();
        let tol = tol.clone();
        let mut out = run_sim(case.i("sub", 1) as u64, move || run(case, tol));
        fix_task_panic(&mut out, "C16");
        out
    }

    fn info(&self) -> CheckInfo {
        CheckInfo {
            rule: "1-3 static neighbours (eBGP / iBGP / RR client / RS client / confed member, admin-down flags, hold 0/9/90/180, family sets, add-path modes, GR) and 0-3 peer groups with one or two dynamic prefixes each (nested and overlapping IPv4, IPv6, 0.0.0.0/0); connections from 11 source addresses inside and outside them; ops connect (with a drawn remote capability list: family set, add-path mode 0-3, GR), complete the handshake, close, open a second connection in the same direction, operator disable/enable, waits, `api-add` / `api-upd` / `api-del` (0-2 further neighbours configured, re-configured and removed through the real AddPeer / UpdatePeer / DeletePeer handlers, 2 of 3 as members of a named peer group whose AS, hold time, families, add-path and route-server flag they inherit where they have none of their own, with graceful restart and per-family prefix limits of their own), `dyn-del` / `dyn-add` (a group's dynamic prefix removed through DeleteDynamicNeighbor and configured again; connections from its addresses afterwards are judged against the prefixes that are left, and ListDynamicNeighbor must show exactly what is configured), `grp-upd` (UpdatePeerGroup with another hold time, family set, add-path mode, graceful restart; dynamic neighbours created afterwards are judged against the new values), and `dial`: the remote side of a non-passive neighbour listens and takes the daemon's own outgoing connection, in one third of the cases with an operator task that disables the neighbour at the instant the TCP handshake completes (after the connect task queued the socket, before the dispatch loop took it). Oracle on the wire and on Global: a connection is served (OPEN sent) iff the reference admission predicate holds, otherwise closed before any OPEN byte; the OPEN's AS (confederation id towards non-members), hold time, router id and capability list (families, add-path, graceful restart with its time and families, LLGR with its families and stale times, 4-octet AS) equal the neighbour's or group's configuration; the prefix limits in the peer record equal the configured ones; role read back from the peer record equals the reference; both negotiate(a,b)/negotiate(b,a) give mirror-image parameters; a dynamic neighbour's record disappears when its last connection ends. non-trivial = at least one dynamic neighbour was created or one connection was refused".into(),
            components_real: vec!["accept_connection, Global::add_peer, PeerParams::{build,build_local_cap}, Peer::peer_role, PeerSession::run (delete-on-disconnect)".into(), "packet::{IpNet::contains, PeerCodec::negotiate}".into(), "fsm::PeerFsm (effective send-max)".into(), "GrpcService::{disable_peer,enable_peer}".into()],
            components_stubbed: vec!["TCP (the remote address is whatever the scenario says), clock, listener loop, remote speakers".into()],
            assumptions: vec!["where several dynamic prefixes match, any matching group may be chosen (the statement does not pick one)".into()],
            bounds: "<=30 ops, <=3 static neighbours, <=3 groups, 11 source addresses".into(),
        }
    }
}

fn contains(prefix: &str, addr: &IpAddr) -> bool {
    let (p, l) = prefix.split_once('/').unwrap();
    let len: u32 = l.parse().unwrap();
    match (IpAddr::from_str(p).unwrap(), addr) {
        (IpAddr::V4(p), IpAddr::V4(a)) => len == 0 || (u32::from(p) >> (32 - len)) == (u32::from(*a) >> (32 - len)),
        (IpAddr::V6(p), IpAddr::V6(a)) => len == 0 || (u128::from(p) >> (128 - len)) == (u128::from(*a) >> (128 - len)),
        _ => false,
    }
}

fn afi_safis_msg(fam_mask: u64, addpath: u8, gr: bool, plimit: u32, llgr: u32) -> Vec<api::AfiSafi> {
    fams_of(fam_mask)
        .iter()
        .map(|f| api::AfiSafi {
            config: Some(api::AfiSafiConfig { family: Some(crate::convert::family_to_api(*f)), enabled: true }),
            add_paths: Some(api::AddPaths { config: Some(api::AddPathsConfig { receive: addpath & 1 != 0, send_max: if addpath & 2 != 0 { 2 } else { 0 } }), state: None }),
            mp_graceful_restart: if gr { Some(api::MpGracefulRestart { config: Some(api::MpGracefulRestartConfig { enabled: true }), state: None }) } else { None },
            prefix_limits: if plimit > 0 { Some(api::PrefixLimit { family: Some(crate::convert::family_to_api(*f)), max_prefixes: plimit, shutdown_threshold_pct: 0 }) } else { None },
            long_lived_graceful_restart: if llgr > 0 { Some(api::LongLivedGracefulRestart { config: Some(api::LongLivedGracefulRestartConfig { enabled: true, restart_time: llgr }), state: None }) } else { None },
            ..Default::default()
        })
        .collect()
}

/// A peer group as an operator configures it through AddPeerGroup.
fn api_group_msg(name: &str, g: &GroupCfg) -> api::PeerGroup {
    api::PeerGroup {
        conf: Some(api::PeerGroupConf { peer_group_name: name.to_string(), peer_asn: g.asn, ..Default::default() }),
        timers: Some(api::Timers { config: Some(api::TimersConfig { hold_time: g.hold, ..Default::default() }), state: None }),
        afi_safis: afi_safis_msg(g.fam_mask, g.addpath, g.gr, 0, g.llgr),
        route_server: Some(api::RouteServer { route_server_client: g.rs, secondary_route: false }),
        graceful_restart: if g.gr { Some(api::GracefulRestart { enabled: true, restart_time: 77, notification_enabled: true, ..Default::default() }) } else { None },
        ..Default::default()
    }
}

fn api_peer_msg(a: &ApiPeerCfg) -> api::Peer {
    let afi_safis = afi_safis_msg(a.fam_mask, a.addpath, a.gr, a.plimit, a.llgr);
    api::Peer {
        conf: Some(api::PeerConf { neighbor_address: a.addr.clone(), peer_asn: a.asn, peer_group: if a.group >= 0 { format!("g{}", a.group) } else { String::new() }, ..Default::default() }),
        timers: Some(api::Timers { config: Some(api::TimersConfig { hold_time: a.hold, ..Default::default() }), state: None }),
        transport: Some(api::Transport { passive_mode: true, ..Default::default() }),
        afi_safis,
        graceful_restart: if a.gr { Some(api::GracefulRestart { enabled: true, restart_time: 77, notification_enabled: true, ..Default::default() }) } else { None },
        route_server: Some(api::RouteServer { route_server_client: a.rs, secondary_route: false }),
        route_reflector: Some(api::RouteReflector { route_reflector_client: a.rr, route_reflector_cluster_id: String::new() }),
        ..Default::default()
    }
}

/// What the statement says the neighbour's settings are: its own, else its group's.
fn effective_cfg(a: &ApiPeerCfg, grp: Option<&GroupCfg>) -> StaticCfg {
    let own_fams = a.fam_mask != 0;
    StaticCfg {
        addr: a.addr.clone(),
        asn: if a.asn != 0 { a.asn } else { grp.map(|g| g.asn).unwrap_or(0) },
        hold: if a.hold != 0 { a.hold } else { grp.map(|g| g.hold).filter(|h| *h != 0).unwrap_or(180) },
        admin_down: false,
        rs: a.rs || grp.is_some_and(|g| g.rs),
        rr: a.rr,
        fam_mask: if own_fams { a.fam_mask } else { grp.map(|g| g.fam_mask).unwrap_or(0) },
        addpath: if own_fams { a.addpath } else { grp.map(|g| if g.fam_mask != 0 { g.addpath } else { 0 }).unwrap_or(0) },
        gr: (a.gr && own_fams) || grp.is_some_and(|g| g.gr),
        active: false,
        plimit: if own_fams { a.plimit } else { 0 },
        gr_mask: if a.gr && own_fams { a.fam_mask } else { grp.map(|g| g.fam_mask).unwrap_or(0) },
        llgr: if a.llgr > 0 && own_fams { a.llgr } else { grp.map(|g| g.llgr).unwrap_or(0) },
        llgr_mask: if a.llgr > 0 && own_fams { a.fam_mask } else { grp.map(|g| g.fam_mask).unwrap_or(0) },
    }
}

async fn run(case: Json, tol: Tolerate) -> Outcome {
    let mut out = Outcome::default();
    let confed = case.get("confed").map(|b| b.as_bool()).unwrap_or(false);
    let mut statics: Vec<StaticCfg> = case
        .get("statics")
        .map(|s| {
            s.arr()
                .iter()
                .map(|j| StaticCfg {
                    addr: j.s("addr").to_string(),
                    asn: j.i("asn", 65001) as u32,
                    hold: j.i("hold", 90) as u64,
                    admin_down: j.get("admin_down").map(|b| b.as_bool()).unwrap_or(false),
                    rs: j.get("rs").map(|b| b.as_bool()).unwrap_or(false),
                    rr: j.get("rr").map(|b| b.as_bool()).unwrap_or(false),
                    fam_mask: j.i("fams", 0) as u64,
                    addpath: j.i("addpath", 0) as u8,
                    gr: j.get("gr").map(|b| b.as_bool()).unwrap_or(false),
                    active: j.get("active").map(|b| b.as_bool()).unwrap_or(false),
                    plimit: 0,
                    gr_mask: j.i("fams", 0) as u64,
                    llgr: 0,
                    llgr_mask: 0,
                })
                .collect()
        })
        .unwrap_or_default();
    let mut groups: Vec<GroupCfg> = case
        .get("groups")
        .map(|s| {
            s.arr()
                .iter()
                .map(|j| GroupCfg {
                    prefix: j.s("prefix").to_string(),
                    prefix2: j.get("prefix2").filter(|x| matches!(x, Json::Str(_))).map(|x| x.as_str().to_string()),
                    asn: j.i("asn", 0) as u32,
                    hold: j.i("hold", 0) as u64,
                    rs: j.get("rs").map(|b| b.as_bool()).unwrap_or(false),
                    rr: false,
                    fam_mask: j.i("fams", 0) as u64,
                    addpath: j.i("addpath", 0) as u8,
                    gr: j.get("gr").map(|b| b.as_bool()).unwrap_or(false) && j.i("fams", 0) != 0,
                    llgr: if j.i("fams", 0) != 0 { j.i("llgr", 0) as u32 } else { 0 },
                })
                .collect()
        })
        .unwrap_or_default();

    let mut api_peers: Vec<ApiPeerCfg> = case
        .get("api_peers")
        .map(|s| {
            s.arr()
                .iter()
                .map(|j| ApiPeerCfg {
                    addr: j.s("addr").to_string(),
                    asn: j.i("asn", 0) as u32,
                    hold: j.i("hold", 0) as u64,
                    fam_mask: j.i("fams", 0) as u64,
                    addpath: j.i("addpath", 0) as u8,
                    gr: j.get("gr").map(|b| b.as_bool()).unwrap_or(false),
                    plimit: j.i("plimit", 0) as u32,
                    rs: j.get("rs").map(|b| b.as_bool()).unwrap_or(false),
                    rr: j.get("rr").map(|b| b.as_bool()).unwrap_or(false),
                    group: j.i("group", -1),
                    llgr: j.i("llgr", 0) as u32,
                })
                .collect()
        })
        .unwrap_or_default();
    let mut wcfg = WorldCfg::default();
    if confed {
        wcfg.confed = Some((64512, vec![65000, 65100]));
    }
    for s in &statics {
        let mut ps = PeerSpec::new(s.addr.parse().unwrap(), s.asn);
        ps.holdtime = s.hold;
        ps.admin_down = s.admin_down;
        ps.passive = !s.active;
        ps.rs_client = s.rs;
        ps.rr_client = s.rr;
        ps.families = fams_of(s.fam_mask).into_iter().map(|f| (f, s.addpath & 3)).collect();
        if s.addpath & 2 != 0 {
            ps.send_max = fams_of(s.fam_mask).into_iter().map(|f| (f, 3)).collect();
        }
        if s.gr && s.fam_mask != 0 {
            ps.gr = Some((77, true, fams_of(s.fam_mask)));
        }
        wcfg.peers.push(ps);
    }
    let w = World::new(&wcfg).await;
    // peer groups and their dynamic prefixes, as an operator configures them: AddPeerGroup + AddDynamicNeighbor
    for (i, gc) in groups.iter().enumerate() {
        let name = format!("g{}", i);
        w.grpc.add_peer_group(tonic::Request::new(api::AddPeerGroupRequest { peer_group: Some(api_group_msg(&name, gc)) })).await.expect("add_peer_group");
        w.grpc.add_dynamic_neighbor(tonic::Request::new(api::AddDynamicNeighborRequest { dynamic_neighbor: Some(api::DynamicNeighbor { prefix: gc.prefix.clone(), peer_group: name.clone() }) })).await.expect("add_dynamic_neighbor");
        if let Some(p2) = &gc.prefix2 {
            w.grpc.add_dynamic_neighbor(tonic::Request::new(api::AddDynamicNeighborRequest { dynamic_neighbor: Some(api::DynamicNeighbor { prefix: p2.clone(), peer_group: name }) })).await.expect("add_dynamic_neighbor (second prefix)");
        }
    }
    let pool: Vec<IpAddr> = addr_pool().iter().map(|a| a.parse().unwrap()).collect();
    let mut conns: BTreeMap<usize, Speaker> = BTreeMap::new();
    let mut admin_down: Vec<bool> = statics.iter().map(|s| s.admin_down).collect();
    let mut refused = 0u64;
    let mut dynamic_created = 0u64;
    // whether a group's dynamic prefix is configured at the moment (DeleteDynamicNeighbor / AddDynamicNeighbor)
    let mut grp_active: Vec<[bool; 2]> = groups.iter().map(|g| [true, g.prefix2.is_some()]).collect();
    let group_prefixes = |g: &GroupCfg, act: &[bool; 2]| -> Vec<String> {
        let mut v = Vec::new();
        if act[0] {
            v.push(g.prefix.clone());
        }
        if act[1] {
            if let Some(p) = &g.prefix2 {
                v.push(p.clone());
            }
        }
        v
    };

    macro_rules! fail {
        ($class:expr, $($arg:tt)*) => {{
            let v = Violation::new(format!("C16/{}", $class), format!($($arg)*));
            if out.violate(&tol, v) { out.vtime_ms = net::now_ms(); out.nontrivial = refused + dynamic_created > 0; return out; }
        }};
    }

    let ops: Vec<Json> = case.get("ops").map(|o| o.arr().to_vec()).unwrap_or_default();
    for (opi, op) in ops.iter().enumerate() {
        let tag = op.at(0).as_str().to_string();
        match tag.as_str() {
            "conn" | "second" | "dial" => {
                let dial = tag == "dial";
                let race_mode = dial && op.at(5).as_bool();
                let mut dialled: Option<net::TcpStream> = None;
                let a = if dial { usize::MAX } else { op.at(1).as_usize() % pool.len() };
                let addr = if dial { statics[op.at(1).as_usize() % statics.len()].addr.parse::<IpAddr>().unwrap() } else { pool[a] };
                if dial {
                    // The daemon's own (active) connection to a configured neighbour: the remote side
                    // listens for up to 8 virtual seconds. In race mode an operator disables the
                    // neighbour at the instant the TCP handshake completes, that is after the connect
                    // task queued the socket and before the dispatch loop has taken it.
                    let i = op.at(1).as_usize() % statics.len();
                    if !statics[i].active {
                        continue;
                    }
                    let race = op.at(5).as_bool();
                    let la = SocketAddr::new(addr, Global::BGP_PORT);
                    let mut rx = net::listen(la);
                    let (stx, mut srx) = mpsc::unbounded_channel::<(net::TcpStream, bool)>();
                    let operator = GrpcService::new(Arc::new(tokio::sync::Notify::new()), w.active_tx.clone(), w.global.clone(), w.tables.clone());
                    let address = statics[i].addr.clone();
                    let gl = w.global.clone();
                    let jh = tokio::spawn(async move {
                        if let Some(s) = rx.recv().await {
                            // had the dispatch loop already admitted the connection (possible only when
                            // both were runnable before this task was first polled)?
                            let admitted_before = {
                                let g = gl.read().await;
                                g.peers.get(&addr).map(|p| p.context.lock().unwrap().conn_arbiter.lock().unwrap().is_slot_taken(crate::fsm::Role::Active)).unwrap_or(false)
                            };
                            net::log_event("dial-taken", race as u64, admitted_before as u64);
                            if race {
                                let _ = operator.disable_peer(tonic::Request::new(api::DisablePeerRequest { address, ..Default::default() })).await;
                            }
                            let _ = stx.send((s, admitted_before));
                        }
                    });
                    let mut admitted_before = false;
                    for _ in 0..80 {
                        tokio::time::sleep(Duration::from_millis(100)).await;
                        if let Ok((s, ab)) = srx.try_recv() {
                            dialled = Some(s);
                            admitted_before = ab;
                            break;
                        }
                    }
                    net::unlisten(la);
                    jh.abort();
                    if dialled.is_none() {
                        out.hit("op.dial.daemon-did-not-connect");
                        continue;
                    }
                    out.hit("op.dial.daemon-connected");
                    if race {
                        admin_down[i] = true;
                        if admitted_before {
                            // admitted while administratively up, then shut down: nothing to judge here
                            out.hit("op.dial.disable-came-after-dispatch");
                            if let Some(s) = dialled.take() {
                                drop(s);
                            }
                            continue;
                        }
                        out.hit("fault.disable-between-tcp-connect-and-dispatch");
                    }
                }
                // (an op that ended early - a dial the daemon did not take up - leaves the sockets unread while
                // virtual time passed: a hold timer may have ended the connection meanwhile)
                if !dial {
                    if let Some(sp) = conns.get_mut(&a) {
                        sp.process_inbox(net::now_ms());
                    }
                }
                let has = !dial && conns.get(&a).map(|s| s.conn.is_some() && s.state != SpkState::Closed).unwrap_or(false);
                if net::trace_on() {
                    eprintln!("[trace] op {} {}: has={} speaker {:?}", opi, op.to_compact(), has, conns.get(&a).map(|s| (s.state, s.conn.as_ref().map(|c| (c.conn_id(), c.ctl().peer_closed())), s.notifications.len(), s.keepalive_times.len())));
                }
                if tag == "conn" && has {
                    continue;
                }
                if tag == "second" && !has {
                    continue;
                }
                // reference admission predicate
                let st = statics.iter().position(|s| s.addr.parse::<IpAddr>().unwrap() == addr);
                let matching: Vec<&GroupCfg> = groups.iter().enumerate().filter(|(gi, g)| group_prefixes(g, &grp_active[*gi]).iter().any(|p| contains(p, &addr))).map(|(_, g)| g).collect();
                let dyn_exists = { w.global.read().await.peers.contains_key(&addr) } && st.is_none();
                let expect_admit = match st {
                    Some(i) => !admin_down[i] && !has,
                    None => (!matching.is_empty() || dyn_exists) && !has,
                };
                // remote capability list drawn by the scenario
                let r_fams = fams_of(op.at(3).as_u64() | 1);
                let r_ap = op.at(4).as_u64() as u8;
                let asn = match st {
                    Some(i) => statics[i].asn,
                    None => matching.first().map(|g| if g.asn == 0 { 65333 } else { g.asn }).unwrap_or(65444),
                };
                let mut caps: Vec<packet::Capability> = r_fams.iter().map(|f| packet::Capability::MultiProtocol(*f)).collect();
                if r_ap != 0 {
                    caps.push(packet::Capability::AddPath(r_fams.iter().map(|f| (*f, r_ap)).collect()));
                }
                caps.push(packet::Capability::FourOctetAsNumber(asn));
                if op.at(2).as_u64() & 1 != 0 {
                    caps.push(packet::Capability::ExtendedMessage);
                }
                if op.at(2).as_u64() & 2 != 0 {
                    caps.push(packet::Capability::GracefulRestart { flags: 0x4, restart_time: 60, families: r_fams.iter().map(|f| (*f, 0x80)).collect() });
                }
                let rid = match addr {
                    IpAddr::V4(x) => u32::from(x),
                    _ => 0x0909_0900 + a as u32,
                };
                let mut sp = Speaker::new(addr, asn, rid, 90, caps);
                sp.auto_open = false;
                sp.auto_ka = false;
                match dialled.take() {
                    Some(s) => sp.attach(s),
                    None => sp.connect(&w, &PipeOpts::default(), &PipeOpts::default()),
                }
                for _ in 0..3 {
                    w.quiesce().await;
                    sp.process_inbox(net::now_ms());
                }
                let got_open = sp.dut_open.is_some();
                let closed = sp.state == SpkState::Closed;
                if dial && race_mode {
                    // The operator's DisablePeer and the dispatch loop's admission both take the global lock,
                    // in an order the schedule decides (the operator task looked at the slot before it asked
                    // for the lock): either the neighbour was already administratively down when the socket
                    // was dispatched (nothing is sent), or the connection was admitted first and DisablePeer
                    // then tears it down (an OPEN and / or a Cease may have gone out). What may not happen
                    // is a connection of the disabled neighbour that stays.
                    if !closed {
                        fail!("admission/admin-down-neighbour-served/outgoing-connection", "op {} {}: from {}: the neighbour was disabled while its outgoing connection was being set up and the connection is still open (OPEN received={})", opi, op.to_compact(), addr, got_open);
                    } else if got_open || sp.bytes_rx > 0 {
                        out.hit("op.dial.admitted-then-torn-down-by-disable");
                    } else {
                        refused += 1;
                    }
                    sp.close();
                    continue;
                }
                out.hit(if expect_admit { "op.connect.expected-served" } else { "op.connect.expected-refused" });
                if expect_admit != got_open {
                    let why = match (st, expect_admit) {
                        (Some(_), false) if has => "second-connection-same-direction-served",
                        (Some(_), false) if dial => "admin-down-neighbour-served/outgoing-connection",
                        (Some(_), false) => "admin-down-neighbour-served",
                        (None, false) => "unknown-address-served",
                        (Some(_), true) => "configured-neighbour-refused",
                        (None, true) => "dynamic-neighbour-refused",
                    };
                    fail!(format!("admission/{}", why), "op {} {}: from {} (static {:?}, matching groups {:?}): expected served={}, OPEN received={}, closed={}", opi, op.to_compact(), addr, st, matching.iter().map(|g| &g.prefix).collect::<Vec<_>>(), expect_admit, got_open, closed);
                } else if !expect_admit {
                    refused += 1;
                    if !closed || sp.bytes_rx > 0 {
                        fail!("admission/refused-connection-not-closed-before-open", "op {}: {} bytes received, closed={}", opi, sp.bytes_rx, closed);
                    }
                }
                if got_open {
                    let o = sp.dut_open.clone().unwrap();
                    // what the configuration says
                    let (exp_hold, exp_fam_mask, exp_ap, exp_asn_peer): (Vec<u64>, Vec<u64>, Vec<u8>, Vec<u32>) = match st {
                        Some(i) => (vec![statics[i].hold], vec![statics[i].fam_mask], vec![statics[i].addpath & 3], vec![statics[i].asn]),
                        None => (
                            matching.iter().map(|g| if g.hold == 0 { 180 } else { g.hold }).collect(),
                            matching.iter().map(|g| g.fam_mask).collect(),
                            matching.iter().map(|g| g.addpath & 3).collect(),
                            matching.iter().map(|g| g.asn).collect(),
                        ),
                    };
                    if st.is_none() {
                        dynamic_created += 1;
                        out.hit("probe.dynamic-neighbour-created");
                    }
                    if !exp_hold.contains(&(o.holdtime.seconds() as u64)) {
                        fail!("open/hold-time-differs-from-configuration", "op {}: OPEN hold {} expected one of {:?}", opi, o.holdtime.seconds(), exp_hold);
                    }
                    if o.router_id != u32::from(Ipv4Addr::new(10, 0, 0, 254)) {
                        fail!("open/router-id-differs", "op {}: {:#x}", opi, o.router_id);
                    }
                    // AS: confederation id towards non-members, member AS towards members
                    let exp_as: Vec<u32> = exp_asn_peer.iter().map(|pa| if confed && !(*pa == 65000 || *pa == 65100) { 64512 } else { 65000 }).collect();
                    if !exp_as.contains(&o.as_number) {
                        fail!("open/local-as-differs-from-configuration", "op {}: OPEN AS {} expected one of {:?} (confed {})", opi, o.as_number, exp_as, confed);
                    }
                    // families: exactly the configured ones (default: the address family of the transport)
                    let got_fams: BTreeSet<u32> = o.capability.iter().filter_map(|c| if let packet::Capability::MultiProtocol(f) = c { Some(fam_key(*f)) } else { None }).collect();
                    let ok_f = exp_fam_mask.iter().any(|m| {
                        let e: BTreeSet<u32> = if *m == 0 { [fam_key(if addr.is_ipv4() { Family::IPV4 } else { Family::IPV6 })].into_iter().collect() } else { fams_of(*m).into_iter().map(fam_key).collect() };
                        e == got_fams
                    });
                    if !ok_f {
                        fail!("open/families-differ-from-configuration", "op {}: OPEN families {:?}, configured masks {:?}", opi, got_fams, exp_fam_mask);
                    }
                    let got_ap: BTreeSet<(u32, u8)> = o.capability.iter().filter_map(|c| if let packet::Capability::AddPath(v) = c { Some(v.clone()) } else { None }).flatten().map(|(f, m)| (fam_key(f), m)).collect();
                    let ok_ap = exp_fam_mask.iter().zip(exp_ap.iter()).any(|(m, ap)| {
                        let e: BTreeSet<(u32, u8)> = if *ap == 0 { BTreeSet::new() } else { fams_of(*m).into_iter().map(|f| (fam_key(f), *ap)).collect() };
                        e == got_ap
                    });
                    if !ok_ap {
                        fail!("open/add-path-differs-from-configuration", "op {}: OPEN add-path {:?}, configured {:?}/{:?}", opi, got_ap, exp_fam_mask, exp_ap);
                    }
                    if !o.capability.iter().any(|c| matches!(c, packet::Capability::FourOctetAsNumber(_))) {
                        fail!("open/no-four-octet-as-capability", "op {}", opi);
                    }
                    // graceful restart: advertised iff configured, with the configured time and families
                    {
                        let got_gr = o.capability.iter().find_map(|c| if let packet::Capability::GracefulRestart { restart_time, families, .. } = c { Some((*restart_time, families.iter().map(|(f, _)| fam_key(*f)).collect::<BTreeSet<u32>>())) } else { None });
                        let gr_of = |on: bool, mask: u64| if on && mask != 0 { Some((77u16, fams_of(mask).into_iter().map(fam_key).collect::<BTreeSet<u32>>())) } else { None };
                        let exp_gr: Vec<Option<(u16, BTreeSet<u32>)>> = match st {
                            Some(i) => vec![gr_of(statics[i].gr, statics[i].gr_mask)],
                            None => matching.iter().map(|g| gr_of(g.gr, g.fam_mask)).collect(),
                        };
                        if !exp_gr.contains(&got_gr) {
                            fail!("open/graceful-restart-differs-from-configuration", "op {}: OPEN carries {:?}, configured {:?}", opi, got_gr, exp_gr);
                        }
                    }
                    // long-lived graceful restart: advertised iff configured, per family with its stale time
                    {
                        let got_ll: Option<BTreeSet<(u32, u32)>> = o.capability.iter().find_map(|c| if let packet::Capability::LongLivedGracefulRestart(v) = c { Some(v.iter().map(|(f, _, t)| (fam_key(*f), *t)).collect()) } else { None });
                        let ll_of = |time: u32, mask: u64| if time > 0 && mask != 0 { Some(fams_of(mask).into_iter().map(|f| (fam_key(f), time)).collect::<BTreeSet<(u32, u32)>>()) } else { None };
                        let exp_ll: Vec<Option<BTreeSet<(u32, u32)>>> = match st {
                            Some(i) => vec![ll_of(statics[i].llgr, statics[i].llgr_mask)],
                            None => matching.iter().map(|g| ll_of(g.llgr, g.fam_mask)).collect(),
                        };
                        if !exp_ll.contains(&got_ll) {
                            fail!("open/llgr-differs-from-configuration", "op {}: OPEN carries {:?}, configured {:?}", opi, got_ll, exp_ll);
                        }
                    }
                    // role as recorded for the peer
                    if let Some(i) = st {
                        let g = w.global.read().await;
                        if let Some(p) = g.peers.get(&addr) {
                            let got_pl: BTreeMap<u32, u32> = p.config.prefix_limits.iter().map(|(f, m)| (fam_key(*f), *m)).collect();
                            let exp_pl: BTreeMap<u32, u32> = if statics[i].plimit > 0 { fams_of(statics[i].fam_mask).into_iter().map(|f| (fam_key(f), statics[i].plimit)).collect() } else { BTreeMap::new() };
                            if got_pl != exp_pl {
                                fail!("setup/prefix-limits-differ-from-configuration", "op {}: neighbour {} has prefix limits {:?}, configured {:?}", opi, addr, got_pl, exp_pl);
                            }
                            let role = p.peer_role(&g);
                            let exp = if statics[i].rs {
                                table::PeerRole::RsClient
                            } else if statics[i].asn == 65000 {
                                if statics[i].rr { table::PeerRole::IbgpRrClient } else { table::PeerRole::Ibgp }
                            } else if confed && statics[i].asn == 65100 {
                                table::PeerRole::ConfedEbgp
                            } else {
                                table::PeerRole::Ebgp
                            };
                            if role != exp {
                                fail!("setup/role-differs-from-configuration", "op {}: {:?} expected {:?}", opi, role, exp);
                            }
                        }
                    }
                    // mirror-image negotiation of the two capability lists
                    let a_side = bgp::PeerCodec::negotiate(&o.capability, &sp.caps);
                    let b_side = bgp::PeerCodec::negotiate(&sp.caps, &o.capability);
                    let adv = |caps: &[packet::Capability], f: Family| caps.iter().any(|c| matches!(c, packet::Capability::MultiProtocol(x) if *x == f));
                    for f in ALLF {
                        let both = adv(&o.capability, f) && adv(&sp.caps, f);
                        if a_side.has_family(f) != both || b_side.has_family(f) != both {
                            fail!("negotiate/family-in-force-iff-both-advertised", "op {}: family {:?}: both={} dut-side={} peer-side={}", opi, f, both, a_side.has_family(f), b_side.has_family(f));
                        }
                        if both {
                            let (sa, sb) = (a_side.family_state(f).unwrap(), b_side.family_state(f).unwrap());
                            if sa.addpath_tx != sb.addpath_rx || sa.addpath_rx != sb.addpath_tx {
                                fail!("negotiate/add-path-not-mirror-image", "op {}: family {:?}: dut tx={} rx={} peer tx={} rx={}", opi, f, sa.addpath_tx, sa.addpath_rx, sb.addpath_tx, sb.addpath_rx);
                            }
                        }
                    }
                    if a_side.extended_length != b_side.extended_length || a_side.two_byte_as != b_side.two_byte_as || a_side.max_message_length() != b_side.max_message_length() {
                        fail!("negotiate/extended-message-or-as4-not-symmetric", "op {}", opi);
                    }
                }
                if tag == "conn" {
                    if got_open {
                        conns.insert(a, sp);
                    } else {
                        sp.close();
                    }
                } else {
                    sp.close();
                }
            }
            "handshake" => {
                let a = op.at(1).as_usize() % pool.len();
                if let Some(sp) = conns.get_mut(&a) {
                    if sp.conn.is_some() && sp.state != SpkState::Established && sp.state != SpkState::Closed {
                        sp.send_open();
                        w.quiesce().await;
                        sp.process_inbox(net::now_ms());
                        sp.send_keepalive();
                        w.quiesce().await;
                        sp.process_inbox(net::now_ms());
                        if sp.state == SpkState::OpenConfirm || sp.keepalive_times.len() > 0 {
                            sp.state = SpkState::Established;
                            out.hit("op.handshake-completed");
                        }
                    }
                }
            }
            "close" => {
                let a = op.at(1).as_usize() % pool.len();
                if let Some(mut sp) = conns.remove(&a) {
                    sp.close();
                    out.hit("op.close");
                }
            }
            "disable" | "enable" => {
                let i = op.at(1).as_usize() % statics.len();
                let address = statics[i].addr.clone();
                if tag == "disable" {
                    let _ = w.grpc.disable_peer(tonic::Request::new(api::DisablePeerRequest { address, ..Default::default() })).await;
                    admin_down[i] = true;
                } else {
                    let _ = w.grpc.enable_peer(tonic::Request::new(api::EnablePeerRequest { address, ..Default::default() })).await;
                    admin_down[i] = false;
                }
                out.hit(&format!("op.{}", tag));
            }
            "api-add" | "api-upd" if !api_peers.is_empty() => {
                let k = op.at(1).as_usize() % api_peers.len();
                let existing = statics.iter().position(|s| s.addr == api_peers[k].addr);
                if (tag == "api-add") == existing.is_some() {
                    continue;
                }
                if tag == "api-upd" {
                    // UpdatePeer declares the neighbour's full desired state: new values of its own for
                    // hold time, families, add-path, graceful restart and prefix limits (group
                    // membership, AS and the RS / RR flags stay). Our side closes first, so that the next
                    // connection is judged against the new settings.
                    let a = &mut api_peers[k];
                    a.hold = op.at(2).as_u64();
                    a.fam_mask = op.at(3).as_u64();
                    a.addpath = if a.fam_mask != 0 { op.at(4).as_u64() as u8 } else { 0 };
                    a.gr = a.fam_mask != 0 && op.at(5).as_bool();
                    a.plimit = if a.fam_mask != 0 { op.at(6).as_u64() as u32 } else { 0 };
                    a.llgr = if a.fam_mask != 0 { op.at(7).as_u64() as u32 } else { 0 };
                    let pa = pool.iter().position(|x| x.to_string() == a.addr);
                    if let Some(mut sp) = pa.and_then(|x| conns.remove(&x)) {
                        sp.close();
                        w.quiesce().await;
                    }
                }
                let a = api_peers[k].clone();
                let grp = if a.group >= 0 { groups.get(a.group as usize) } else { None };
                let peer = api_peer_msg(&a);
                let r = if tag == "api-add" {
                    w.grpc.add_peer(tonic::Request::new(api::AddPeerRequest { peer: Some(peer) })).await.map(|_| ())
                } else {
                    w.grpc.update_peer(tonic::Request::new(api::UpdatePeerRequest { peer: Some(peer), do_soft_reset_in: false })).await.map(|_| ())
                };
                match r {
                    Ok(_) => {
                        let eff = effective_cfg(&a, grp);
                        match existing {
                            Some(i) => {
                                let down = statics[i].admin_down;
                                statics[i] = eff;
                                statics[i].admin_down = down;
                                out.hit(if grp.is_some() { "op.api-neighbour-updated-in-group" } else { "op.api-neighbour-updated" });
                            }
                            None => {
                                statics.push(eff);
                                admin_down.push(false);
                                out.hit(if grp.is_some() { "op.api-neighbour-added-in-group" } else { "op.api-neighbour-added" });
                            }
                        }
                    }
                    Err(_) => out.hit("op.api-neighbour-refused"),
                }
            }
            "grp-upd" if !groups.is_empty() => {
                // UpdatePeerGroup with a new hold time, family set, add-path mode and graceful restart.
                // Dynamic neighbours that exist were set up from the old values: our side closes their
                // connections first, so that every dynamic neighbour judged from here on is a new one.
                let gi = op.at(1).as_usize() % groups.len();
                let dynamic: Vec<usize> = conns.keys().copied().filter(|a| !statics.iter().any(|s| s.addr == pool[*a].to_string())).collect();
                for a in dynamic {
                    if let Some(mut sp) = conns.remove(&a) {
                        sp.close();
                    }
                }
                for _ in 0..3 {
                    w.quiesce().await;
                }
                let mut g2 = groups[gi].clone();
                g2.hold = op.at(2).as_u64();
                g2.fam_mask = op.at(3).as_u64();
                g2.addpath = op.at(4).as_u64() as u8;
                g2.gr = op.at(5).as_bool() && g2.fam_mask != 0;
                g2.llgr = if g2.fam_mask != 0 { op.at(6).as_u64() as u32 } else { 0 };
                let name = format!("g{}", gi);
                if w.grpc.update_peer_group(tonic::Request::new(api::UpdatePeerGroupRequest { peer_group: Some(api_group_msg(&name, &g2)), ..Default::default() })).await.is_ok() {
                    groups[gi] = g2;
                    out.hit("op.peer-group-updated");
                }
            }
            "dyn-del" | "dyn-add" if !groups.is_empty() => {
                // The operator takes a group's dynamic prefix away (DeleteDynamicNeighbor) or configures it
                // again. Dynamic neighbours that exist were admitted under the old configuration: our side
                // closes their connections first, so that every connection judged from here on is a new one.
                let gi = op.at(1).as_usize() % groups.len();
                let dynamic: Vec<usize> = conns.keys().copied().filter(|a| !statics.iter().any(|s| s.addr == pool[*a].to_string())).collect();
                for a in dynamic {
                    if let Some(mut sp) = conns.remove(&a) {
                        sp.close();
                    }
                }
                for _ in 0..3 {
                    w.quiesce().await;
                }
                let name = format!("g{}", gi);
                let pi = if groups[gi].prefix2.is_some() { op.at(2).as_usize() % 2 } else { 0 };
                let pfx = if pi == 0 { groups[gi].prefix.clone() } else { groups[gi].prefix2.clone().unwrap() };
                if tag == "dyn-del" {
                    let r = w.grpc.delete_dynamic_neighbor(tonic::Request::new(api::DeleteDynamicNeighborRequest { prefix: pfx.clone(), peer_group: name })).await;
                    if r.is_ok() != grp_active[gi][pi] {
                        fail!("config/delete-dynamic-neighbor-result", "op {} {}: prefix {} of group {} configured={} but DeleteDynamicNeighbor ok={}", opi, op.to_compact(), pfx, gi, grp_active[gi][pi], r.is_ok());
                    }
                    grp_active[gi][pi] = false;
                    out.hit("op.dynamic-prefix-deleted");
                } else {
                    let r = w.grpc.add_dynamic_neighbor(tonic::Request::new(api::AddDynamicNeighborRequest { dynamic_neighbor: Some(api::DynamicNeighbor { prefix: pfx.clone(), peer_group: name }) })).await;
                    if r.is_ok() {
                        grp_active[gi][pi] = true;
                        out.hit("op.dynamic-prefix-added");
                    } else if !grp_active[gi][pi] {
                        fail!("config/add-dynamic-neighbor-refused", "op {} {}: prefix {} of group {} is not configured but AddDynamicNeighbor was refused: {:?}", opi, op.to_compact(), pfx, gi, r.err());
                    }
                }
                // what the daemon lists is what is configured
                if let Ok(r) = w.grpc.list_dynamic_neighbor(tonic::Request::new(api::ListDynamicNeighborRequest { peer_group: String::new() })).await {
                    let mut st = r.into_inner();
                    let mut listed: BTreeSet<(String, String)> = BTreeSet::new();
                    while let Ok(Some(Ok(x))) = tokio::time::timeout(Duration::from_millis(20), st.next()).await {
                        if let Some(d) = x.dynamic_neighbor {
                            listed.insert((d.peer_group, d.prefix));
                        }
                    }
                    let mut want: BTreeSet<(String, String)> = BTreeSet::new();
                    for (k, g) in groups.iter().enumerate() {
                        for p in group_prefixes(g, &grp_active[k]) {
                            want.insert((format!("g{}", k), p));
                        }
                    }
                    if listed != want {
                        fail!("config/dynamic-prefixes-differ-from-what-was-configured", "op {} {}: ListDynamicNeighbor shows {:?}, configured {:?}", opi, op.to_compact(), listed, want);
                        // resynchronise the model with the daemon
                        for (k, g) in groups.iter().enumerate() {
                            grp_active[k][0] = listed.contains(&(format!("g{}", k), g.prefix.clone()));
                            grp_active[k][1] = g.prefix2.as_ref().is_some_and(|p| listed.contains(&(format!("g{}", k), p.clone())));
                        }
                    }
                }
            }
            "api-del" if !api_peers.is_empty() => {
                let a = &api_peers[op.at(1).as_usize() % api_peers.len()];
                if let Some(i) = statics.iter().position(|s| s.addr == a.addr) {
                    let _ = w.grpc.delete_peer(tonic::Request::new(api::DeletePeerRequest { address: a.addr.clone(), ..Default::default() })).await;
                    statics.remove(i);
                    admin_down.remove(i);
                    out.hit("op.api-neighbour-deleted");
                }
            }
            "wait" => {
                tokio::time::sleep(Duration::from_millis(op.at(1).as_u64())).await;
            }
            _ => {}
        }
        // quiescence; forget connections the DUT closed
        for _ in 0..3 {
            w.quiesce().await;
            let now = net::now_ms();
            for sp in conns.values_mut() {
                sp.process_inbox(now);
            }
        }
        let dead: Vec<usize> = conns.iter().filter(|(_, s)| s.state == SpkState::Closed).map(|(k, _)| *k).collect();
        for k in dead {
            if let Some(mut s) = conns.remove(&k) {
                s.close();
            }
        }
        w.quiesce().await;
        // a dynamic neighbour's state disappears when its last connection ends
        let g = w.global.read().await;
        for (a, addr) in pool.iter().enumerate() {
            let is_static = statics.iter().any(|s| s.addr.parse::<IpAddr>().unwrap() == *addr);
            if !is_static && !conns.contains_key(&a) && g.peers.contains_key(addr) {
                let v = Violation::new("C16/dynamic/neighbour-record-survives-its-last-connection", format!("op {} {}: {} still in Global.peers with no connection", opi, op.to_compact(), addr));
                if out.violate(&tol, v) {
                    out.vtime_ms = net::now_ms();
                    return out;
                }
            }
        }
        for s in &statics {
            if !g.peers.contains_key(&s.addr.parse::<IpAddr>().unwrap()) {
                let v = Violation::new("C16/static/configured-neighbour-vanished", format!("op {}: {}", opi, s.addr));
                if out.violate(&tol, v) {
                    out.vtime_ms = net::now_ms();
                    return out;
                }
            }
        }
    }
    out.count("probe.connections-refused", refused);
    out.nontrivial = refused + dynamic_created > 0;
    out.vtime_ms = net::now_ms();
    out
}
