//! C13 — the installed VRPs always equal what the RPKI cache has announced so far.
//! Tier D fragment: the real RTR client (`RpkiClient::try_connect` -> `serve` -> `serve_inner`,
//! `RtrCodec` under tokio's `Framed`) and the real `TableManager::rpki_*` over the simulated
//! transport, against 1-3 scripted RFC 6810/8210 caches.

use super::super::*;
use super::c08::fix_task_panic;
use super::world::*;
use crate::verif_net as net;
use crate::verif_net::{Frag, PipeOpts, TcpStream as SimStream};
use std::collections::{BTreeMap, BTreeSet};
use vcore::{jarr, jobj, Check, CheckInfo, Json, Outcome, Rng, Tolerate, Violation};

pub(crate) struct RtrClient;

type Vrp = (bool, u128, u8, u8, u32); // (v6, address bits, len, maxlen, asn)

fn vrp_of(i: u64) -> Vrp {
    let asn = 65000 + (i % 4) as u32;
    if i % 3 == 2 {
        let len = 32 + (i % 17) as u8;
        let bits = ((0x2001_0db8u128) << 96) | ((i as u128 & 0xff) << 88);
        (true, bits & (u128::MAX << (128 - len as u32)), len, len + (i % 3) as u8, asn)
    } else {
        let len = 8 + (i % 17) as u8;
        let bits = (0x0a00_0000u32 | ((i as u32 & 0xff) << 16)) & (u32::MAX << (32 - len as u32));
        (false, bits as u128, len, len + (i % 4) as u8, asn)
    }
}

fn pdu(ver: u8, typ: u8, sess: u16, body: &[u8]) -> Vec<u8> {
    let mut v = vec![ver, typ];
    v.extend_from_slice(&sess.to_be_bytes());
    v.extend_from_slice(&((8 + body.len()) as u32).to_be_bytes());
    v.extend_from_slice(body);
    v
}

fn prefix_pdu(ver: u8, v: &Vrp, announce: bool) -> Vec<u8> {
    let mut b = vec![announce as u8, v.2, v.3, 0];
    if v.0 {
        b.extend_from_slice(&v.1.to_be_bytes());
    } else {
        b.extend_from_slice(&(v.1 as u32).to_be_bytes());
    }
    b.extend_from_slice(&v.4.to_be_bytes());
    pdu(ver, if v.0 { 6 } else { 4 }, 0, &b)
}

fn eod_pdu(ver: u8, sess: u16, serial: u32) -> Vec<u8> {
    let mut b = serial.to_be_bytes().to_vec();
    if ver >= 1 {
        b.extend_from_slice(&[0, 0, 14, 16, 0, 0, 2, 88, 0, 0, 28, 32]);
    }
    pdu(ver, 7, sess, &b)
}

struct Cache {
    addr: SocketAddr,
    ver: u8,
    session_id: u16,
    serial: u32,
    set: BTreeSet<Vrp>,
    /// serial -> set at that serial (for incremental answers)
    history: BTreeMap<u32, BTreeSet<Vrp>>,
    listener: Option<mpsc::UnboundedReceiver<SimStream>>,
    conn: Option<SimStream>,
    rx: Vec<u8>,
    /// what the client has been told, as of the last completed End-of-Data
    told: Option<BTreeSet<Vrp>>,
    /// pending query from the client: None, Some(None) = reset query, Some(Some(serial)) = serial query
    pending: Option<Option<(u16, u32)>>,
    queries_seen: u64,
    removed: bool,
    /// administratively disabled (DisableRpki): configured, but no session is wanted
    disabled: bool,
    told_serial: u32,
}

impl Cache {
    fn drain(&mut self) {
        if self.conn.is_none() {
            if let Some(l) = &mut self.listener {
                if let Ok(s) = l.try_recv() {
                    self.conn = Some(s);
                    self.rx.clear();
                    self.pending = None;
                }
            }
        }
        let Some(c) = &self.conn else {
            return;
        };
        self.rx.extend_from_slice(&c.read_available());
        while self.rx.len() >= 8 {
            let l = u32::from_be_bytes([self.rx[4], self.rx[5], self.rx[6], self.rx[7]]) as usize;
            if l < 8 || self.rx.len() < l {
                break;
            }
            let p: Vec<u8> = self.rx.drain(..l).collect();
            match p[1] {
                2 => {
                    self.pending = Some(None);
                    self.queries_seen += 1;
                }
                1 if l >= 12 => {
                    self.pending = Some(Some((u16::from_be_bytes([p[2], p[3]]), u32::from_be_bytes([p[8], p[9], p[10], p[11]]))));
                    self.queries_seen += 1;
                }
                _ => {}
            }
        }
        if c.ctl().peer_closed() {
            self.conn = None;
            self.pending = None;
        }
    }
}

impl Check for RtrClient {
    fn property(&self) -> &'static str {
        "C13"
    }
    fn tier(&self) -> &'static str {
        "D"
    }
    fn name(&self) -> &'static str {
        "rtr-client"
    }

    fn generate(&self, seed: u64, thorough: bool) -> Json {
        let mut rng = Rng::new(seed);
        let n_caches = rng.range(1, 3);
        let vers: Vec<Json> = (0..n_caches).map(|_| Json::from(rng.below(2))).collect();
        let frag = *rng.pick(&[0u64, 0, 1, 5, 13]);
        let lat = *rng.pick(&[0u64, 0, 3]);
        let mut ops = Vec::new();
        for k in 0..n_caches {
            ops.push(jarr!["mutate", k, Json::Arr((0..rng.range(0, 5)).map(|_| Json::from(rng.below(24))).collect()), Json::Arr(vec![])]);
            ops.push(jarr!["add", k]);
        }
        let n = rng.range(4, if thorough { 40 } else { 24 });
        for _ in 0..n {
            let k = rng.below(n_caches);
            match rng.weighted(&[24, 22, 10, 6, 6, 5, 6, 3, 3, 4, 3, 3, 3]) {
                0 => ops.push(jarr!["respond", k, *rng.pick(&["full", "full", "full", "reset", "partial"]), rng.below(200)]),
                1 => {
                    let adds: Vec<Json> = (0..rng.range(0, 3)).map(|_| Json::from(rng.below(24))).collect();
                    let dels: Vec<Json> = (0..rng.range(0, 2)).map(|_| Json::from(rng.below(24))).collect();
                    ops.push(jarr!["mutate", k, Json::Arr(adds), Json::Arr(dels)]);
                }
                2 => ops.push(jarr!["notify", k]),
                3 => ops.push(jarr!["junk", k, *rng.pick(&[9u64, 10, 11])]),
                4 => ops.push(jarr!["drop", k, rng.below(2)]),
                5 => ops.push(jarr!["wait", *rng.pick(&[1u64, 1000, 10_500, 16_000])]),
                6 => ops.push(jarr!["softreset", k]),
                7 => ops.push(jarr!["delete", k]),
                8 => ops.push(jarr!["add", k]),
                10 => ops.push(jarr!["disable", k]),
                11 => ops.push(jarr!["enable", k]),
                12 => ops.push(jarr!["hardreset", k]),
                _ => ops.push(jarr!["newsession", k]),
            }
        }
        ops.push(jarr!["wait", 11_000u64]);
        for k in 0..n_caches {
            ops.push(jarr!["respond", k, "full", 0u64]);
        }
        jobj! {"vers" => Json::Arr(vers), "frag" => frag, "lat" => lat, "sub" => rng.next_u64() >> 1, "ops" => Json::Arr(ops)}
    }

    fn execute(&self, case: &Json, tol: &Tolerate) -> Outcome {
        let case = case.clone();
        let tol = tol.clone();
        let mut out = run_sim(case.i("sub", 1) as u64, move || run(case, tol));
        fix_task_panic(&mut out, "C13");
        out
    }

    fn info(&self) -> CheckInfo {
        CheckInfo {
            rule: "1-3 scripted caches (v0/v1) with VRP sets and serial history; ops: cache answers the pending query (full response, incremental response, Cache Reset, or a response cut off mid-PDU), mutates its set, sends Serial Notify, sends PDU types the client does not use (router key 9, 11) or an Error Report, drops the connection (FIN/RST), starts a new session id, operator adds / deletes / disables / enables / soft-resets / hard-resets the cache, virtual time passes (reconnect back-off 10 s); transport with seeded fragmentation and latency. Oracle at quiescence after every op: VRPs installed for a cache equal what that cache has told the client as of its last completed End-of-Data, nothing of a cache whose session ended or that was deleted, other caches untouched; progress: a notify with a new serial and a Cache Reset are answered by a query. non-trivial = at least one incremental round or session loss happened".into(),
            components_real: vec!["rpki::RpkiClient::{try_connect,serve,serve_inner}".into(), "packet::rpki::RtrCodec under tokio_util::codec::Framed".into(), "TableManager::{rpki_reset,rpki_insert,rpki_withdraw,rpki_drop_all}, table::RpkiTable".into(), "GrpcService::{add_rpki,delete_rpki,reset_rpki}".into()],
            components_stubbed: vec!["TCP, clock, the RTR caches (scripted RFC 6810/8210 server model)".into()],
            assumptions: vec!["a cache that cannot answer incrementally sends Cache Reset and then expects a Reset Query (RFC 8210 s8.3)".into()],
            bounds: "<=3 caches, <=24 distinct VRPs, <=40 ops".into(),
        }
    }
}

async fn run(case: Json, tol: Tolerate) -> Outcome {
    let mut out = Outcome::default();
    let w = World::new(&WorldCfg::default()).await;
    let frag = match case.i("frag", 0) {
        0 => Frag::Whole,
        1 => Frag::Byte,
        n => Frag::UpTo(n as usize),
    };
    net::with_net(|n| {
        n.connect_opts = PipeOpts { latency_ms: case.i("lat", 0) as u64, jitter_ms: 0, capacity: 1 << 20, frag, seed: case.i("sub", 1) as u64 };
    });
    let vers: Vec<u8> = case.get("vers").map(|v| v.arr().iter().map(|x| x.as_u8()).collect()).unwrap_or_else(|| vec![1]);
    let mut caches: Vec<Cache> = vers
        .iter()
        .enumerate()
        .map(|(k, ver)| Cache {
            addr: SocketAddr::new(IpAddr::V4(Ipv4Addr::new(198, 51, 100, k as u8 + 1)), 323),
            ver: *ver,
            session_id: 100 + k as u16,
            serial: 1,
            set: BTreeSet::new(),
            history: BTreeMap::new(),
            listener: None,
            conn: None,
            rx: Vec::new(),
            told: None,
            pending: None,
            queries_seen: 0,
            removed: true,
            disabled: false,
            told_serial: 0,
        })
        .collect();
    for c in caches.iter_mut() {
        c.listener = Some(net::listen(c.addr));
        c.history.insert(c.serial, c.set.clone());
    }
    let mut incremental_rounds = 0u64;
    let mut losses = 0u64;

    macro_rules! fail {
        ($class:expr, $($arg:tt)*) => {{
            let v = Violation::new(format!("C13/{}", $class), format!($($arg)*));
            if out.violate(&tol, v) { out.vtime_ms = net::now_ms(); out.nontrivial = incremental_rounds + losses > 0; return out; }
        }};
    }

    let ops: Vec<Json> = case.get("ops").map(|o| o.arr().to_vec()).unwrap_or_default();
    for (opi, op) in ops.iter().enumerate() {
        let tag = op.at(0).as_str().to_string();
        let k = op.at(1).as_usize() % caches.len();
        let mut expect_query_from: Option<(usize, &'static str, u64)> = None;
        match tag.as_str() {
            "add" => {
                if caches[k].removed {
                    let _ = w.grpc.add_rpki(tonic::Request::new(api::AddRpkiRequest { address: caches[k].addr.ip().to_string(), port: 323, ..Default::default() })).await;
                    caches[k].removed = false;
                    caches[k].disabled = false;
                    out.hit("op.add-cache");
                }
            }
            "delete" => {
                if !caches[k].removed {
                    let _ = w.grpc.delete_rpki(tonic::Request::new(api::DeleteRpkiRequest { address: caches[k].addr.ip().to_string(), port: 323, ..Default::default() })).await;
                    caches[k].removed = true;
                    caches[k].told = None;
                    losses += 1;
                    out.hit("fault.cache-deleted(cancel-token)");
                }
            }
            "disable" => {
                if !caches[k].removed && !caches[k].disabled {
                    let _ = w.grpc.disable_rpki(tonic::Request::new(api::DisableRpkiRequest { address: caches[k].addr.ip().to_string(), port: 323 })).await;
                    caches[k].disabled = true;
                    caches[k].told = None;
                    losses += 1;
                    out.hit("fault.cache-disabled(cancel-token)");
                }
            }
            "enable" => {
                if !caches[k].removed && caches[k].disabled {
                    let _ = w.grpc.enable_rpki(tonic::Request::new(api::EnableRpkiRequest { address: caches[k].addr.ip().to_string(), port: 323 })).await;
                    caches[k].disabled = false;
                    out.hit("op.cache-enabled");
                }
            }
            "hardreset" => {
                if !caches[k].removed && !caches[k].disabled {
                    // the session is cancelled and a new connection attempt starts at once
                    let _ = w.grpc.reset_rpki(tonic::Request::new(api::ResetRpkiRequest { address: caches[k].addr.ip().to_string(), port: 323, soft: false, ..Default::default() })).await;
                    caches[k].told = None;
                    losses += 1;
                    out.hit("fault.cache-hard-reset(cancel-token)");
                }
            }
            "softreset" => {
                if !caches[k].removed {
                    let _ = w.grpc.reset_rpki(tonic::Request::new(api::ResetRpkiRequest { address: caches[k].addr.ip().to_string(), port: 323, soft: true, ..Default::default() })).await;
                    out.hit("op.soft-reset");
                }
            }
            "mutate" => {
                let c = &mut caches[k];
                for a in op.at(2).arr() {
                    c.set.insert(vrp_of(a.as_u64()));
                }
                for d in op.at(3).arr() {
                    c.set.remove(&vrp_of(d.as_u64()));
                }
                c.serial += 1;
                c.history.insert(c.serial, c.set.clone());
            }
            "newsession" => {
                // the cache restarts: new session id, history forgotten
                let c = &mut caches[k];
                c.session_id += 1000;
                c.history.clear();
                c.history.insert(c.serial, c.set.clone());
            }
            "notify" => {
                let c = &mut caches[k];
                if let Some(conn) = &c.conn {
                    let p = pdu(c.ver, 0, c.session_id, &c.serial.to_be_bytes());
                    let _ = conn.write_now(&p);
                    out.hit("op.serial-notify");
                    // the client answers only once it has a complete data set and the serial is news to it
                    if c.told.is_some() && c.pending.is_none() && c.told_serial != c.serial {
                        expect_query_from = Some((k, "serial-notify-not-answered", c.queries_seen));
                    }
                }
            }
            "junk" => {
                let c = &caches[k];
                if let Some(conn) = &c.conn {
                    let p = match op.at(2).as_u64() {
                        9 => {
                            let mut b = vec![0u8; 20];
                            b.extend_from_slice(&65001u32.to_be_bytes());
                            b.extend_from_slice(&[1, 2, 3, 4]);
                            pdu(c.ver, 9, 0x0100, &b)
                        }
                        10 => pdu(c.ver, 10, 2, &[0, 0, 0, 0, 0, 0, 0, 3, b'b', b'a', b'd']),
                        _ => pdu(c.ver, 11, 0, &[0, 0, 0, 0, 0, 0, 0xfd, 0xe9]),
                    };
                    let _ = conn.write_now(&p);
                    out.hit("op.unused-pdu-type-sent");
                }
            }
            "drop" => {
                let c = &mut caches[k];
                if let Some(conn) = c.conn.take() {
                    if op.at(2).as_u64() == 1 {
                        conn.ctl().rst();
                    }
                    drop(conn);
                    c.pending = None;
                    c.told = None;
                    losses += 1;
                    out.hit("fault.cache-session-lost");
                }
            }
            "respond" => {
                let mode = op.at(2).as_str().to_string();
                let cut = op.at(3).as_usize();
                let c = &mut caches[k];
                if let (Some(conn), Some(q)) = (&c.conn, c.pending) {
                    let mut bytes = Vec::new();
                    let mut new_told: Option<BTreeSet<Vrp>> = None;
                    let mut sends_reset = false;
                    match q {
                        Some((sid, serial)) if sid == c.session_id && c.history.contains_key(&serial) && mode != "reset" => {
                            // incremental answer
                            let base = c.history.get(&serial).cloned().unwrap_or_default();
                            bytes.extend(pdu(c.ver, 3, c.session_id, &[]));
                            for v in c.set.difference(&base) {
                                bytes.extend(prefix_pdu(c.ver, v, true));
                            }
                            for v in base.difference(&c.set) {
                                bytes.extend(prefix_pdu(c.ver, v, false));
                            }
                            bytes.extend(eod_pdu(c.ver, c.session_id, c.serial));
                            new_told = Some(c.set.clone());
                            incremental_rounds += 1;
                            out.hit("op.incremental-response");
                        }
                        Some(_) => {
                            // cannot answer incrementally: Cache Reset
                            bytes.extend(pdu(c.ver, 8, 0, &[]));
                            sends_reset = true;
                            out.hit("op.cache-reset-sent");
                        }
                        None => {
                            bytes.extend(pdu(c.ver, 3, c.session_id, &[]));
                            for v in &c.set {
                                bytes.extend(prefix_pdu(c.ver, v, true));
                            }
                            bytes.extend(eod_pdu(c.ver, c.session_id, c.serial));
                            new_told = Some(c.set.clone());
                            out.hit("op.full-response");
                        }
                    }
                    if mode == "partial" && bytes.len() > 9 {
                        // the connection dies in the middle of the response
                        let n = 1 + cut % (bytes.len() - 1);
                        let _ = conn.write_now(&bytes[..n]);
                        let conn = c.conn.take();
                        drop(conn);
                        c.pending = None;
                        c.told = None;
                        losses += 1;
                        out.hit("fault.cache-session-lost-mid-response");
                    } else {
                        let _ = conn.write_now(&bytes);
                        c.pending = None;
                        if let Some(t) = new_told {
                            c.told = Some(t);
                            c.told_serial = c.serial;
                        }
                        if sends_reset {
                            expect_query_from = Some((k, "cache-reset-not-answered", c.queries_seen));
                        }
                    }
                }
            }
            "wait" => {
                tokio::time::sleep(Duration::from_millis(op.at(1).as_u64())).await;
            }
            _ => {}
        }
        // quiescence
        for _ in 0..8 {
            w.quiesce().await;
            tokio::time::sleep(Duration::from_millis(5)).await;
            for c in caches.iter_mut() {
                c.drain();
            }
        }
        if let Some((k, what, before)) = expect_query_from {
            let c = &caches[k];
            if c.conn.is_some() && c.queries_seen == before {
                fail!(format!("progress/{}", what), "op {} {}: cache {} got no query from the client", opi, op.to_compact(), k);
            }
        }

        // ---- installed VRPs per cache -------------------------------------------------------------
        let mut installed: BTreeMap<IpAddr, BTreeSet<Vrp>> = BTreeMap::new();
        {
            let t = w.tables.rpki.read().unwrap();
            for fam in [Family::IPV4, Family::IPV6] {
                for (netw, roa) in t.iter(fam) {
                    let v: Vrp = match &netw {
                        packet::IpNet::V4(n) => (false, u32::from(n.addr) as u128, n.mask, roa.max_length, roa.as_number),
                        packet::IpNet::V6(n) => (true, u128::from(n.addr), n.mask, roa.max_length, roa.as_number),
                    };
                    installed.entry(*roa.source).or_default().insert(v);
                }
            }
        }
        for (k, c) in caches.iter().enumerate() {
            let have = installed.get(&c.addr.ip()).cloned().unwrap_or_default();
            let session_up = c.conn.is_some() && !c.removed && !c.disabled;
            match (&c.told, session_up) {
                (Some(t), true) => {
                    // mid-response (query pending but unanswered) is fine: `told` is the last completed End-of-Data
                    if &have != t {
                        let missing: Vec<_> = t.difference(&have).take(3).collect();
                        let extra: Vec<_> = have.difference(t).take(3).collect();
                        let cause = if incremental_rounds > 0 { "after-incremental-round" } else { "after-full-response" };
                        fail!(format!("installed-differs-from-announced/{}", cause), "op {} {}: cache {} told the client {} VRPs, {} installed; missing {:?} extra {:?}", opi, op.to_compact(), k, t.len(), have.len(), missing, extra);
                    } else if !t.is_empty() {
                        out.hit("probe.installed-equals-announced(non-empty)");
                    }
                }
                (_, false) => {
                    if !have.is_empty() {
                        fail!(format!("vrps-survive-session-end/{}", if c.removed { "cache-deleted" } else if c.disabled { "cache-disabled" } else { "session-lost" }), "op {} {}: cache {} has no session but {} VRPs are installed: {:?}", opi, op.to_compact(), k, have.len(), have.iter().take(3).collect::<Vec<_>>());
                    }
                }
                (None, true) => {
                    // first response not completed yet: nothing may be installed for it
                    if !have.is_empty() {
                        fail!("installed-before-end-of-data", "op {}: cache {} has {} VRPs installed before the first End-of-Data", opi, k, have.len());
                    }
                }
            }
        }
    }
    out.count("probe.incremental-rounds", incremental_rounds);
    out.count("probe.session-losses", losses);
    out.nontrivial = incremental_rounds + losses > 0;
    out.vtime_ms = net::now_ms();
    out
}
