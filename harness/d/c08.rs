//! C08 — hold and keepalive timing follows the negotiated value; zero disables it.
//! Tier D: the real session driver (`PeerSession::run`, `run_select`, `apply_outputs`, the FSM)
//! on the virtual clock; a scripted speaker measures the DUT's behaviour on the wire in virtual
//! time (every frame is stamped with the instant it was written).

use super::super::*;
use super::speaker::*;
use super::world::*;
use crate::verif_net::PipeOpts;
use vcore::{jarr, jobj, Check, CheckInfo, Json, LogHash, Outcome, Rng, Tolerate, Violation};

pub(crate) struct HoldTimers;

const HOLDS: [u64; 6] = [0, 3, 9, 30, 90, 65535];
const TOL_MS: u64 = 5;

impl Check for HoldTimers {
    fn property(&self) -> &'static str {
        "C08"
    }
    fn tier(&self) -> &'static str {
        "D"
    }
    fn name(&self) -> &'static str {
        "hold-timers"
    }

    fn generate(&self, seed: u64, thorough: bool) -> Json {
        let mut rng = Rng::new(seed);
        let local = *rng.pick(&HOLDS);
        let remote = *rng.pick(&HOLDS);
        let hold = if local == 0 || remote == 0 { 0 } else { local.min(remote) };
        let auto_ka = rng.chance(3, 4);
        let ebgp = rng.coin();
        let mut ops = vec![jarr!["connect"]];
        let n = rng.range(2, if thorough { 14 } else { 9 });
        // time unit: the negotiated hold time (or a minute when timers are off)
        let unit_ms = if hold == 0 { 60_000 } else { hold * 1000 };
        for _ in 0..n {
            match rng.weighted(&[5, 3, 2, 1]) {
                0 => {
                    let f = *rng.pick(&[10u64, 30, 33, 34, 50, 90, 99, 100, 101, 150, 400]);
                    let mut ms = unit_ms * f / 100;
                    if rng.chance(1, 4) {
                        ms = ms.saturating_sub(1).max(1);
                    }
                    ops.push(jarr!["wait", ms.max(1)]);
                }
                1 => ops.push(jarr!["ka"]),
                2 => ops.push(jarr!["upd"]),
                _ => ops.push(jarr!["rr"]),
            }
        }
        if hold == 0 && rng.chance(1, 2) {
            ops.push(jarr!["wait", 86_400_000u64]);
        }
        // how many octets the peer's socket takes before the daemon's writes block (the peer reads only
        // at the end of each op): a peer that has gone quiet and stopped reading must still be timed out
        let cap = *rng.pick(&[0u64, 0, 0, 10, 25, 30, 45]);
        jobj! {"local_hold" => local, "remote_hold" => remote, "auto_ka" => auto_ka, "ebgp" => ebgp, "cap" => cap, "sub" => rng.next_u64() >> 1, "ops" => Json::Arr(ops)}
    }

    fn execute(&self, case: &Json, tol: &Tolerate) -> Outcome {
        let case = case.clone();
        let tol = tol.clone();
        let mut out = run_sim(case.i("sub", 1) as u64, move || run(case, tol));
        fix_task_panic(&mut out, "C08");
        out
    }

    fn info(&self) -> CheckInfo {
        CheckInfo {
            rule: "hold-time pair from {0,3,9,30,90,65535}^2, timed script of waits (10%-400% of the negotiated hold time, +-1 ms around the boundary), KEEPALIVE / UPDATE / ROUTE-REFRESH arrivals, through OpenConfirm and Established; oracle on the wire in virtual time: HoldTimerExpired NOTIFICATION iff a receive gap reaches the negotiated hold time (reset by KEEPALIVE/UPDATE only), DUT KEEPALIVE spacing = hold/3 when idle, nothing timer-driven when the negotiated value is 0 (incl. a virtual day of silence); in half of the runs the peer's socket takes only 10-45 octets once the session is up (a KEEPALIVE has 19) and is read at the end of each op only (a peer that has stopped reading): then the connection must have left Established once nothing was received for the hold time, even though the NOTIFICATION cannot be delivered yet (spacing and lateness on the wire are not judged in those runs). non-trivial = session reached OpenConfirm and at least one wait crossed a third of the hold time; distinct = hash of the seam-event sequence".into(),
            components_real: vec!["event::accept_connection".into(), "PeerSession::{run,session_loop,run_select,rx_msg,apply_outputs,flush_tx,on_established}".into(), "fsm::{PeerFsm,Connection}".into(), "packet::PeerCodec".into(), "TableManager::register_peer".into()],
            components_stubbed: vec!["TCP (simulated pipe, zero latency in this scenario)".into(), "clock (tokio paused clock)".into(), "listener/dispatch loop of Global::serve (harness copy calling the same functions)".into(), "remote BGP speaker (scripted)".into()],
            assumptions: vec!["the statement does not constrain the pre-OPEN (OpenSent) timer: checks start when the DUT has received an OPEN".into(), "5 ms tolerance on virtual instants".into()],
            bounds: "<=16 timed ops per run, one peer, up to 4x the hold time plus one virtual day".into(),
        }
    }
}

pub(crate) fn fix_task_panic(out: &mut Outcome, prop: &str) {
    if let Some(v) = &mut out.violation {
        if let Some(rest) = v.class.strip_prefix("TASK/") {
            v.class = format!("{}/{}", prop, rest);
        }
    }
}

async fn run(case: Json, tol: Tolerate) -> Outcome {
    let mut out = Outcome::default();
    let local = case.i("local_hold", 90) as u64;
    let remote = case.i("remote_hold", 90) as u64;
    let hold = if local == 0 || remote == 0 { 0 } else { local.min(remote) };
    let ka_ms = hold / 3 * 1000;
    let ebgp = case.get("ebgp").map(|b| b.as_bool()).unwrap_or(true);
    let peer_addr: IpAddr = "10.0.0.1".parse().unwrap();
    let peer_asn = if ebgp { 65001 } else { 65000 };
    let mut cfg = WorldCfg::default();
    let mut ps = PeerSpec::new(peer_addr, peer_asn);
    ps.holdtime = local;
    cfg.peers.push(ps);
    let w = World::new(&cfg).await;
    let mut spk = Speaker::new(peer_addr, peer_asn, 0x0a00_0001, remote as u16, default_caps(peer_asn, &[Family::IPV4]));
    spk.auto_ka = case.get("auto_ka").map(|b| b.as_bool()).unwrap_or(true);
    let start = tokio::time::Instant::now();
    let now = |s: tokio::time::Instant| crate::verif_net::now_ms() + 0 * virtual_now_ms(s);
    let _ = crate::verif_net::now_ms();

    // oracle state
    let mut last_reset: Option<u64> = None; // time the DUT last received OPEN/KEEPALIVE/UPDATE (>= OpenConfirm)
    let mut crossed_third = false;
    let mut dead = false;
    let mut checked_frames = 0usize;
    // the peer's socket takes few octets and is read at the end of each op only: what the daemon writes
    // may be stamped later than it was due, so the spacing and lateness clauses are not judged on the wire
    let stalled = case.i("cap", 0) > 0;
    let mut pending_resets: Vec<u64> = Vec::new();

    macro_rules! fail {
        ($class:expr, $($arg:tt)*) => {{
            let v = Violation::new(format!("C08/{}", $class), format!("hold local {} remote {} negotiated {}: {}", local, remote, hold, format!($($arg)*)));
            if out.violate(&tol, v) { return finish(out, &w, start).await; }
        }};
    }

    let ops: Vec<Json> = case.get("ops").map(|o| o.arr().to_vec()).unwrap_or_default();
    for (i, op) in ops.iter().enumerate() {
        let tag = op.at(0).as_str();
        match tag {
            "connect" => {
                spk.connect(&w, &PipeOpts::default(), &PipeOpts::default());
                w.quiesce().await;
                spk.process_inbox(now(start));
                w.quiesce().await;
                spk.process_inbox(now(start));
                let cap = case.i("cap", 0) as usize;
                if cap > 0 {
                    // from here on the peer's socket takes `cap` octets (a KEEPALIVE has 19)
                    for _ in 0..2 {
                        w.quiesce().await;
                        spk.process_inbox(now(start));
                    }
                    if let Some(c) = &spk.conn {
                        c.ctl().set_capacity(cap);
                    }
                }
                if spk.dut_open.is_some() && spk.open_sent {
                    last_reset = Some(now(start).saturating_sub(1)); // OPEN (and KEEPALIVE) reached the DUT within this instant
                    if spk.auto_ka {
                        out.hit("probe.established");
                    } else {
                        out.hit("probe.left-in-openconfirm");
                    }
                }
            }
            "wait" => {
                let ms = op.at(1).as_u64();
                if hold > 0 && ms * 3 >= hold * 1000 {
                    crossed_third = true;
                }
                tokio::time::sleep(Duration::from_millis(ms)).await;
                w.quiesce().await;
                if stalled {
                    if let Some(c) = &spk.conn {
                        let ctl = c.ctl();
                        pending_resets.retain(|off| match ctl.peer_read_time(*off) {
                            Some(t) => {
                                if last_reset.is_some_and(|r| t > r) {
                                    last_reset = Some(t);
                                }
                                false
                            }
                            None => true,
                        });
                    }
                }
                if stalled && !dead && hold > 0 && pending_resets.is_empty() {
                    // The peer has read nothing during this wait and its socket takes few octets: the
                    // daemon's writes may be blocked. The hold timer does not care: once nothing was received
                    // for the hold time the connection is no longer Established, whether or not the
                    // NOTIFICATION can be delivered.
                    if let (Some(r), Some((a, p))) = (last_reset, w.peer_fsm_states(peer_addr).await) {
                        let t = now(start);
                        if t > r + hold * 1000 + TOL_MS && (a == crate::fsm::State::Established || p == crate::fsm::State::Established || a == crate::fsm::State::OpenConfirm || p == crate::fsm::State::OpenConfirm) {
                            fail!("not-expired/peer-does-not-read", "op {}: now {} ms, last KEEPALIVE/UPDATE reached the DUT at {} ms, hold {} s: the connection is still {:?}/{:?} (the peer's socket takes {} octets and was not read during the wait)", i, t, r, hold, a, p, case.i("cap", 0));
                            dead = true;
                        }
                        out.hit("probe.stalled-peer-wait");
                    }
                }
                spk.process_inbox(now(start));
                if stalled {
                    // what was blocked goes out now that there is room
                    for _ in 0..3 {
                        w.quiesce().await;
                        spk.process_inbox(now(start));
                    }
                }
                out.hit("op.wait");
            }
            "ka" | "upd" | "rr" if !dead && spk.conn.is_some() => {
                let t = now(start);
                let sent = match tag {
                    "ka" => spk.send(&bgp::Message::Keepalive),
                    "upd" => spk.eor(Family::IPV4),
                    _ => spk.send(&bgp::Message::RouteRefresh { family: Family::IPV4 }),
                };
                w.quiesce().await;
                spk.process_inbox(now(start));
                // UPDATE / ROUTE-REFRESH are only legal in Established; in OpenConfirm they end the session (FSM error)
                let legal = tag == "ka" || spk.state == SpkState::Established || (spk.state == SpkState::Closed);
                if sent && tag != "rr" && legal && last_reset.is_some() {
                    if stalled {
                        // a daemon whose write is blocked reads what we sent later than we sent it: the timer
                        // is re-armed when it reads it
                        if let Some(c) = &spk.conn {
                            pending_resets.push(c.ctl().bytes_written());
                        }
                    } else {
                        last_reset = Some(t);
                    }
                }
                out.hit(&format!("op.{}", tag));
            }
            _ => {}
        }

        if stalled {
            if let Some(c) = &spk.conn {
                let ctl = c.ctl();
                pending_resets.retain(|off| match ctl.peer_read_time(*off) {
                    Some(t) => {
                        if last_reset.is_some_and(|r| t > r) {
                            last_reset = Some(t);
                        }
                        false
                    }
                    None => true,
                });
            }
        }
        // ---- oracle over frames seen so far --------------------------------------------------
        let frames = spk.frames.clone();
        for (k, f) in frames.iter().enumerate().skip(checked_frames) {
            // keepalive spacing
            if f.kind == 4 && k > 0 {
                let gap = f.t_ms - frames[k - 1].t_ms;
                let first_reply = frames[..k].iter().all(|x| x.kind == 1); // the KEEPALIVE answering our OPEN
                if !first_reply {
                    if hold == 0 {
                        fail!("keepalive-sent-with-zero-holdtime", "op {}: DUT sent a timer-driven KEEPALIVE at {} ms", i, f.t_ms);
                    } else if stalled {
                        out.hit("probe.keepalive-spacing-not-judged-for-a-peer-that-does-not-read");
                    } else if gap + TOL_MS < ka_ms || gap > ka_ms + TOL_MS {
                        fail!(if gap < ka_ms { "keepalive-interval-too-short" } else { "keepalive-interval-too-long" },
                            "op {}: KEEPALIVE at {} ms, previous frame at {} ms, gap {} ms, expected {} ms", i, f.t_ms, frames[k - 1].t_ms, gap, ka_ms);
                    } else {
                        out.hit("probe.keepalive-on-schedule");
                    }
                }
            }
            if f.kind == 3 {
                dead = true;
                let n = spk.notifications.last().cloned();
                let is_hold = n.as_ref().map(|n| n.notification_code() == 4).unwrap_or(false);
                if is_hold {
                    out.hit("probe.hold-timer-expired");
                    match (hold, last_reset) {
                        (0, _) => fail!("expired-with-zero-holdtime", "op {}: HoldTimerExpired at {} ms although the negotiated hold time is 0", i, f.t_ms),
                        (_, Some(r)) => {
                            let due = r + hold * 1000;
                            if f.t_ms + TOL_MS < due {
                                fail!("expired-early", "op {}: HoldTimerExpired at {} ms, last KEEPALIVE/UPDATE reached the DUT at {} ms, due at {} ms", i, f.t_ms, r, due);
                            } else if f.t_ms > due + TOL_MS && stalled {
                                out.hit("probe.expiry-notification-delivered-late-to-a-peer-that-does-not-read");
                            } else if f.t_ms > due + TOL_MS {
                                fail!("expired-late", "op {}: HoldTimerExpired at {} ms, due at {} ms (something other than KEEPALIVE/UPDATE re-armed the timer)", i, f.t_ms, due);
                            } else {
                                out.hit("probe.expired-exactly-on-time");
                            }
                        }
                        (_, None) => {}
                    }
                } else {
                    out.hit("probe.session-ended-by-other-notification");
                }
            }
        }
        checked_frames = frames.len();
        if spk.state == SpkState::Closed {
            dead = true;
        }
        // a connection given up in the middle of a blocked write ends with part of a frame and a FIN
        if stalled && spk.conn.as_ref().is_some_and(|c| c.ctl().peer_closed()) {
            if !dead {
                out.hit("probe.connection-closed-by-the-daemon-after-a-blocked-write");
            }
            dead = true;
        }
        // missing expiry / missing keepalive
        if !dead {
            if let (true, Some(r)) = (hold > 0, last_reset) {
                let t = now(start);
                if t > r + hold * 1000 + TOL_MS && pending_resets.is_empty() {
                    fail!(if stalled { "not-expired/peer-does-not-read" } else { "not-expired" }, "op {}: now {} ms, last KEEPALIVE/UPDATE reached the DUT at {} ms, hold {} s, session still up", i, t, r, hold);
                    dead = true;
                }
                if let Some(lf) = frames.last() {
                    if t > lf.t_ms + ka_ms + TOL_MS && t <= r + hold * 1000 && !stalled {
                        fail!("keepalive-missing", "op {}: now {} ms, last DUT frame at {} ms, expected a KEEPALIVE every {} ms", i, t, lf.t_ms, ka_ms);
                    }
                }
            }
        }
    }
    out.nontrivial = last_reset.is_some() && (crossed_third || hold == 0);
    finish(out, &w, start).await
}

async fn finish(mut out: Outcome, _w: &World, start: tokio::time::Instant) -> Outcome {
    out.vtime_ms = virtual_now_ms(start);
    out
}
