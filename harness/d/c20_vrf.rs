//! C20 (second scenario) — VPN routes and the per-VRF FIB tables.
//!
//! "... and for VPN prefixes the same in every VRF whose import targets match": 1-3 peers announce
//! VPNv4 prefixes carrying route targets from a small set; 1-3 VRFs with a kernel table id and an
//! import-target set are created and deleted through the real gRPC handlers at arbitrary points,
//! also inside bursts. The kernel handle is the observable one; the requests issued so far are
//! replayed per table id and compared, at every quiescent point and for every VRF that exists, with
//! the next-hop set of the best path and its ties if (and only if) the best path carries one of the
//! VRF's import targets.

use super::super::*;
use super::c01::{gen_rspec, node_from_json, RSpec};
use super::c08::fix_task_panic;
use super::c20::tie_key;
use super::speaker::*;
use super::topo::*;
use super::world::*;
use crate::verif_net::PipeOpts;
use std::collections::{BTreeMap, BTreeSet};
use vcore::{jarr, jobj, Check, CheckInfo, Json, Outcome, Rng, Tolerate, Violation};

pub(crate) struct VrfFib;

const N_RT: u64 = 3;

fn rt_bytes(k: u64) -> [u8; 8] {
    [0x00, 0x02, 0xfd, 0xe8, 0, 0, 0, 1 + k as u8]
}

fn rt_api(k: u64) -> api::RouteTarget {
    api::RouteTarget { rt: Some(api::route_target::Rt::TwoOctetAsSpecific(api::TwoOctetAsSpecificExtended { is_transitive: true, sub_type: 2, asn: 65000, local_admin: 1 + k as u32 })) }
}

fn vpn_prefix(i: u64) -> packet::Nlri {
    let packet::Nlri::V4(p) = v4_prefix(i) else { unreachable!() };
    packet::Nlri::VpnV4(packet::vpn::VpnV4Nlri { labels: packet::mpls::MplsLabelStack::new(vec![packet::mpls::MplsLabel::new(100 + i as u32)]), rd: packet::rd::RouteDistinguisher::TwoOctetAs { admin: 65000, assigned: 7 }, prefix: p })
}

fn local_key(n: &packet::Nlri) -> String {
    match n {
        packet::Nlri::VpnV4(v) => format!("{:?}", packet::Nlri::V4(v.prefix)),
        other => format!("{:?}", other),
    }
}

struct VrfCfg {
    id: u32,
    import: BTreeSet<u64>,
    exists: bool,
}

impl Check for VrfFib {
    fn property(&self) -> &'static str {
        "C20"
    }
    fn tier(&self) -> &'static str {
        "D"
    }
    fn name(&self) -> &'static str {
        "vrf-fib"
    }

    fn generate(&self, seed: u64, thorough: bool) -> Json {
        let mut rng = Rng::new(seed);
        let n_src = rng.range(1, 3) as usize;
        let roles: &[u64] = &[0, 0, 1, 2];
        let sources: Vec<Json> = (0..n_src).map(|_| jobj! {"role" => *rng.pick(roles), "send_max" => 1u64, "addpath_rx" => rng.chance(1, 5), "ext_msg" => true, "gr" => Json::Null}).collect();
        let src_roles: Vec<Role> = sources.iter().map(|s| Role::from_u(s.i("role", 0) as u64)).collect();
        let n_vrf = rng.range(1, 3);
        let vrfs: Vec<Json> = (0..n_vrf)
            .map(|_| {
                let mut imp: Vec<Json> = (0..N_RT).filter(|_| rng.chance(1, 2)).map(Json::from).collect();
                if imp.is_empty() {
                    imp.push(Json::from(rng.below(N_RT)));
                }
                Json::Arr(imp)
            })
            .collect();
        let n_pfx = rng.range(2, 4);
        let n = rng.range(4, if thorough { 50 } else { 26 });
        let mut ops = Vec::new();
        for _ in 0..n {
            let s = rng.usize_below(n_src);
            let ap = sources[s].get("addpath_rx").map(|b| b.as_bool()).unwrap_or(false);
            match rng.weighted(&[36, 12, 12, 6, 4, 4, 4, 4, 8]) {
                0 => {
                    let mut spec = gen_rspec(&mut rng, src_roles[s], asn_for(src_roles[s], s));
                    spec.nh = rng.range(1, 3) as u8;
                    spec.asp.truncate(2);
                    spec.med = -1;
                    spec.org = 0;
                    // 0-2 route targets
                    let rts: Vec<Json> = (0..N_RT).filter(|_| rng.chance(2, 5)).map(Json::from).collect();
                    ops.push(jarr!["ann", s, rng.below(n_pfx), if ap { rng.range(1, 2) } else { 0 }, spec.to_json(), rng.chance(1, 3), Json::Arr(rts)]);
                }
                1 => ops.push(jarr!["wd", s, rng.below(n_pfx), if ap { rng.range(1, 2) } else { 0 }, rng.chance(1, 3)]),
                2 => ops.push(jarr!["vrf-add", rng.below(n_vrf), rng.chance(1, 3)]),
                3 => ops.push(jarr!["vrf-del", rng.below(n_vrf), rng.chance(1, 3)]),
                4 => ops.push(jarr!["down", s]),
                5 => ops.push(jarr!["up", s]),
                6 => ops.push(jarr!["wait", *rng.pick(&[10u64, 1000])]),
                8 => ops.push(jarr!["nh", rng.range(1, 3), rng.coin(), rng.chance(1, 2)]),
                _ => ops.push(jarr!["settle"]),
            }
        }
        jobj! {"shards" => rng.range(1, 3), "sources" => Json::Arr(sources), "vrfs" => Json::Arr(vrfs), "early" => rng.chance(1, 2), "sub" => rng.next_u64() >> 1, "ops" => Json::Arr(ops)}
    }

    fn execute(&self, case: &Json, tol: &Tolerate) -> Outcome {
        let case = case.clone();
        let tol = tol.clone();
        let mut out = run_sim(case.i("sub", 1) as u64, move || run(case, tol));
        fix_task_panic(&mut out, "C20");
        out
    }

    fn info(&self) -> CheckInfo {
        CheckInfo {
            rule: "1-3 source peers (eBGP / iBGP / RR client, optional add-path towards the DUT) announcing 2-4 VPNv4 prefixes (one route distinguisher) over 3 next hops with 0-2 route targets out of 3 and attributes from small colliding domains; 1-3 VRFs with a kernel table id and 1-3 import targets created (half of the runs: before any route) and deleted through the real gRPC handlers; ops announce / replace (also with other route targets) / withdraw / VRF add / VRF delete (each optionally inside a burst), peer drop and reconnect, next-hop reachability reports through the kernel event channel, short waits; 1-3 shards. At quiescence, per existing VRF: the fold of the Apply requests for its table id equals, per prefix, the next-hop set of the RIB's best path and its ties before the router-id step if the best path carries one of the VRF's import targets, and nothing otherwise. non-trivial = a VRF existed while a matching best path existed".into(),
            components_real: vec!["GrpcService::{add_vrf, delete_vrf}, TableManager::{add_vrf, delete_vrf, insert_route, remove_route, unregister_peer}, TableShard::distribute_update (VRF fan-out), table::Vrf::can_import, table::vpn_to_local_nlri".into(), "real sessions negotiating the VPNv4 family; the kernel actor's request channel (observable handle)".into()],
            components_stubbed: vec!["netlink (requests are observed at the channel), TCP, clock, peers".into()],
            assumptions: vec![
                "a deleted VRF's table is gone with it (DeleteVrf is folded as clearing the table); a VRF created anew starts empty".into(),
                "one route distinguisher, so that a VRF-local prefix comes from exactly one VPN prefix".into(),
            ],
            bounds: "<=50 ops, <=3 peers, <=3 VRFs, <=4 prefixes, 3 route targets".into(),
        }
    }
}

async fn run(case: Json, tol: Tolerate) -> Outcome {
    let mut out = Outcome::default();
    let srcs: Vec<Json> = case.get("sources").map(|s| s.arr().to_vec()).unwrap_or_default();
    let n = srcs.len();
    if n == 0 {
        return out;
    }
    let nodes: Vec<NodeCfg> = srcs.iter().enumerate().map(|(i, j)| node_from_json(j, IpAddr::V4(Ipv4Addr::new(10, 0, 1, i as u8 + 1)), i)).collect();
    let mut wcfg = WorldCfg::default();
    wcfg.shards = case.i("shards", 1) as usize;
    wcfg.kernel = true;
    let mut t = Topo::new(&wcfg, nodes, vec![Family::IPV4_VPN], 0).await;
    let mut vrfs: Vec<VrfCfg> = case
        .get("vrfs")
        .map(|v| v.arr().to_vec())
        .unwrap_or_default()
        .iter()
        .enumerate()
        .map(|(i, j)| VrfCfg { id: 100 + i as u32, import: j.arr().iter().map(|x| x.as_u64() % N_RT).collect(), exists: false })
        .collect();
    if vrfs.is_empty() {
        return out;
    }
    let mut interesting = false;

    macro_rules! fail {
        ($class:expr, $($arg:tt)*) => {{
            let v = Violation::new(format!("C20/{}", $class), format!($($arg)*));
            if out.violate(&tol, v) { out.vtime_ms = t.now(); out.nontrivial = interesting; return out; }
        }};
    }

    async fn add_vrf(t: &Topo, k: usize, v: &VrfCfg) -> bool {
        let req = api::AddVrfRequest {
            vrf: Some(api::Vrf {
                name: format!("vrf{}", k),
                rd: Some(api::RouteDistinguisher { rd: Some(api::route_distinguisher::Rd::TwoOctetAsn(api::RouteDistinguisherTwoOctetAsn { admin: 65000, assigned: 50 + k as u32 })) }),
                import_rt: v.import.iter().map(|r| rt_api(*r)).collect(),
                export_rt: vec![rt_api(*v.import.iter().next().unwrap())],
                id: v.id,
            }),
        };
        t.w.grpc.add_vrf(tonic::Request::new(req)).await.is_ok()
    }

    if case.get("early").map(|b| b.as_bool()).unwrap_or(false) {
        for k in 0..vrfs.len() {
            if add_vrf(&t, k, &vrfs[k]).await {
                vrfs[k].exists = true;
            }
        }
    }
    for i in 0..n {
        t.connect(i, &PipeOpts::default(), &PipeOpts::default()).await;
    }
    t.settle().await;
    // table id -> local prefix -> next hops
    let mut fib: BTreeMap<u32, BTreeMap<String, BTreeSet<IpAddr>>> = BTreeMap::new();
    let mut names: BTreeMap<String, u32> = BTreeMap::new();

    let ops: Vec<Json> = case.get("ops").map(|o| o.arr().to_vec()).unwrap_or_default();
    for (opi, op) in ops.iter().enumerate() {
        let tag = op.at(0).as_str().to_string();
        let mut in_burst = false;
        match tag.as_str() {
            "ann" => {
                let s = op.at(1).as_usize() % n;
                if t.nodes[s].spk.established() {
                    let spec = RSpec::from_json(op.at(4));
                    let role = t.nodes[s].cfg.role;
                    let net = packet::PathNlri { path_id: op.at(3).as_u32(), nlri: vpn_prefix(op.at(2).as_u64()) };
                    let mut attrs = spec.attrs(role);
                    attrs.retain(|a| a.code() != packet::Attribute::NEXTHOP && a.code() != packet::Attribute::EXTENDED_COMMUNITY);
                    let rts: Vec<u8> = op.at(6).arr().iter().flat_map(|r| rt_bytes(r.as_u64() % N_RT)).collect();
                    if !rts.is_empty() {
                        attrs.push(packet::Attribute::new_with_bin(packet::Attribute::EXTENDED_COMMUNITY, rts).unwrap());
                    }
                    t.nodes[s].spk.announce(Family::IPV4_VPN, vec![net], Some(spec.nexthop()), attrs);
                    out.hit("op.announce");
                }
                in_burst = op.at(5).as_bool();
            }
            "wd" => {
                let s = op.at(1).as_usize() % n;
                if t.nodes[s].spk.established() {
                    let net = packet::PathNlri { path_id: op.at(3).as_u32(), nlri: vpn_prefix(op.at(2).as_u64()) };
                    t.nodes[s].spk.withdraw(Family::IPV4_VPN, vec![net]);
                    out.hit("op.withdraw");
                }
                in_burst = op.at(4).as_bool();
            }
            "vrf-add" => {
                let k = op.at(1).as_usize() % vrfs.len();
                if !vrfs[k].exists && add_vrf(&t, k, &vrfs[k]).await {
                    vrfs[k].exists = true;
                    out.hit("op.vrf-added");
                }
                in_burst = op.at(2).as_bool();
            }
            "vrf-del" => {
                let k = op.at(1).as_usize() % vrfs.len();
                if vrfs[k].exists {
                    let r = t.w.grpc.delete_vrf(tonic::Request::new(api::DeleteVrfRequest { name: format!("vrf{}", k) })).await;
                    if r.is_ok() {
                        vrfs[k].exists = false;
                        out.hit("op.vrf-deleted");
                    }
                }
                in_burst = op.at(2).as_bool();
            }
            "nh" => {
                let addr = IpAddr::V4(Ipv4Addr::new(192, 0, 2, op.at(1).as_u64() as u8));
                let reachable = op.at(2).as_bool();
                let _ = t.w.kernel_event_tx.send(kernel::KernelEvent::NexthopUpdate { addr, reachable });
                out.hit(if reachable { "fault.nexthop-reachable-report" } else { "fault.nexthop-unreachable-report" });
                in_burst = op.at(3).as_bool();
            }
            "down" => {
                let s = op.at(1).as_usize() % n;
                if t.nodes[s].spk.conn.is_some() {
                    t.nodes[s].spk.close();
                    out.hit("fault.source-fin");
                }
            }
            "up" => {
                let s = op.at(1).as_usize() % n;
                if t.nodes[s].spk.conn.is_none() {
                    t.settle().await;
                    t.connect(s, &PipeOpts::default(), &PipeOpts::default()).await;
                }
            }
            "wait" => {
                t.advance(op.at(1).as_u64()).await;
            }
            _ => {}
        }
        if in_burst && opi + 1 < ops.len() {
            out.hit("probe.op-inside-burst");
            continue;
        }
        t.settle().await;

        // ---- replay the kernel requests issued so far, per table ---------------------------------
        if let Some(rx) = t.w.kernel_rx.as_mut() {
            while let Some(r) = rx.try_recv() {
                match r {
                    kernel::verif::VerifRequest::Apply(c) => {
                        if let Some(id) = c.table_id {
                            let k = format!("{:?}", c.net);
                            let set: BTreeSet<IpAddr> = c.nexthops.iter().map(|n| n.addr()).collect();
                            let tb = fib.entry(id).or_default();
                            if set.is_empty() {
                                tb.remove(&k);
                            } else {
                                tb.insert(k, set);
                            }
                        }
                    }
                    kernel::verif::VerifRequest::CreateVrf { name, table_id } => {
                        names.insert(name, table_id);
                        fib.insert(table_id, BTreeMap::new());
                    }
                    kernel::verif::VerifRequest::DeleteVrf { name } => {
                        if let Some(id) = names.remove(&name) {
                            fib.remove(&id);
                        }
                    }
                    _ => {}
                }
            }
        }
        // ---- reference from the RIB ---------------------------------------------------------------
        let loc = t.w.tables.collect_loc_rib_paths(Family::IPV4_VPN);
        for (k, v) in vrfs.iter().enumerate() {
            if !v.exists {
                continue;
            }
            let import: std::collections::HashSet<[u8; 8]> = v.import.iter().map(|r| rt_bytes(*r)).collect();
            let mut want: BTreeMap<String, BTreeSet<IpAddr>> = BTreeMap::new();
            for c in &loc {
                let Some(best) = c.current_paths.first() else {
                    continue;
                };
                let carries = best.attr.iter().filter(|a| a.code() == packet::Attribute::EXTENDED_COMMUNITY).filter_map(|a| a.binary()).any(|b| b.chunks_exact(8).any(|c| import.contains(&<[u8; 8]>::try_from(c).unwrap())));
                if !carries {
                    continue;
                }
                interesting = true;
                let bk = tie_key(best);
                let set: BTreeSet<IpAddr> = c.current_paths.iter().take_while(|p| tie_key(p) == bk).filter_map(|p| p.nexthop.map(|n| n.addr())).collect();
                if !set.is_empty() {
                    want.insert(local_key(&c.net), set);
                }
            }
            let empty = BTreeMap::new();
            let have = fib.get(&v.id).unwrap_or(&empty);
            if *have != want {
                let key = want.keys().chain(have.keys()).find(|x| want.get(*x) != have.get(*x)).cloned().unwrap_or_default();
                let (w_, f_) = (want.get(&key), have.get(&key));
                let class = match (w_, f_) {
                    (Some(_), None) => "vrf-fib/matching-route-missing-from-vrf-table",
                    (None, Some(_)) => "vrf-fib/route-in-vrf-table-although-best-path-does-not-match",
                    (Some(a), Some(b)) if a.len() > b.len() => "vrf-fib/tied-path-missing-from-ecmp-set",
                    (Some(a), Some(b)) if a.len() < b.len() => "vrf-fib/ecmp-set-has-extra-nexthop",
                    _ => "vrf-fib/nexthop-set-differs",
                };
                fail!(format!("{}/after-{}", class, tag), "op {} {}: vrf{} (table {}, import targets {:?}) prefix {}: RIB best+ties {:?}, table {:?}", opi, op.to_compact(), k, v.id, v.import, key, w_, f_);
                fib.insert(v.id, want.clone());
            }
        }
    }
    out.nontrivial = interesting;
    out.vtime_ms = t.now();
    out
}
