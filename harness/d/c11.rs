//! C11 — restarting speaker selects nothing until all helpers sent EOR or the timer fires.
//! Tier D: the daemon starts "with --graceful-restart": `RestartingDeferral`, the table deferral
//! flags, `process_restarting_outputs`, the selection-deferral timer task and real sessions.
//! Helper peers (re)connect with any GR family subset, announce, send End-of-RIB, drop; an
//! observer peer without GR watches what the restarting speaker advertises and when.

use super::super::*;
use super::c01::{gen_rspec, RSpec};
use super::c08::fix_task_panic;
use super::speaker::*;
use super::topo::*;
use super::world::*;
use crate::verif_net::PipeOpts;
use std::collections::{BTreeMap, BTreeSet};
use vcore::{jarr, jobj, Check, CheckInfo, Json, Outcome, Rng, Tolerate, Violation};

pub(crate) struct RestartingSpeaker;

const FAMS: [Family; 2] = [Family::IPV4, Family::IPV6];

fn fams_of(mask: u64) -> Vec<Family> {
    FAMS.iter().enumerate().filter(|(i, _)| mask & (1 << i) != 0).map(|(_, f)| *f).collect()
}

fn prefix(fam: usize, idx: u64) -> packet::Nlri {
    if fam == 0 {
        v4_prefix(idx)
    } else {
        v6_prefix(idx)
    }
}

impl Check for RestartingSpeaker {
    fn property(&self) -> &'static str {
        "C11"
    }
    fn tier(&self) -> &'static str {
        "D"
    }
    fn name(&self) -> &'static str {
        "restarting-speaker"
    }

    fn generate(&self, seed: u64, thorough: bool) -> Json {
        let mut rng = Rng::new(seed);
        let n_peers = rng.range(1, 3);
        // configured GR family mask per peer (0 = peer without GR)
        let peers: Vec<Json> = (0..n_peers).map(|_| Json::from(*rng.pick(&[0u64, 1, 3, 3, 2]))).collect();
        let timer = *rng.pick(&[0u64, 30, 30, 360]);
        let n = rng.range(4, if thorough { 36 } else { 22 });
        let mut ops = Vec::new();
        for _ in 0..n {
            let p = rng.below(n_peers);
            match rng.weighted(&[16, 30, 14, 8, 12, 12]) {
                0 => ops.push(jarr!["up", p, *rng.pick(&[3u64, 3, 1, 2, 0])]),
                1 => {
                    let spec = gen_rspec(&mut rng, Role::Ebgp, 65001 + p as u32);
                    ops.push(jarr!["ann", p, rng.below(2), rng.below(4), spec.to_json()]);
                }
                2 => ops.push(jarr!["eor", p, rng.below(2)]),
                3 => ops.push(jarr!["down", p]),
                5 => ops.push(jarr!["wd", p, rng.below(2), rng.below(4)]),
                _ => ops.push(jarr!["wait", *rng.pick(&[100u64, 5_000, 20_000, 31_000, 200_000, 361_000])]),
            }
        }
        ops.push(jarr!["wait", 400_000u64]);
        jobj! {"peers" => Json::Arr(peers), "timer" => timer, "sub" => rng.next_u64() >> 1, "ops" => Json::Arr(ops)}
    }

    fn execute(&self, case: &Json, tol: &Tolerate) -> Outcome {
        let case = case.clone();
        let tol = tol.clone();
        let mut out = run_sim(case.i("sub", 1) as u64, move || run(case, tol));
        fix_task_panic(&mut out, "C11");
        out
    }

    fn info(&self) -> CheckInfo {
        CheckInfo {
            rule: "1-3 configured peers with GR family sets drawn from {none, v4, v6, v4+v6}, selection-deferral timer disabled / 30 s / 360 s; history of peer (re)establishment with any negotiated GR family subset (or no GR), announcements into deferred and non-deferred families, End-of-RIB per family, peer drops, waits across the timer; an extra observer peer without GR records what is advertised. Reference: set algebra of pending (peer, family) pairs from the statement. At every quiescent point: no route of a still-deferred family is advertised; when the last pending pair of a family clears (or the timer fires) every prefix received meanwhile is advertised exactly once, and an End-of-RIB (also a repeated one), a session coming up or time passing that leaves the RIB unchanged announces nothing of an already released family again; the restarting flag (and the R-bit in new OPENs) is set iff the reference says deferral is in progress; a peer without GR never blocks; with the timer enabled deferral ends within timer + 1 s of the first helper's establishment. non-trivial = a route was received while its family was deferred".into(),
            components_real: vec!["gr::RestartingDeferral".into(), "process_restarting_outputs, gr_selection_deferral_timer_expired, PeerSession::process_effects (GrSessionEstablished / GrEorReceived), PeerSession::run (PeerWithdrawn)".into(), "TableManager::{start_deferral_families,end_deferral_families}, table::Table::{insert,start_deferral,end_deferral}".into(), "fsm::PeerFsm::on_connected (R-bit)".into()],
            components_stubbed: vec!["TCP, clock, listener loop, helper peers and the observer; the start-up sequence of Global::serve that creates the deferral machine is copied into the harness (same calls)".into()],
            assumptions: vec![],
            bounds: "<=36 ops, <=3 helper peers + 1 observer, 2 families, 4 prefixes each".into(),
        }
    }
}

/// Every path the RIB holds, selected or not (the Loc-RIB walk shows nothing of a deferred family).
fn rib_paths_digest(t: &Topo) -> String {
    let mut v: Vec<String> = Vec::new();
    for f in FAMS {
        for d in t.w.tables.collect_paths(table::TableQuery::Global, f, vec![], true) {
            for p in &d.paths {
                v.push(format!("{:?}|{}|{:?}|{}", d.net, p.source.remote_addr, p.attr, p.stale));
            }
        }
    }
    v.sort();
    v.join("\n")
}

fn rib_digest(t: &Topo) -> String {
    let mut v: Vec<String> = Vec::new();
    for f in FAMS {
        for c in t.w.tables.collect_loc_rib_paths(f).iter() {
            let paths: Vec<String> = c.current_paths.iter().map(|p| format!("{}|{:?}|{:?}", p.source.remote_addr, p.nexthop, p.attr)).collect();
            v.push(format!("{:?}={}", c.net, paths.join(";")));
        }
    }
    v.sort();
    v.join("\n")
}

async fn run(case: Json, tol: Tolerate) -> Outcome {
    let mut out = Outcome::default();
    let masks: Vec<u64> = case.get("peers").map(|p| p.arr().iter().map(|x| x.as_u64()).collect()).unwrap_or_default();
    let np = masks.len();
    if np == 0 {
        return out;
    }
    let timer = case.i("timer", 30) as u64;
    let mut nodes: Vec<NodeCfg> = Vec::new();
    for i in 0..np {
        nodes.push(NodeCfg { role: Role::Ebgp, addr: IpAddr::V4(Ipv4Addr::new(10, 0, 1, i as u8 + 1)), asn: 65001 + i as u32, rid: 0x0a00_0101 + i as u32, send_max: 1, addpath_rx: false, gr: None, llgr: None, prefix_limit: None, ext_msg: false });
    }
    // the observer (no GR)
    nodes.push(NodeCfg { role: Role::Ebgp, addr: IpAddr::V4(Ipv4Addr::new(10, 0, 2, 1)), asn: 65099, rid: 0x0a00_0201, send_max: 1, addpath_rx: false, gr: None, llgr: None, prefix_limit: None, ext_msg: false });
    let obs = np;
    // DUT-side peers: GR per configured mask
    let mut wcfg = WorldCfg::default();
    for (i, n) in nodes.iter().enumerate() {
        let mut ps = peer_spec(n, &FAMS, 0);
        if i < np && masks[i] != 0 {
            ps.gr = Some((120, false, fams_of(masks[i])));
        }
        wcfg.peers.push(ps);
    }
    let w = World::new(&wcfg).await;
    // --- what Global::serve does when started with --graceful-restart and a config file ---------
    {
        let gr_peers: fnv::FnvHashMap<IpAddr, Vec<Family>> = {
            let server = w.global.read().await;
            server.peers.iter().filter_map(|(addr, peer)| peer.config.graceful_restart.as_ref().map(|gr| (*addr, gr.families.clone()))).collect()
        };
        let dur = if timer == 0 { None } else { Some(std::time::Duration::from_secs(timer)) };
        let (deferral, init_outputs) = crate::gr::RestartingDeferral::new(gr_peers, dur);
        if !deferral.is_completed() {
            for output in &init_outputs {
                if let crate::gr::RestartingOutput::DeferFamilies(families) = output {
                    w.tables.start_deferral_families(families);
                }
            }
            w.global.write().await.selection_deferral = Some(deferral);
        }
    }
    let mut t = Topo {
        w,
        families: FAMS.to_vec(),
        hold: 0,
        nodes: nodes
            .into_iter()
            .map(|c| {
                let spk = Speaker::new(c.addr, c.asn, c.rid, 0, vec![]);
                Node { cfg: c, spk, last_ka_ms: 0 }
            })
            .collect(),
        start: tokio::time::Instant::now(),
    };
    let _ = crate::verif_net::now_ms();

    // ---- reference model ---------------------------------------------------------------------------
    let mut pending: BTreeMap<usize, BTreeSet<usize>> = BTreeMap::new();
    for (i, m) in masks.iter().enumerate() {
        if *m != 0 {
            pending.insert(i, (0..2).filter(|f| m & (1 << f) != 0).collect());
        }
    }
    let initially_deferred: BTreeSet<usize> = pending.values().flatten().copied().collect();
    let mut in_progress = !pending.is_empty();
    let mut timer_started_at: Option<u64> = None;
    let mut deferred_now = |pending: &BTreeMap<usize, BTreeSet<usize>>, in_progress: bool| -> BTreeSet<usize> { if in_progress { pending.values().flatten().copied().collect() } else { BTreeSet::new() } };
    // routes each helper currently announces
    let mut announced: BTreeMap<(usize, usize, u64), RSpec> = BTreeMap::new();
    let mut received_while_deferred = false;
    let mut prev_deferred: BTreeSet<usize> = initially_deferred.clone();

    // the observer connects first (it has no GR: it must never block)
    t.nodes[obs].spk.caps = default_caps(65099, &FAMS);
    t.connect(obs, &PipeOpts::default(), &PipeOpts::default()).await;
    t.settle().await;

    macro_rules! fail {
        ($class:expr, $($arg:tt)*) => {{
            let v = Violation::new(format!("C11/{}", $class), format!($($arg)*));
            if out.violate(&tol, v) { out.vtime_ms = t.now(); out.nontrivial = received_while_deferred; return out; }
        }};
    }

    let mut queue: std::collections::VecDeque<Json> = case.get("ops").map(|o| o.arr().iter().cloned().collect()).unwrap_or_default();
    let mut opi = 0usize;
    let mut unjudged = false;
    while let Some(op) = queue.pop_front() {
        opi += 1;
        let op = &op;
        let tag = op.at(0).as_str().to_string();
        let p = op.at(1).as_usize() % np;
        // the reference's timer: expire it before the op if it is clearly due; stay silent around the instant itself
        let mut near_expiry = false;
        if let (true, Some(s)) = (in_progress && timer > 0, timer_started_at) {
            let due = s + timer * 1000;
            let now = t.now();
            if now >= due + 100 {
                in_progress = false;
                pending.clear();
                out.hit("probe.deferral-ended-by-timer");
            } else if now + 100 >= due {
                near_expiry = true;
            } else if tag == "wait" && now + op.at(1).as_u64() > due + 1000 {
                // a long wait that crosses the expiry: stop 1 s after it, judge, then wait for the rest
                let first = due + 1000 - now;
                queue.push_front(vcore::jarr!["wait", op.at(1).as_u64() - first]);
                queue.push_front(vcore::jarr!["wait", first]);
                continue;
            }
        }
        // what the RIB holds and what the observer was sent so far, to tell a repeated release from a change
        let rib_before = rib_digest(&t);
        let paths_before = rib_paths_digest(&t);
        let reach_before = t.nodes[obs].spk.reach_count.clone();
        match tag.as_str() {
            "up" => {
                if t.nodes[p].spk.conn.is_some() {
                    continue;
                }
                let gm = op.at(2).as_u64();
                let mut caps = default_caps(t.nodes[p].cfg.asn, &FAMS);
                if gm != 0 {
                    caps.push(packet::Capability::GracefulRestart { flags: 0, restart_time: 120, families: fams_of(gm).into_iter().map(|f| (f, 0x80)).collect() });
                }
                t.nodes[p].spk.caps = caps;
                t.connect(p, &PipeOpts::default(), &PipeOpts::default()).await;
                t.settle().await;
                if !t.nodes[p].spk.established() {
                    continue;
                }
                // R-bit in the DUT's OPEN while restarting
                let rbit = t.nodes[p].spk.dut_open.as_ref().and_then(|o| o.capability.iter().find_map(|c| if let packet::Capability::GracefulRestart { flags, .. } = c { Some(flags & 0x8 != 0) } else { None }));
                if let Some(r) = rbit {
                    if r != in_progress && !near_expiry {
                        fail!("flag/r-bit-differs-from-restarting-state", "op {} {}: OPEN R-bit {} but reference says deferral in progress = {}", opi, op.to_compact(), r, in_progress);
                    }
                }
                // negotiated GR families = advertised by both
                let neg: BTreeSet<usize> = (0..2).filter(|f| gm & masks[p] & (1 << f) != 0).collect();
                if in_progress {
                    if pending.contains_key(&p) {
                        if neg.is_empty() {
                            pending.remove(&p);
                        } else {
                            pending.insert(p, neg);
                            if timer_started_at.is_none() {
                                timer_started_at = Some(t.now());
                            }
                        }
                    }
                    if pending.is_empty() {
                        in_progress = false;
                    }
                }
                out.hit("op.helper-established");
            }
            "ann" if t.nodes[p].spk.established() => {
                let fam = op.at(2).as_usize() % 2;
                let spec = RSpec::from_json(op.at(4));
                let net = packet::PathNlri { path_id: 0, nlri: prefix(fam, op.at(3).as_u64()) };
                let nh = if fam == 0 { spec.nexthop() } else { bgp::Nexthop::V6("2001:db8:ffff::1".parse().unwrap()) };
                t.nodes[p].spk.announce(FAMS[fam], vec![net], Some(nh), spec.attrs(Role::Ebgp));
                announced.insert((p, fam, op.at(3).as_u64()), spec);
                if deferred_now(&pending, in_progress).contains(&fam) {
                    received_while_deferred = true;
                    out.hit("probe.route-received-while-family-deferred");
                }
            }
            "wd" if t.nodes[p].spk.established() => {
                let fam = op.at(2).as_usize() % 2;
                let net = packet::PathNlri { path_id: 0, nlri: prefix(fam, op.at(3).as_u64()) };
                t.nodes[p].spk.withdraw(FAMS[fam], vec![net]);
                announced.remove(&(p, fam, op.at(3).as_u64()));
                out.hit("op.withdraw");
            }
            "eor" if t.nodes[p].spk.established() => {
                let fam = op.at(2).as_usize() % 2;
                t.nodes[p].spk.eor(FAMS[fam]);
                if in_progress && timer_started_at.is_some() {
                    if let Some(s) = pending.get_mut(&p) {
                        s.remove(&fam);
                        if s.is_empty() {
                            pending.remove(&p);
                        }
                    }
                    if pending.is_empty() {
                        in_progress = false;
                    }
                }
                out.hit("op.end-of-rib");
            }
            "down" if t.nodes[p].spk.conn.is_some() => {
                t.nodes[p].spk.close();
                announced.retain(|k, _| k.0 != p);
                if in_progress {
                    pending.remove(&p);
                    if pending.is_empty() {
                        in_progress = false;
                    }
                }
                out.hit("fault.helper-dropped");
            }
            "wait" => {
                t.advance(op.at(1).as_u64()).await;
            }
            _ => continue,
        }
        t.settle().await;
        // timer expiry in the reference
        if let (true, Some(s)) = (in_progress && timer > 0, timer_started_at) {
            let due = s + timer * 1000;
            if t.now() >= due + 100 {
                in_progress = false;
                pending.clear();
                out.hit("probe.deferral-ended-by-timer");
            } else if t.now() + 100 >= due {
                unjudged = true;
                continue; // around the instant itself: do not judge
            }
        }
        if near_expiry {
            unjudged = true;
            continue;
        }

        // ---- invariants -------------------------------------------------------------------------------
        let flag = t.w.global.read().await.selection_deferral.is_some();
        if flag != in_progress {
            fail!(if flag { "flag/still-restarting-although-nobody-is-pending" } else { "flag/cleared-while-a-helper-is-pending" }, "op {} {}: selection_deferral.is_some()={} reference in_progress={} pending={:?}", opi, op.to_compact(), flag, in_progress, pending);
            in_progress = flag;
            if !flag {
                pending.clear();
            }
        }
        let deferred = deferred_now(&pending, in_progress);
        if !t.nodes[obs].spk.established() {
            continue;
        }
        let mirror = t.mirror_canon(obs);
        for fam in 0..2usize {
            let fk = fam_key(FAMS[fam]);
            let have: BTreeSet<String> = mirror.keys().filter(|k| k.0 == fk).map(|k| k.1.clone()).collect();
            // what the RIB holds (the DUT may also be a helper for a dropped peer and retain its routes as stale)
            let want: BTreeSet<String> = t.w.tables.collect_loc_rib_paths(FAMS[fam]).iter().filter(|c| !c.current_paths.is_empty()).map(|c| format!("{:?}", c.net)).collect();
            let _ = &announced;
            if deferred.contains(&fam) {
                if !have.is_empty() {
                    fail!("held-back/route-advertised-while-family-deferred", "op {} {}: family {} is deferred (pending {:?}) but the observer holds {:?}", opi, op.to_compact(), fam, pending, have);
                }
            } else {
                if have != want {
                    let missing: Vec<_> = want.difference(&have).collect();
                    let extra: Vec<_> = have.difference(&want).collect();
                    fail!(if !missing.is_empty() { "release/prefix-received-during-deferral-never-announced" } else { "release/observer-holds-unexpected-prefix" }, "op {} {}: family {}: missing {:?} extra {:?}", opi, op.to_compact(), fam, missing, extra);
                }
                // a family released earlier is not released again: an End-of-RIB, a session coming up or time
                // passing, none of which changed the RIB, announces nothing a second time
                if !prev_deferred.contains(&fam) && !unjudged && matches!(tag.as_str(), "eor" | "up" | "wait") && rib_digest(&t) == rib_before {
                    for (k, n) in t.nodes[obs].spk.reach_count.iter().filter(|(k, _)| k.0 == fk) {
                        let before = reach_before.get(k).copied().unwrap_or(0);
                        if *n > before {
                            fail!("release/prefix-announced-again-although-nothing-changed", "op {} {}: {:?} announced {} more time(s) to the observer; family {} was released before this op and the RIB is unchanged", opi, op.to_compact(), k, *n - before, fam);
                        }
                    }
                }
                if prev_deferred.contains(&fam) {
                    // the family was released by this very op: everything held back is announced exactly once
                    out.hit("probe.family-released");
                    for (k, n) in t.nodes[obs].spk.reach_count.iter().filter(|(k, _)| k.0 == fk) {
                        // (ops that landed on the expiry instant may legitimately have changed the best path right after the release;
                        // so may a wait that is long enough to also cross a helper-side timer of ours: a stale path of a peer that
                        // went away is purged after the release and the prefix is announced again with the path that is left)
                        let purged_meanwhile = tag == "wait" && rib_paths_digest(&t) != paths_before;
                        if *n != 1 && !unjudged && !purged_meanwhile {
                            fail!("release/prefix-not-announced-exactly-once", "op {} {}: {:?} announced {} times when family {} was released", opi, op.to_compact(), k, n, fam);
                        }
                    }
                }
            }
        }
        prev_deferred = deferred;
        unjudged = false;
    }
    // "exactly once": no prefix was announced to the observer more often than its source announced/re-announced it
    for (k, n) in &t.nodes[obs].spk.reach_count {
        if *n > 64 {
            let v = Violation::new("C11/release/prefix-announced-over-and-over", format!("{:?} announced {} times", k, n));
            if out.violate(&tol, v) {
                break;
            }
        }
    }
    out.nontrivial = received_while_deferred;
    out.vtime_ms = t.now();
    out
}
