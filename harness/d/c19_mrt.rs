//! C19 (tier D, second scenario) — MRT records written by the daemon are well-formed and carry the
//! monitored data, whatever the disk does.
//!
//! `MrtDumper` writes through `crate::mrt::DumpFile`, which under `--cfg osrg_rustybgp_verif` is the
//! simulator's in-memory file (`verif_net::File`): every `create` starts a new generation of the
//! path, writes can be short (the caller's `write_all` has to loop) and the disk can fill up at a
//! byte count the schedule chooses, so that a record is torn in the middle.  Dumpers are enabled and
//! disabled through the gRPC handlers inside histories of real sessions.
//!
//! An independent RFC 6396 / RFC 8050 reader walks every generation at each quiescent point:
//!   * records tile the file (12-byte header, body of the stated length); only the last record of a
//!     generation may be incomplete, and only if the disk failed while it was written;
//!   * BGP4MP: subtype matches the header layout (AS4, and the add-path variant when path ids are
//!     carried), the address family field matches the address lengths, peer AS / address are a
//!     configured peer's, the rest is exactly one BGP UPDATE that parses with the add-path setting
//!     the subtype states;
//!   * TABLE_DUMP_V2: PEER_INDEX_TABLE first, peer entries tile it, RIB records have sequence
//!     numbers 0.. per sub-type, entry counts and attribute lengths tile the record, every peer
//!     index is inside the table, a peer appears once per prefix unless the add-path sub-type is used;
//!   * content: the reach records of an updates dump, per peer and in order, are the announcements
//!     the peer made while the dump was on (a prefix of them after a disk failure); a table dump
//!     lists exactly the Loc-RIB paths with their attributes and next hop.

use super::super::*;
use super::c01::{gen_rspec, node_from_json, node_json, RSpec};
use super::c08::fix_task_panic;
use super::speaker::*;
use super::topo::*;
use super::world::*;
use crate::verif_net::PipeOpts;
use bytes::BytesMut;
use std::collections::{BTreeMap, BTreeSet};
use vcore::{jarr, jobj, Check, CheckInfo, Json, Outcome, Rng, Tolerate, Violation};

pub(crate) struct MrtDumps;

const FAMS: [Family; 2] = [Family::IPV4, Family::IPV6];

fn prefix(fam: usize, idx: u64) -> packet::Nlri {
    if fam == 0 {
        v4_prefix(idx)
    } else {
        v6_prefix(idx)
    }
}

fn be16(b: &[u8]) -> usize {
    u16::from_be_bytes([b[0], b[1]]) as usize
}
fn be32(b: &[u8]) -> u32 {
    u32::from_be_bytes([b[0], b[1], b[2], b[3]])
}

fn attr_str(attrs: &[packet::Attribute]) -> String {
    // LOCAL_PREF is left out: the daemon stores its default with routes of external peers, and the
    // Adj-RIB-In event (hence the record) carries the stored attributes, not the peer's octets
    let mut a: Vec<&packet::Attribute> = attrs.iter().filter(|x| x.code() != packet::Attribute::LOCAL_PREF).collect();
    a.sort_by_key(|x| x.code());
    a.iter().map(|x| format!("{:?}", x)).collect::<Vec<_>>().join(",")
}

/// One announcement or withdrawal as the harness made it / as a record states it.
#[derive(Clone, Debug, PartialEq)]
struct Item {
    fam: usize,
    key: String,
    pid: u32,
    reach: Option<(String, Option<bgp::Nexthop>)>,
}

struct Parsed {
    complete: usize,
    torn_tail: usize,
    errors: Vec<(String, String)>,
    /// BGP4MP items per peer, in file order
    updates: BTreeMap<IpAddr, Vec<Item>>,
    /// TABLE_DUMP_V2: prefix -> [(peer addr, attrs incl. next hop as the record has them)]
    table: BTreeMap<String, Vec<(IpAddr, Vec<(u8, Vec<u8>)>)>>,
    peer_table_seen: bool,
}

fn parse_update(pdu: &[u8], addpath: bool) -> Result<Vec<bgp::Message>, String> {
    let mut codec = bgp::PeerCodec::new();
    for f in FAMS {
        codec.set_family(f, bgp::FamilyState { addpath_rx: addpath, addpath_tx: false });
    }
    let mut b = BytesMut::from(pdu);
    match codec.try_parse(&mut b) {
        Ok(Some(p)) => {
            if !b.is_empty() {
                return Err(format!("parser left {} bytes of the PDU unread", b.len()));
            }
            bgp::validate_message(p, false).map(|it| it.collect()).map_err(|n| format!("validate_message: {:?}", n))
        }
        Ok(None) => Err("parser wants more bytes than the PDU holds".into()),
        Err(n) => Err(format!("parser rejects the PDU: {:?}", n)),
    }
}

/// Walk a TLV attribute block; Err when lengths do not tile it.
fn walk_attrs(b: &[u8]) -> Result<Vec<(u8, Vec<u8>)>, String> {
    let mut v = Vec::new();
    let mut i = 0;
    while i < b.len() {
        if i + 3 > b.len() {
            return Err("attribute header overruns the block".into());
        }
        let (flags, code) = (b[i], b[i + 1]);
        let (l, h) = if flags & 0x10 != 0 {
            if i + 4 > b.len() {
                return Err("extended attribute header overruns the block".into());
            }
            (be16(&b[i + 2..]), 4)
        } else {
            (b[i + 2] as usize, 3)
        };
        if i + h + l > b.len() {
            return Err(format!("attribute {} of length {} overruns the block", code, l));
        }
        v.push((code, b[i + h..i + h + l].to_vec()));
        i += h + l;
    }
    v.sort();
    Ok(v)
}

fn parse_generation(data: &[u8], peers: &BTreeMap<IpAddr, u32>, dut_as: u32) -> Parsed {
    let mut p = Parsed { complete: 0, torn_tail: 0, errors: Vec::new(), updates: BTreeMap::new(), table: BTreeMap::new(), peer_table_seen: false };
    let mut err = |p: &mut Parsed, c: &str, d: String| {
        if !p.errors.iter().any(|(k, _)| k == c) {
            p.errors.push((c.to_string(), d));
        }
    };
    let mut i = 0;
    let mut peer_index: Vec<IpAddr> = Vec::new();
    let mut next_seq: BTreeMap<u16, u32> = BTreeMap::new();
    while i < data.len() {
        if data.len() - i < 12 {
            p.torn_tail = data.len() - i;
            break;
        }
        let (typ, sub, len) = (be16(&data[i + 4..]) as u16, be16(&data[i + 6..]) as u16, be32(&data[i + 8..]) as usize);
        if data.len() - i - 12 < len {
            p.torn_tail = data.len() - i;
            break;
        }
        let body = &data[i + 12..i + 12 + len];
        i += 12 + len;
        p.complete += 1;
        match typ {
            16 => {
                // BGP4MP
                let (as_len, addpath) = match sub {
                    1 => (2usize, false),
                    4 => (4, false),
                    8 => (2, true),
                    9 => (4, true),
                    x => {
                        err(&mut p, "C19/mrt/bgp4mp/subtype", format!("BGP4MP subtype {}", x));
                        continue;
                    }
                };
                if body.len() < 2 * as_len + 4 {
                    err(&mut p, "C19/mrt/bgp4mp/truncated-header", format!("{} bytes", body.len()));
                    continue;
                }
                let peer_as = if as_len == 4 { be32(body) } else { be16(body) as u32 };
                let local_as = if as_len == 4 { be32(&body[4..]) } else { be16(&body[2..]) as u32 };
                let afi = be16(&body[2 * as_len + 2..]);
                let alen = match afi {
                    1 => 4,
                    2 => 16,
                    x => {
                        err(&mut p, "C19/mrt/bgp4mp/address-family", format!("AFI {}", x));
                        continue;
                    }
                };
                let o = 2 * as_len + 4;
                if body.len() < o + 2 * alen + 19 {
                    err(&mut p, "C19/mrt/bgp4mp/address-family", format!("AFI {} needs {} address bytes, record body has {} bytes in all", afi, 2 * alen, body.len()));
                    continue;
                }
                let ip = |b: &[u8]| -> IpAddr {
                    if b.len() == 4 {
                        IpAddr::V4(Ipv4Addr::new(b[0], b[1], b[2], b[3]))
                    } else {
                        let mut x = [0u8; 16];
                        x.copy_from_slice(b);
                        IpAddr::V6(Ipv6Addr::from(x))
                    }
                };
                let peer = ip(&body[o..o + alen]);
                let pdu = &body[o + 2 * alen..];
                // the BGP message must start right here: a wrong AS width or address length shows as a missing marker
                if pdu[..16].iter().any(|x| *x != 0xff) {
                    err(&mut p, "C19/mrt/bgp4mp/header-layout-does-not-match-subtype", format!("subtype {} (AS numbers of {} octets, AFI {}): no BGP marker where the message should start; body {:02x?}", sub, as_len, afi, &body[..body.len().min(60)]));
                    continue;
                }
                let l = be16(&pdu[16..]);
                if l != pdu.len() {
                    err(&mut p, "C19/mrt/bgp4mp/not-one-message", format!("peer {}: BGP length {} but {} bytes follow the BGP4MP header", peer, l, pdu.len()));
                    continue;
                }
                match peers.get(&peer) {
                    Some(a) if *a == peer_as && local_as == dut_as => {}
                    _ => err(&mut p, "C19/mrt/bgp4mp/peer-identity", format!("record says peer {} AS {} local AS {}; configured {:?}, local AS {}", peer, peer_as, local_as, peers, dut_as)),
                }
                if pdu[18] != 2 {
                    continue;
                }
                match parse_update(pdu, addpath) {
                    Err(e) => err(&mut p, "C19/mrt/bgp4mp/update-does-not-parse", format!("peer {} subtype {}: {}; PDU {:02x?}", peer, sub, e, &pdu[..pdu.len().min(80)])),
                    Ok(msgs) => {
                        for m in msgs {
                            if let bgp::Message::Update(u) = m {
                                let items = p.updates.entry(peer).or_default();
                                match u {
                                    bgp::Update::Reach { family, entries, nexthop, attr } => {
                                        for e in entries {
                                            items.push(Item { fam: if family == Family::IPV4 { 0 } else { 1 }, key: format!("{:?}", e.nlri), pid: e.path_id, reach: Some((attr_str(&attr), nexthop)) });
                                        }
                                    }
                                    bgp::Update::Unreach { family, entries } => {
                                        for e in entries {
                                            items.push(Item { fam: if family == Family::IPV4 { 0 } else { 1 }, key: format!("{:?}", e.nlri), pid: e.path_id, reach: None });
                                        }
                                    }
                                    bgp::Update::EndOfRib(_) => {}
                                }
                            }
                        }
                    }
                }
            }
            13 => match sub {
                1 => {
                    if p.complete != 1 {
                        let n = p.complete;
                        err(&mut p, "C19/mrt/table-dump/peer-index-table-not-first", format!("PEER_INDEX_TABLE is record #{}", n));
                    }
                    p.peer_table_seen = true;
                    if body.len() < 8 {
                        err(&mut p, "C19/mrt/table-dump/peer-index-table", "shorter than its fixed part".into());
                        continue;
                    }
                    let vl = be16(&body[4..]);
                    if body.len() < 8 + vl {
                        err(&mut p, "C19/mrt/table-dump/peer-index-table", "view name overruns".into());
                        continue;
                    }
                    let n = be16(&body[6 + vl..]);
                    let mut o = 8 + vl;
                    peer_index.clear();
                    for _ in 0..n {
                        if o + 5 > body.len() {
                            err(&mut p, "C19/mrt/table-dump/peer-index-table", format!("{} peers announced, entries overrun the record", n));
                            break;
                        }
                        let t = body[o];
                        let (al, asl) = (if t & 1 != 0 { 16 } else { 4 }, if t & 2 != 0 { 4 } else { 2 });
                        if o + 5 + al + asl > body.len() {
                            err(&mut p, "C19/mrt/table-dump/peer-index-table", format!("peer entry of type {:#x} overruns the record", t));
                            break;
                        }
                        let a = &body[o + 5..o + 5 + al];
                        peer_index.push(if al == 4 {
                            IpAddr::V4(Ipv4Addr::new(a[0], a[1], a[2], a[3]))
                        } else {
                            let mut x = [0u8; 16];
                            x.copy_from_slice(a);
                            IpAddr::V6(Ipv6Addr::from(x))
                        });
                        o += 5 + al + asl;
                    }
                    if o != body.len() {
                        err(&mut p, "C19/mrt/table-dump/peer-index-table", format!("peer count {} accounts for {} bytes, the record body has {}", n, o, body.len()));
                    }
                }
                2 | 4 | 8 | 10 => {
                    let addpath = sub == 8 || sub == 10;
                    let v6 = sub == 4 || sub == 10;
                    if !p.peer_table_seen {
                        err(&mut p, "C19/mrt/table-dump/peer-index-table-not-first", "RIB record before any PEER_INDEX_TABLE".into());
                    }
                    if body.len() < 5 {
                        err(&mut p, "C19/mrt/table-dump/rib-record", "shorter than sequence number and prefix length".into());
                        continue;
                    }
                    let seq = be32(body);
                    let want = next_seq.entry(sub).or_insert(0);
                    if seq != *want {
                        err(&mut p, "C19/mrt/table-dump/sequence-number", format!("sub-type {}: sequence number {} where {} is due", sub, seq, want));
                    }
                    *want = seq + 1;
                    let plen = body[4] as usize;
                    let pb = plen.div_ceil(8);
                    if plen > if v6 { 128 } else { 32 } || body.len() < 5 + pb + 2 {
                        err(&mut p, "C19/mrt/table-dump/rib-record", format!("prefix length {} in a {}-byte record", plen, body.len()));
                        continue;
                    }
                    let key = format!("{}:{:02x?}/{}", if v6 { 6 } else { 4 }, &body[5..5 + pb], plen);
                    let n = be16(&body[5 + pb..]);
                    let mut o = 7 + pb;
                    let mut seen_peers: BTreeSet<usize> = BTreeSet::new();
                    let mut rows = Vec::new();
                    for _ in 0..n {
                        let fixed = if addpath { 12 } else { 8 };
                        if o + fixed > body.len() {
                            err(&mut p, "C19/mrt/table-dump/entry-count", format!("{}: {} entries announced, they overrun the record", key, n));
                            break;
                        }
                        let pi = be16(&body[o..]);
                        let al = be16(&body[o + fixed - 2..]);
                        if o + fixed + al > body.len() {
                            err(&mut p, "C19/mrt/table-dump/attribute-length", format!("{}: attribute length {} overruns the record", key, al));
                            break;
                        }
                        if pi >= peer_index.len() {
                            err(&mut p, "C19/mrt/table-dump/peer-index", format!("{}: peer index {} but the table has {} peers", key, pi, peer_index.len()));
                        } else if !addpath && !seen_peers.insert(pi) {
                            err(&mut p, "C19/mrt/table-dump/peer-listed-twice", format!("{}: peer index {} appears twice in a record without path identifiers", key, pi));
                        }
                        match walk_attrs(&body[o + fixed..o + fixed + al]) {
                            Ok(a) => {
                                if let Some(addr) = peer_index.get(pi) {
                                    rows.push((*addr, a));
                                }
                            }
                            Err(e) => err(&mut p, "C19/mrt/table-dump/attributes", format!("{}: {}", key, e)),
                        }
                        o += fixed + al;
                    }
                    if o != body.len() {
                        err(&mut p, "C19/mrt/table-dump/entry-count", format!("{}: {} entries account for {} bytes, the record body has {}", key, n, o, body.len()));
                    }
                    p.table.insert(key, rows);
                }
                x => err(&mut p, "C19/mrt/table-dump/subtype", format!("TABLE_DUMP_V2 subtype {}", x)),
            },
            x => err(&mut p, "C19/mrt/record-type", format!("MRT type {} at a record boundary", x)),
        }
    }
    p
}

/// What a table dump should hold for one Loc-RIB path: attributes as TLV (code, value), next hop folded in
/// the way RFC 6396 4.3.4 says (NEXT_HOP for IPv4, MP_REACH_NLRI reduced to the next hop for IPv6).
fn expected_row(path: &table::Path, v6: bool) -> Vec<(u8, Vec<u8>)> {
    let mut v: Vec<(u8, Vec<u8>)> = path.attr.iter().map(|a| (a.code(), a.value().map(|x| if a.code() == packet::Attribute::ORIGIN { vec![x as u8] } else { x.to_be_bytes().to_vec() }).or_else(|| a.binary().cloned()).unwrap_or_default())).collect();
    if let Some(nh) = path.nexthop {
        let b = nh.to_bytes();
        if v6 {
            let mut m = vec![b.len() as u8];
            m.extend_from_slice(&b);
            v.push((packet::Attribute::MP_REACH, m));
        } else {
            v.push((packet::Attribute::NEXTHOP, b));
        }
    }
    v.sort();
    v
}

fn nlri_key_bytes(n: &packet::Nlri) -> String {
    match n {
        packet::Nlri::V4(p) => {
            let pb = (p.mask as usize).div_ceil(8);
            format!("4:{:02x?}/{}", &p.addr.octets()[..pb], p.mask)
        }
        packet::Nlri::V6(p) => {
            let pb = (p.mask as usize).div_ceil(8);
            format!("6:{:02x?}/{}", &p.addr.octets()[..pb], p.mask)
        }
        other => format!("{:?}", other),
    }
}

impl Check for MrtDumps {
    fn property(&self) -> &'static str {
        "C19"
    }
    fn tier(&self) -> &'static str {
        "D"
    }
    fn name(&self) -> &'static str {
        "mrt-dumps"
    }

    fn generate(&self, seed: u64, thorough: bool) -> Json {
        let mut rng = Rng::new(seed);
        let n_nodes = rng.range(1, 3) as usize;
        let mut nodes = Vec::new();
        for i in 0..n_nodes {
            let role = *rng.pick(&[Role::Ebgp, Role::Ebgp, Role::Ibgp]);
            let n = NodeCfg { role, addr: IpAddr::V4(Ipv4Addr::new(10, 0, 1, i as u8 + 1)), asn: asn_for(role, i), rid: 0, send_max: 1, addpath_rx: rng.chance(1, 3), gr: None, llgr: None, prefix_limit: None, ext_msg: rng.chance(1, 4) };
            let mut j = node_json(&n);
            j.set("v6peer", Json::from(i == 1 && rng.chance(1, 2)));
            nodes.push(j);
        }
        let n = rng.range(6, if thorough { 50 } else { 28 });
        let mut ops: Vec<Json> = Vec::new();
        for i in 0..n_nodes {
            ops.push(jarr!["up", i as u64]);
        }
        for _ in 0..n {
            let i = rng.below(n_nodes as u64);
            match rng.weighted(&[40, 12, 4, 5, 12, 5, 8, 8]) {
                0 => {
                    let role = Role::from_u(nodes[i as usize].i("role", 0) as u64);
                    let spec = gen_rspec(&mut rng, role, asn_for(role, i as usize));
                    ops.push(jarr!["ann", i, rng.below(2), rng.below(5), if rng.chance(1, 3) { rng.range(1, 2) } else { 0 }, spec.to_json()]);
                }
                1 => ops.push(jarr!["wd", i, rng.below(2), rng.below(5), if rng.chance(1, 3) { rng.range(1, 2) } else { 0 }]),
                2 => ops.push(jarr!["down", i, *rng.pick(&["fin", "rst"])]),
                3 => ops.push(jarr!["up", i]),
                4 => ops.push(jarr!["mrt-on", rng.below(2), *rng.pick(&[0u64, 0, 5])]),
                5 => ops.push(jarr!["mrt-off"]),
                6 => ops.push(jarr!["wait", *rng.pick(&[100u64, 2000, 6000, 11000])]),
                _ => {
                    let mode = *rng.pick(&["ok", "short", "short", "enospc"]);
                    let n = match mode {
                        "short" => *rng.pick(&[1u64, 3, 7, 50]),
                        _ => *rng.pick(&[0u64, 5, 13, 40, 150, 600]),
                    };
                    ops.push(jarr!["disk", mode, n]);
                }
            }
        }
        jobj! {"nodes" => Json::Arr(nodes), "shards" => rng.range(1, 3), "sub" => rng.next_u64() >> 1, "ops" => Json::Arr(ops)}
    }

    fn execute(&self, case: &Json, tol: &Tolerate) -> Outcome {
        let case = case.clone();
        let tol = tol.clone();
        let mut out = run_sim(case.i("sub", 1) as u64, move || run(case, tol));
        fix_task_panic(&mut out, "C19");
        out
    }

    fn info(&self) -> CheckInfo {
        CheckInfo {
            rule: "1-3 real sessions (eBGP / iBGP, optional add-path towards the daemon, optionally an IPv6 transport peer) announcing and withdrawing IPv4 / IPv6 prefixes with several path ids, dropping and coming back; MRT dumpers (updates or table, with or without a 5 s rotation interval) enabled and disabled through the gRPC handlers at arbitrary points; the simulated disk delivers short writes of 1-50 bytes or fills up after a drawn number of bytes (torn record). At every quiescent point every generation of every dump file is walked by an independent RFC 6396 / RFC 8050 reader and compared with what the peers announced while the dump was on (updates) or with the Loc-RIB (table). non-trivial = at least one complete record was read; distinct = transport event signature".into(),
            components_real: vec!["GrpcService::{enable_mrt, disable_mrt}, MrtDumper::{serve, serve_table, run_loop}, dump_table, adj_rib_in_to_mrt".into(), "packet::mrt::{MrtCodec, MpHeader, encode_table_dump} and the embedded bgp::PeerCodec".into(), "TableManager::subscribe(false) and the live AdjRibIn events of real sessions".into()],
            components_stubbed: vec!["the file: mrt::DumpFile is the simulator's in-memory file under the verification cfg (tokio::fs::File otherwise)".into(), "TCP, clock, the peers".into()],
            assumptions: vec!["one record per announced NLRI (the daemon hands each NLRI of an UPDATE to the RIB separately)".into(), "withdrawal records are compared through the final state per (prefix, path id), not one by one (purges add withdrawals of their own)".into()],
            bounds: "<=50 ops, <=3 peers, 5 prefixes per family, path ids 0-2".into(),
        }
    }
}

async fn run(case: Json, tol: Tolerate) -> Outcome {
    let mut out = Outcome::default();
    let node_js: Vec<Json> = case.get("nodes").map(|s| s.arr().to_vec()).unwrap_or_default();
    if node_js.is_empty() {
        return out;
    }
    let nodes: Vec<NodeCfg> = node_js
        .iter()
        .enumerate()
        .map(|(i, j)| {
            let v6 = j.get("v6peer").map(|b| b.as_bool()).unwrap_or(false);
            let addr = if v6 { "2001:db8:0:1::9".parse().unwrap() } else { IpAddr::V4(Ipv4Addr::new(10, 0, 1, i as u8 + 1)) };
            node_from_json(j, addr, i)
        })
        .collect();
    let mut wcfg = WorldCfg::default();
    wcfg.shards = case.i("shards", 1) as usize;
    let mut t = Topo::new(&wcfg, nodes, FAMS.to_vec(), 0).await;
    let peers: BTreeMap<IpAddr, u32> = t.nodes.iter().map(|n| (n.cfg.addr, n.cfg.asn)).collect();
    let path = "/sim/mrt.dump".to_string();
    // dumper state as the harness knows it
    let mut on: Option<(bool, u64)> = None; // (table?, interval)
    // per generation: what the peers announced while it was the live file of an updates dump
    let mut expected: Vec<BTreeMap<IpAddr, Vec<Item>>> = Vec::new();
    let mut gen_kind: Vec<Option<bool>> = Vec::new(); // per generation: Some(table?) once known
    let mut disk_failed_gen: BTreeSet<usize> = BTreeSet::new();
    let mut rib_epoch = 0u64;
    let mut gen_epoch: Vec<u64> = Vec::new();
    let mut read_any = false;

    macro_rules! fail {
        ($class:expr, $($arg:tt)*) => {{
            let v = Violation::new($class.to_string(), format!($($arg)*));
            if out.violate(&tol, v) { out.vtime_ms = t.now(); out.nontrivial = read_any; return out; }
        }};
    }

    let ops: Vec<Json> = case.get("ops").map(|o| o.arr().to_vec()).unwrap_or_default();
    for (opi, op) in ops.iter().enumerate() {
        let tag = op.at(0).as_str().to_string();
        match tag.as_str() {
            "up" => {
                let i = op.at(1).as_usize() % t.nodes.len();
                if t.nodes[i].spk.conn.is_none() {
                    t.connect(i, &PipeOpts::default(), &PipeOpts::default()).await;
                    rib_epoch += 1;
                }
            }
            "down" => {
                let i = op.at(1).as_usize() % t.nodes.len();
                if t.nodes[i].spk.conn.is_some() {
                    if op.at(2).as_str() == "rst" {
                        t.nodes[i].spk.rst();
                    } else {
                        t.nodes[i].spk.close();
                    }
                    rib_epoch += 1;
                    out.hit("fault.session-drop");
                }
            }
            "ann" | "wd" => {
                let i = op.at(1).as_usize() % t.nodes.len();
                if !t.nodes[i].spk.established() {
                    continue;
                }
                let fam = op.at(2).as_usize() % 2;
                let pid = if t.nodes[i].cfg.addpath_rx { op.at(4).as_u32() } else { 0 };
                let nlri = prefix(fam, op.at(3).as_u64());
                let net = packet::PathNlri { path_id: pid, nlri: nlri.clone() };
                let item = if tag == "ann" {
                    let spec = RSpec::from_json(op.at(5));
                    let mut attrs = spec.attrs(t.nodes[i].cfg.role);
                    let nh = if fam == 0 { spec.nexthop() } else { bgp::Nexthop::V6("2001:db8:ffff::1".parse().unwrap()) };
                    if fam == 1 {
                        attrs.retain(|a| a.code() != packet::Attribute::NEXTHOP);
                    }
                    let it = Item { fam, key: format!("{:?}", nlri), pid, reach: Some((attr_str(&attrs), Some(nh))) };
                    t.nodes[i].spk.announce(FAMS[fam], vec![net], Some(nh), attrs);
                    out.hit("op.announce");
                    it
                } else {
                    t.nodes[i].spk.withdraw(FAMS[fam], vec![net]);
                    out.hit("op.withdraw");
                    Item { fam, key: format!("{:?}", nlri), pid, reach: None }
                };
                rib_epoch += 1;
                if let (Some((false, _)), Some(g)) = (on, expected.last_mut()) {
                    g.entry(t.nodes[i].cfg.addr).or_default().push(item);
                }
            }
            "wait" => t.advance(op.at(1).as_u64()).await,
            "mrt-on" => {
                if on.is_none() {
                    let table = op.at(1).as_u64() != 0;
                    let interval = op.at(2).as_u64();
                    let req = api::EnableMrtRequest { dump_type: if table { api::enable_mrt_request::DumpType::Table as i32 } else { api::enable_mrt_request::DumpType::Updates as i32 }, filename: path.clone(), rotation_interval: interval, ..Default::default() };
                    if t.w.grpc.enable_mrt(tonic::Request::new(req)).await.is_ok() {
                        on = Some((table, interval));
                        out.hit(if table { "op.mrt-table-dump-enabled" } else { "op.mrt-updates-dump-enabled" });
                    } else {
                        out.hit("probe.enable-mrt-refused");
                    }
                }
            }
            "mrt-off" => {
                if on.is_some() {
                    let _ = t.w.grpc.disable_mrt(tonic::Request::new(api::DisableMrtRequest { filename: path.clone() })).await;
                    on = None;
                    out.hit("op.mrt-disabled");
                }
            }
            "disk" => {
                let n = op.at(2).as_u64();
                match op.at(1).as_str() {
                    "short" => {
                        crate::verif_net::set_disk(Some(n.max(1) as usize), None);
                        out.hit("fault.disk-short-writes");
                    }
                    "enospc" => {
                        crate::verif_net::set_disk(None, Some(n));
                        out.hit("fault.disk-full-after-n-bytes");
                    }
                    _ => crate::verif_net::set_disk(None, None),
                }
            }
            _ => continue,
        }
        t.settle().await;

        // ---- bookkeeping of generations --------------------------------------------------------
        let gens = crate::verif_net::file_generations(&path);
        while expected.len() < gens.len() {
            expected.push(BTreeMap::new());
            gen_kind.push(on.map(|(tb, _)| tb));
            gen_epoch.push(rib_epoch);
        }
        for g in crate::verif_net::file_failed_generations(&path) {
            if disk_failed_gen.insert(g) {
                out.hit("probe.write-failed-on-a-dump-file");
            }
        }

        // ---- read every generation -------------------------------------------------------------
        for (gi, data) in gens.iter().enumerate() {
            let p = parse_generation(data, &peers, DUT_AS);
            if p.complete > 0 {
                read_any = true;
            }
            out.count("mrt.records-read", p.complete as u64);
            for (class, detail) in &p.errors {
                fail!(class, "op {} {}: generation {} of {}: {}", opi, op.to_compact(), gi, path, detail);
            }
            if p.torn_tail > 0 {
                if disk_failed_gen.contains(&gi) {
                    out.hit("probe.torn-last-record-after-disk-failure");
                } else {
                    fail!("C19/mrt/torn-record-without-disk-failure", "op {} {}: generation {}: {} trailing bytes do not make a record and no write failed", opi, op.to_compact(), gi, p.torn_tail);
                }
            }
            match gen_kind[gi] {
                Some(false) => {
                    // updates dump: per peer, reach records in order = announcements made (a prefix after a disk failure)
                    let failed = disk_failed_gen.contains(&gi);
                    for (peer, exp) in &expected[gi] {
                        let got: Vec<&Item> = p.updates.get(peer).map(|v| v.iter().filter(|i| i.reach.is_some()).collect()).unwrap_or_default();
                        let want: Vec<&Item> = exp.iter().filter(|i| i.reach.is_some()).collect();
                        let n = got.len().min(want.len());
                        if got[..n] != want[..n] {
                            let k = (0..n).find(|k| got[*k] != want[*k]).unwrap_or(0);
                            fail!("C19/mrt/content/update-record-differs-from-what-the-peer-sent", "op {} {}: generation {} peer {}: record #{} of the peer is {:?}, the peer announced {:?}", opi, op.to_compact(), gi, peer, k, got[k], want[k]);
                        }
                        if got.len() > want.len() {
                            fail!("C19/mrt/content/update-record-for-nothing-the-peer-sent", "op {} {}: generation {} peer {}: {} reach records, the peer announced {} times; extra {:?}", opi, op.to_compact(), gi, peer, got.len(), want.len(), got[want.len()]);
                        }
                        if got.len() < want.len() && !failed && gi + 1 == gens.len() && on == Some((false, on.map(|x| x.1).unwrap_or(0))) {
                            fail!("C19/mrt/content/announcement-missing-from-the-dump", "op {} {}: generation {} peer {}: {} reach records, the peer announced {} times while the dump was on and no write failed", opi, op.to_compact(), gi, peer, got.len(), want.len());
                        }
                    }
                    for peer in p.updates.keys() {
                        if !peers.contains_key(peer) {
                            fail!("C19/mrt/bgp4mp/peer-identity", "op {} {}: records for unknown peer {}", opi, op.to_compact(), peer);
                        }
                    }
                }
                Some(true) => {
                    // table dump: judged against the Loc-RIB if nothing moved since the generation appeared
                    if gen_epoch[gi] != rib_epoch || disk_failed_gen.contains(&gi) || gi + 1 != gens.len() {
                        continue;
                    }
                    let mut want: BTreeMap<String, Vec<(IpAddr, Vec<(u8, Vec<u8>)>)>> = BTreeMap::new();
                    for (fi, f) in FAMS.iter().enumerate() {
                        for c in t.w.tables.collect_loc_rib_paths(*f) {
                            let rows: Vec<_> = c.current_paths.iter().map(|pa| (pa.source.remote_addr, expected_row(pa, fi == 1))).collect();
                            if !rows.is_empty() {
                                want.insert(nlri_key_bytes(&c.net), rows);
                            }
                        }
                    }
                    if p.torn_tail == 0 && (p.complete > 0 || !want.is_empty()) {
                        for (k, rows) in &want {
                            match p.table.get(k) {
                                None => fail!("C19/mrt/content/rib-prefix-missing-from-table-dump", "op {} {}: generation {}: {} is in the Loc-RIB with {} paths, the dump has no record for it ({} records)", opi, op.to_compact(), gi, k, rows.len(), p.complete),
                                Some(g) => {
                                    let mut a = g.clone();
                                    let mut b = rows.clone();
                                    a.sort();
                                    b.sort();
                                    if a != b {
                                        fail!("C19/mrt/content/table-dump-entry-differs-from-rib", "op {} {}: generation {}: {}: dump {:?} RIB {:?}", opi, op.to_compact(), gi, k, a, b);
                                    }
                                }
                            }
                        }
                        for k in p.table.keys() {
                            if !want.contains_key(k) {
                                fail!("C19/mrt/content/table-dump-lists-a-prefix-not-in-the-rib", "op {} {}: generation {}: {}", opi, op.to_compact(), gi, k);
                            }
                        }
                        out.hit("compare.table-dump-against-rib");
                    }
                }
                None => {}
            }
        }
    }
    out.nontrivial = read_any;
    out.vtime_ms = t.now();
    out
}
