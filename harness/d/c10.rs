//! C10 — graceful-restart helper: stale routes live only while a timer or EOR is pending.
//! Tier D: the glue in `session_loop` / `apply_disconnect` / the timer tasks is what the statement
//! is about, so everything runs for real: sessions that drop for every reason, reconnects that
//! succeed, fail at OPEN, or die early, End-of-RIB per family, virtual time past every timer.

use super::super::*;
use super::c01::{gen_rspec, RSpec};
use super::c08::fix_task_panic;
use super::speaker::*;
use super::topo::*;
use super::world::*;
use crate::verif_net::PipeOpts;
use std::collections::{BTreeMap, BTreeSet};
use vcore::{jarr, jobj, Check, CheckInfo, Json, Outcome, Rng, Tolerate, Violation};

pub(crate) struct GrHelper;

const FAMS: [Family; 2] = [Family::IPV4, Family::IPV6];
const NO_LLGR: u32 = 0xffff_0007;

fn fams_of(mask: u64) -> Vec<Family> {
    FAMS.iter().enumerate().filter(|(i, _)| mask & (1 << i) != 0).map(|(_, f)| *f).collect()
}

fn prefix(fam: usize, idx: u64) -> packet::Nlri {
    if fam == 0 {
        v4_prefix(idx)
    } else {
        v6_prefix(idx)
    }
}

fn nexthop(fam: usize) -> bgp::Nexthop {
    if fam == 0 {
        bgp::Nexthop::V4(Ipv4Addr::new(192, 0, 2, 1))
    } else {
        bgp::Nexthop::V6("2001:db8:ffff::1".parse().unwrap())
    }
}

/// Capabilities of one session attempt: (family mask, gr mask or 0 = no GR cap, N-bit, llgr mask, llgr time).
fn session_caps(asn: u32, fam_mask: u64, gr_mask: u64, nbit: bool, restart: u16, llgr_mask: u64, llgr_time: u32) -> Vec<packet::Capability> {
    let mut caps: Vec<packet::Capability> = fams_of(fam_mask).into_iter().map(packet::Capability::MultiProtocol).collect();
    if gr_mask != 0 {
        caps.push(packet::Capability::GracefulRestart { flags: if nbit { 0x4 } else { 0 }, restart_time: restart, families: fams_of(gr_mask).into_iter().map(|f| (f, 0x80)).collect() });
    }
    if llgr_mask != 0 {
        caps.push(packet::Capability::LongLivedGracefulRestart(fams_of(llgr_mask).into_iter().map(|f| (f, 0u8, llgr_time)).collect()));
    }
    caps.push(packet::Capability::FourOctetAsNumber(asn));
    caps
}

struct PeerModel {
    // what the *current* session announced and has not withdrawn: (fam idx, prefix idx)
    announced: BTreeSet<(usize, u64)>,
    /// Sources seen in the RIB for this peer before the last drop (kept alive so that the
    /// allocation cannot be reused by a newer Source).
    old_sources: Vec<Arc<table::Source>>,
    established: bool,
    /// negotiated in the current session
    gr_fams: BTreeSet<usize>,
    llgr_fams: BTreeSet<usize>,
    session_fams: BTreeSet<usize>,
    nbit: bool,
    eor_sent: BTreeSet<usize>,
    /// (virtual ms, reason tag) of the last drop
    last_drop: Option<(u64, String)>,
    restart_ms: u64,
    llgr_ms: u64,
    admin_down: bool,
    /// GR / LLGR family sets in force when the session last dropped
    dropped_gr: BTreeSet<usize>,
    dropped_llgr: BTreeSet<usize>,
}

impl Check for GrHelper {
    fn property(&self) -> &'static str {
        "C10"
    }
    fn tier(&self) -> &'static str {
        "D"
    }
    fn name(&self) -> &'static str {
        "gr-helper"
    }

    fn generate(&self, seed: u64, thorough: bool) -> Json {
        let mut rng = Rng::new(seed);
        // DUT-side configuration of the peer
        let cfg_fams = *rng.pick(&[1u64, 3, 3]);
        let cfg_gr = *rng.pick(&[1u64, 3, 3, 1]) & cfg_fams;
        let cfg_nbit = rng.coin();
        let cfg_llgr = if rng.chance(1, 2) { *rng.pick(&[1u64, 3, 2]) & cfg_fams } else { 0 };
        let restart = *rng.pick(&[5u64, 30, 120]);
        let llgr_time = *rng.pick(&[10u64, 60, 600]);
        let hold = *rng.pick(&[0u64, 9, 30]);
        let ebgp = rng.coin();
        let draw_caps = |rng: &mut Rng| -> Json {
            // what the speaker advertises in one session attempt
            let fams = *rng.pick(&[cfg_fams, cfg_fams, 1]);
            let gr = match rng.below(6) {
                0 => 0,
                1 => 1 & fams,
                _ => cfg_gr & fams,
            };
            let llgr = if rng.chance(2, 3) { cfg_llgr & fams } else { 0 };
            jarr![fams, gr, rng.coin(), llgr]
        };
        let mut ops = vec![jarr!["up", jarr![cfg_fams, cfg_gr, true, cfg_llgr]]];
        let n = rng.range(4, if thorough { 40 } else { 22 });
        for _ in 0..n {
            match rng.weighted(&[28, 8, 14, 12, 8, 12, 4, 6]) {
                0 => {
                    let fam = rng.below(2);
                    let spec = gen_rspec(&mut rng, if ebgp { Role::Ebgp } else { Role::Ibgp }, 65001);
                    let mut j = spec.to_json();
                    if rng.chance(1, 5) {
                        j.set("com", jarr![NO_LLGR]);
                    }
                    ops.push(jarr!["ann", fam, rng.below(4), j]);
                }
                1 => ops.push(jarr!["wd", rng.below(2), rng.below(4)]),
                2 => {
                    // session drop, by reason
                    let kind = *rng.pick(&["fin", "rst", "fin", "silent", "notif-cease", "notif-hard", "notif-other", "dut-shutdown", "dut-disable", "dut-reset", "malformed", "bfd-down", "dut-stop-gr"]);
                    ops.push(jarr!["down", kind, *rng.pick(&[2u64, 4, 6, 8])]);
                }
                3 => ops.push(jarr!["up", draw_caps(&mut rng)]),
                4 => {
                    // reconnection attempts that do not reach (or do not keep) Established
                    let kind = *rng.pick(&["bad-as", "close-before-open", "close-after-open", "est-then-fin"]);
                    ops.push(jarr!["try", kind, draw_caps(&mut rng)]);
                }
                5 => {
                    let unit = *rng.pick(&[restart, restart, llgr_time, 1]);
                    let f = *rng.pick(&[10u64, 50, 99, 101, 150, 250]);
                    ops.push(jarr!["wait", (unit * 1000 * f / 100).max(1)]);
                }
                6 => ops.push(jarr!["eor", rng.below(2)]),
                _ => {
                    if rng.coin() {
                        ops.push(jarr!["enable"]);
                    } else {
                        ops.push(jarr!["admin", *rng.pick(&["shutdown", "disable", "reset", "delete", "stop-bgp"])]);
                    }
                }
            }
        }
        // faults stop: let every timer run out
        ops.push(jarr!["drain"]);
        jobj! {"cfg_fams" => cfg_fams, "cfg_gr" => cfg_gr, "cfg_nbit" => cfg_nbit, "cfg_llgr" => cfg_llgr, "restart" => restart, "llgr_time" => llgr_time,
               "hold" => hold, "ebgp" => ebgp, "shards" => rng.range(1, 2), "sub" => rng.next_u64() >> 1, "ops" => Json::Arr(ops)}
    }

    fn execute(&self, case: &Json, tol: &Tolerate) -> Outcome {
        let case = case.clone();
        let tol = tol.clone();
        let mut out = run_sim(case.i("sub", 1) as u64, move || run(case, tol));
        fix_task_panic(&mut out, "C10");
        out
    }

    fn info(&self) -> CheckInfo {
        CheckInfo {
            rule: "one GR/LLGR-configured neighbour (family sets, N-bit, restart 5/30/120 s, LLGR 10/60/600 s drawn per run) on a real session; history of announce/withdraw (some with NO_LLGR), drops by FIN / RST / silence->hold expiry / received Cease, hard-reset and non-Cease NOTIFICATIONs / operator shutdown, disable, hard reset, delete (and configure again), StopBgp (and StartBgp, configure again) / malformed UPDATE / the BFD session towards the neighbour going down (silent close by the event loop) / StopBgp with allow_graceful_restart on a live session, reconnects with the same, fewer or no GR/LLGR families, attempts that fail at OPEN or die before/after Established, End-of-RIB per family, waits of 10-250% of each timer. Invariants at every quiescent point, read from PeerContext and the RIB: (I1) a retained path (stale, LLGR-stale, or from an earlier session) implies restart timer armed, LLGR timer armed for its family, or EOR awaited on the live session; (I2) after a drop no path of a family outside the negotiated GR/LLGR sets remains; (I3) what the live session announced is in the RIB; (I4) hard reset / admin shutdown / non-Cease error leave nothing behind; (I5) no NO_LLGR path is LLGR-stale; (I6) TCP failure with GR keeps and stales the routes; bounded liveness after the last fault. non-trivial = some path was retained across a session drop".into(),
            components_real: vec!["PeerSession::{run,session_loop}, apply_disconnect, gr_on_disconnect, families_to_drop_on_disconnect, gr_restart_timer_expired, llgr_timer_expired, spawn_llgr_timers, process_effects".into(), "gr::GrState".into(), "TableManager::{unregister_peer,drop_stale_families,mark_llgr_stale,drop_llgr_stale_families}, table::Table".into(), "GrpcService::{shutdown_peer,disable_peer,enable_peer,reset_peer}".into()],
            components_stubbed: vec!["TCP, clock, listener loop, the restarting peer (scripted)".into()],
            assumptions: vec!["timer 'armed' = oneshot sender present and its task alive (Sender::is_closed() == false)".into(), "1 s slack on bounded liveness".into()],
            bounds: "<=40 ops, one GR peer, two families, 4 prefixes per family".into(),
        }
    }
}

fn down_reason_class(kind: &str) -> &'static str {
    match kind {
        "fin" | "rst" => "tcp-failure",
        "silent" => "hold-expiry",
        "notif-cease" => "cease-received",
        "notif-hard" => "hard-reset-received",
        "notif-other" => "non-cease-received",
        "dut-shutdown" | "dut-disable" | "dut-stop-gr" => "admin-shutdown",
        "dut-reset" => "operator-hard-reset",
        "bfd-down" => "bfd-session-down",
        "malformed" => "local-error-notification",
        _ => "other",
    }
}

async fn run(case: Json, tol: Tolerate) -> Outcome {
    let mut out = Outcome::default();
    let cfg_fams = case.i("cfg_fams", 1) as u64;
    let cfg_gr = case.i("cfg_gr", 1) as u64;
    let cfg_nbit = case.get("cfg_nbit").map(|b| b.as_bool()).unwrap_or(false);
    let cfg_llgr = case.i("cfg_llgr", 0) as u64;
    let restart = case.i("restart", 30) as u64;
    let llgr_time = case.i("llgr_time", 60) as u64;
    let hold = case.i("hold", 0) as u64;
    let ebgp = case.get("ebgp").map(|b| b.as_bool()).unwrap_or(true);
    let addr: IpAddr = "10.0.1.1".parse().unwrap();
    let asn = if ebgp { 65001 } else { DUT_AS };
    let role = if ebgp { Role::Ebgp } else { Role::Ibgp };

    let mut wcfg = WorldCfg::default();
    wcfg.shards = case.i("shards", 1) as usize;
    let mut ps = PeerSpec::new(addr, asn);
    ps.holdtime = hold;
    ps.families = fams_of(cfg_fams).into_iter().map(|f| (f, 0)).collect();
    if cfg_gr != 0 {
        ps.gr = Some((restart as u16, cfg_nbit, fams_of(cfg_gr)));
    }
    if cfg_llgr != 0 {
        ps.llgr = Some(fams_of(cfg_llgr).into_iter().map(|f| (f, llgr_time as u32)).collect());
    }
    let ps_again = ps.clone();
    wcfg.peers.push(ps);
    let node = NodeCfg { role, addr, asn, rid: 0x0a00_0101, send_max: 1, addpath_rx: false, gr: None, llgr: None, prefix_limit: None, ext_msg: false };
    let w = World::new(&wcfg).await;
    let spk = Speaker::new(addr, asn, node.rid, hold as u16, vec![]);
    let mut t = Topo { w, families: fams_of(cfg_fams), hold, nodes: vec![Node { cfg: node, spk, last_ka_ms: 0 }], start: tokio::time::Instant::now() };
    let _ = crate::verif_net::now_ms();
    let mut m = PeerModel {
        announced: BTreeSet::new(),
        old_sources: Vec::new(),
        established: false,
        gr_fams: BTreeSet::new(),
        llgr_fams: BTreeSet::new(),
        session_fams: BTreeSet::new(),
        nbit: false,
        eor_sent: BTreeSet::new(),
        last_drop: None,
        restart_ms: restart * 1000,
        llgr_ms: llgr_time * 1000,
        admin_down: false,
        dropped_gr: BTreeSet::new(),
        dropped_llgr: BTreeSet::new(),
    };
    let mut retained_seen = false;
    let mut deleted = false;
    let mut stopped = false;
    let mut orphans: Vec<Arc<std::sync::Mutex<PeerContext>>> = Vec::new();
    let mut silent = false;
    let mut old_before_drop = 0usize;

    macro_rules! fail {
        ($class:expr, $($arg:tt)*) => {{
            let v = Violation::new(format!("C10/{}", $class), format!($($arg)*));
            if out.violate(&tol, v) { out.vtime_ms = t.now(); out.nontrivial |= retained_seen; return out; }
        }};
    }

    let ops: Vec<Json> = case.get("ops").map(|o| o.arr().to_vec()).unwrap_or_default();
    for (opi, op) in ops.iter().enumerate() {
        let tag = op.at(0).as_str().to_string();
        let mut just_dropped: Option<String> = None;
        match tag.as_str() {
            "up" | "try" => {
                let (kind, caps_j) = if tag == "up" { ("ok", op.at(1)) } else { (op.at(1).as_str(), op.at(2)) };
                if t.nodes[0].spk.conn.is_some() || m.admin_down {
                    continue;
                }
                t.settle().await;
                let (fm, gm, nb, lm) = (caps_j.at(0).as_u64() & cfg_fams | 1, caps_j.at(1).as_u64(), caps_j.at(2).as_bool(), caps_j.at(3).as_u64());
                let caps = session_caps(asn, fm, gm & fm, nb, restart as u16, lm & fm, llgr_time as u32);
                t.nodes[0].spk.caps = caps;
                t.nodes[0].spk.asn = if kind == "bad-as" { asn + 7 } else { asn };
                t.nodes[0].spk.auto_open = kind != "close-before-open";
                t.nodes[0].spk.auto_ka = kind != "close-after-open";
                silent = false;
                t.connect(0, &PipeOpts::default(), &PipeOpts::default()).await;
                t.settle().await;
                match kind {
                    "ok" | "est-then-fin" => {
                        if t.nodes[0].spk.established() {
                            // negotiated sets, by the rule of the statement: in force iff both advertised it
                            m.established = true;
                            m.session_fams = (0..2).filter(|i| (fm & cfg_fams) & (1 << i) != 0).collect();
                            m.gr_fams = (0..2).filter(|i| (gm & fm & cfg_gr) & (1 << i) != 0).collect();
                            m.llgr_fams = (0..2).filter(|i| (lm & fm & cfg_llgr) & (1 << i) != 0).collect();
                            m.nbit = nb && cfg_nbit && !m.gr_fams.is_empty();
                            m.eor_sent.clear();
                            m.announced.clear();
                            out.hit("op.session-established");
                            if kind == "est-then-fin" {
                                // what earlier sessions left behind (and what I1 watches over) is known
                                // already: I2 judges this short session only
                                old_before_drop = m.old_sources.len();
                                t.nodes[0].spk.close();
                                just_dropped = Some("fin".into());
                                out.hit("fault.short-lived-session");
                            }
                        } else {
                            out.hit("probe.session-attempt-did-not-establish");
                            t.nodes[0].spk.close();
                        }
                    }
                    _ => {
                        // the attempt fails before Established: must not disturb pending timers
                        out.hit(&format!("fault.failed-reconnect.{}", kind));
                        t.settle().await;
                        t.nodes[0].spk.close();
                        t.nodes[0].spk.asn = asn;
                    }
                }
                t.nodes[0].spk.auto_open = true;
                t.nodes[0].spk.auto_ka = true;
                t.settle().await;
            }
            "ann" if m.established => {
                let fam = op.at(1).as_usize() % 2;
                if m.session_fams.contains(&fam) {
                    let spec = RSpec::from_json(op.at(3));
                    let mut attrs = spec.attrs(role);
                    if fam == 1 {
                        attrs.retain(|a| a.code() != packet::Attribute::NEXTHOP);
                    }
                    let net = packet::PathNlri { path_id: 0, nlri: prefix(fam, op.at(2).as_u64()) };
                    t.nodes[0].spk.announce(FAMS[fam], vec![net], Some(nexthop(fam)), attrs);
                    m.announced.insert((fam, op.at(2).as_u64()));
                    out.hit("op.announce");
                    t.settle().await;
                }
            }
            "wd" if m.established => {
                let fam = op.at(1).as_usize() % 2;
                if m.session_fams.contains(&fam) {
                    let net = packet::PathNlri { path_id: 0, nlri: prefix(fam, op.at(2).as_u64()) };
                    t.nodes[0].spk.withdraw(FAMS[fam], vec![net]);
                    m.announced.remove(&(fam, op.at(2).as_u64()));
                    t.settle().await;
                }
            }
            "eor" if m.established => {
                let fam = op.at(1).as_usize() % 2;
                if m.session_fams.contains(&fam) {
                    t.nodes[0].spk.eor(FAMS[fam]);
                    m.eor_sent.insert(fam);
                    out.hit("op.end-of-rib");
                    t.settle().await;
                }
            }
            "down" if m.established => {
                let kind = op.at(1).as_str().to_string();
                if kind == "silent" && hold == 0 {
                    continue;
                }
                // remember every Source the peer has in the RIB right now
                old_before_drop = m.old_sources.len();
                for f in 0..2 {
                    for d in t.w.tables.collect_paths(table::TableQuery::AdjIn(addr), FAMS[f], vec![], true) {
                        for p in d.paths {
                            if !m.old_sources.iter().any(|s| Arc::ptr_eq(s, &p.source)) {
                                m.old_sources.push(p.source.clone());
                            }
                        }
                    }
                }
                match kind.as_str() {
                    "fin" => t.nodes[0].spk.close(),
                    "rst" => t.nodes[0].spk.rst(),
                    "silent" => {
                        silent = true;
                        t.nodes[0].spk.mute = true;
                        t.advance(hold * 1000 + 500).await;
                    }
                    "notif-cease" => {
                        let sub = op.at(2).as_u64() as u8;
                        t.nodes[0].spk.send(&bgp::Message::Notification(packet::Notification::from_notification(6, sub, vec![])));
                        t.settle().await;
                        t.nodes[0].spk.close();
                    }
                    "notif-hard" => {
                        t.nodes[0].spk.send(&bgp::Message::Notification(packet::Notification::CeaseHardReset));
                        t.settle().await;
                        t.nodes[0].spk.close();
                    }
                    "notif-other" => {
                        t.nodes[0].spk.send(&bgp::Message::Notification(packet::Notification::UpdateMalformedAttributeList));
                        t.settle().await;
                        t.nodes[0].spk.close();
                    }
                    "dut-shutdown" => {
                        let _ = t.w.grpc.shutdown_peer(tonic::Request::new(api::ShutdownPeerRequest { address: addr.to_string(), ..Default::default() })).await;
                    }
                    "dut-disable" => {
                        let _ = t.w.grpc.disable_peer(tonic::Request::new(api::DisablePeerRequest { address: addr.to_string(), ..Default::default() })).await;
                        m.admin_down = true;
                    }
                    "dut-reset" => {
                        let _ = t.w.grpc.reset_peer(tonic::Request::new(api::ResetPeerRequest { address: addr.to_string(), soft: false, ..Default::default() })).await;
                    }
                    "dut-stop-gr" => {
                        // StopBgp with allow_graceful_restart: the speaker goes away without a NOTIFICATION
                        // so that its neighbours keep its routes; on its own side this is an administrative
                        // shutdown and nothing of the neighbour may be kept
                        if let Some(p) = t.w.global.read().await.peers.get(&addr) {
                            orphans.push(p.context.clone());
                        }
                        let _ = t.w.grpc.stop_bgp(tonic::Request::new(api::StopBgpRequest { allow_graceful_restart: true })).await;
                        m.admin_down = true;
                        deleted = true;
                        stopped = true;
                    }
                    "bfd-down" => {
                        // the BFD session towards the neighbour goes down: the event loop closes the
                        // connection without a NOTIFICATION (RFC 5882 4.2)
                        let tx = t.w.global.read().await.bfd_event_tx.clone();
                        let _ = tx.send(crate::bfd::BfdEvent::SessionDown { peer_addr: addr });
                    }
                    _ => {
                        // UPDATE whose withdrawn-routes length overruns the message: the NLRI cannot be located
                        let mut raw = vec![0xffu8; 16];
                        raw.extend_from_slice(&[0, 27, 2, 0, 9, 24, 10, 1, 0, 0, 0]);
                        t.nodes[0].spk.send_raw(&raw);
                    }
                }
                t.settle().await;
                if t.nodes[0].spk.conn.is_some() {
                    let now = t.now();
                    t.nodes[0].spk.process_inbox(now);
                    t.nodes[0].spk.close();
                    t.settle().await;
                }
                let _ = silent;
                just_dropped = Some(kind);
                out.hit(&format!("fault.session-drop.{}", down_reason_class(just_dropped.as_deref().unwrap())));
            }
            "admin" if !m.established && !m.admin_down => {
                // operator action while the peer is away (restart or LLGR period running): what is
                // retained must be purged at once, not left behind without a timer
                let kind = op.at(1).as_str().to_string();
                match kind.as_str() {
                    "shutdown" => {
                        let _ = t.w.grpc.shutdown_peer(tonic::Request::new(api::ShutdownPeerRequest { address: addr.to_string(), ..Default::default() })).await;
                    }
                    "disable" => {
                        let _ = t.w.grpc.disable_peer(tonic::Request::new(api::DisablePeerRequest { address: addr.to_string(), ..Default::default() })).await;
                        m.admin_down = true;
                    }
                    "stop-bgp" => {
                        // StopBgp (and, at the next `enable`, StartBgp and the neighbour configured again)
                        if let Some(p) = t.w.global.read().await.peers.get(&addr) {
                            orphans.push(p.context.clone());
                        }
                        let _ = t.w.grpc.stop_bgp(tonic::Request::new(api::StopBgpRequest { allow_graceful_restart: false })).await;
                        m.admin_down = true;
                        deleted = true;
                        stopped = true;
                    }
                    "delete" => {
                        // the neighbour is removed from the configuration (and configured again at the next
                        // `enable`); its timers live on in the context the timer tasks hold
                        if let Some(p) = t.w.global.read().await.peers.get(&addr) {
                            orphans.push(p.context.clone());
                        }
                        let _ = t.w.grpc.delete_peer(tonic::Request::new(api::DeletePeerRequest { address: addr.to_string(), ..Default::default() })).await;
                        m.admin_down = true;
                        deleted = true;
                    }
                    _ => {
                        let _ = t.w.grpc.reset_peer(tonic::Request::new(api::ResetPeerRequest { address: addr.to_string(), soft: false, ..Default::default() })).await;
                    }
                }
                out.hit(&format!("fault.operator-{}-while-peer-is-away", kind));
                t.settle().await;
            }
            "enable" => {
                if m.admin_down {
                    if deleted {
                        if stopped {
                            let req = api::StartBgpRequest { global: Some(api::Global { asn: DUT_AS, router_id: "10.0.0.254".to_string(), listen_port: -1, ..Default::default() }) };
                            let _ = t.w.grpc.start_bgp(tonic::Request::new(req)).await;
                            stopped = false;
                        }
                        let _ = t.w.global.write().await.add_peer(ps_again.params(), Some(t.w.active_tx.clone()));
                        deleted = false;
                    } else {
                        let _ = t.w.grpc.enable_peer(tonic::Request::new(api::EnablePeerRequest { address: addr.to_string(), ..Default::default() })).await;
                    }
                    m.admin_down = false;
                    t.settle().await;
                }
            }
            "wait" => {
                t.advance(op.at(1).as_u64()).await;
            }
            "drain" => {
                // faults stop here
                if m.established {
                    continue;
                }
                t.advance(m.restart_ms.max(m.llgr_ms) + m.restart_ms + 2000).await;
            }
            _ => continue,
        }
        if let Some(kind) = &just_dropped {
            m.dropped_gr = m.gr_fams.clone();
            m.dropped_llgr = m.llgr_fams.clone();
            m.established = false;
            m.last_drop = Some((t.now(), kind.clone()));
            m.announced.clear();
        }
        if t.nodes[0].spk.state == SpkState::Closed && m.established {
            // the DUT ended the session on its own (e.g. prefix limit, FSM error): treat as drop
            m.established = false;
            m.last_drop = Some((t.now(), "dut-closed".into()));
            m.announced.clear();
            t.nodes[0].spk.close();
            t.settle().await;
        }

        // ---- invariants at this quiescent point --------------------------------------------------
        let (gr_armed, llgr_armed, restarting): (bool, BTreeSet<usize>, bool) = {
            let g = t.w.global.read().await;
            let mut ctxs: Vec<Arc<std::sync::Mutex<PeerContext>>> = orphans.clone();
            if let Some(p) = g.peers.get(&addr) {
                ctxs.push(p.context.clone());
            }
            let mut r = (false, BTreeSet::new(), false);
            for c in ctxs {
                let ctx = c.lock().unwrap();
                r.0 |= ctx.gr_restart_timer.as_ref().is_some_and(|tx| !tx.is_closed());
                r.1.extend((0..2).filter(|i| ctx.llgr_family_timers.get(&FAMS[*i]).is_some_and(|tx| !tx.is_closed())));
                r.2 |= ctx.gr_state.is_peer_restarting();
            }
            r
        };
        let mut from_older_session: BTreeSet<(usize, String)> = BTreeSet::new();
        let mut rib: BTreeMap<(usize, String), (bool, bool, bool, bool)> = BTreeMap::new(); // (stale, llgr, old source, no_llgr)
        for f in 0..2 {
            for d in t.w.tables.collect_paths(table::TableQuery::AdjIn(addr), FAMS[f], vec![], true) {
                for p in &d.paths {
                    let old = m.old_sources.iter().any(|s| Arc::ptr_eq(s, &p.source));
                    let no_llgr = table::has_no_llgr_community(&p.attr);
                    if m.old_sources[..old_before_drop.min(m.old_sources.len())].iter().any(|s| Arc::ptr_eq(s, &p.source)) {
                        from_older_session.insert((f, format!("{:?}", d.net)));
                    }
                    rib.insert((f, format!("{:?}", d.net)), (p.stale, p.source.is_llgr_stale(), old, no_llgr));
                }
            }
        }
        let drop_kind = m.last_drop.as_ref().map(|d| d.1.clone()).unwrap_or_default();
        let reason = down_reason_class(&drop_kind);
        for ((f, net), (stale, llgr, old, no_llgr)) in &rib {
            let retained = *stale || *llgr || (*old && !(m.established && m.announced.iter().any(|(ff, i)| ff == f && format!("{:?}", prefix(*ff, *i)) == *net)));
            if retained {
                retained_seen = true;
                out.hit("probe.retained-path-present");
                // a peer that exchanged the GR capability sends End-of-RIB for every family of the session
                let awaiting_eor = m.established && !m.gr_fams.is_empty() && m.session_fams.contains(f) && !m.eor_sent.contains(f);
                if !(gr_armed || llgr_armed.contains(f) || awaiting_eor) {
                    let cause = if m.dropped_llgr.contains(f) && !m.dropped_gr.contains(f) { "/llgr-only-family" } else { "" };
                    fail!(format!("I1-retained-route-without-timer-or-eor/after-{}/{}{}", tag, if m.established { "session-up" } else { reason }, cause),
                        "op {} {}: path {} (family {}) stale={} llgr_stale={} from-earlier-session={} but restart timer armed={} llgr timers={:?} established={} gr_fams={:?} eor_sent={:?} (last drop: {})",
                        opi, op.to_compact(), net, f, stale, llgr, old, gr_armed, llgr_armed, m.established, m.gr_fams, m.eor_sent, drop_kind);
                    break;
                }
                if *llgr && *no_llgr {
                    fail!("I5-no-llgr-route-kept-into-llgr-period", "op {}: path {} carries NO_LLGR but is LLGR-stale", opi, net);
                }
            }
        }
        if let Some(kind) = &just_dropped {
            // I2 / I4 / I6 right after the drop
            let never = matches!(down_reason_class(kind), "hard-reset-received" | "non-cease-received" | "admin-shutdown" | "operator-hard-reset" | "local-error-notification");
            // (paths an earlier, deleted incarnation of the neighbour left behind under its own timers are I1's business)
            let left: Vec<_> = rib.keys().filter(|k| !from_older_session.contains(*k)).collect();
            if never && !left.is_empty() {
                fail!(format!("I4-helper-mode-after-{}", down_reason_class(kind)), "op {} {}: {} path(s) of the peer are still in the RIB: {:?}", opi, op.to_compact(), left.len(), left);
            }
            let prev_gr = m.gr_fams.clone();
            let prev_llgr = m.llgr_fams.clone();
            for ((f, net), _) in &rib {
                // paths of sessions before the one that just ended are I1's business
                if from_older_session.contains(&(*f, net.clone())) {
                    continue;
                }
                if !prev_gr.contains(f) && !prev_llgr.contains(f) {
                    fail!("I2-route-of-non-gr-family-kept-after-drop", "op {} {}: path {} of family {} kept although GR families were {:?}, LLGR {:?}", opi, op.to_compact(), net, f, prev_gr, prev_llgr);
                    break;
                }
            }
            if down_reason_class(kind) == "tcp-failure" {
                out.hit("probe.tcp-failure-drop");
            }
        }
        // I3: what the live session announced is there (never removed by a purge)
        if m.established {
            for (f, i) in &m.announced {
                let k = (*f, format!("{:?}", prefix(*f, *i)));
                match rib.get(&k) {
                    None => {
                        fail!(format!("I3-route-of-live-session-missing/after-{}", tag), "op {} {}: {} announced on the live session is not in the RIB", opi, op.to_compact(), k.1);
                        m.announced.clear();
                        break;
                    }
                    Some((stale, llgr, _, _)) if *stale || *llgr => {
                        fail!("I3-route-of-live-session-marked-stale", "op {}: {} stale={} llgr={}", opi, k.1, stale, llgr);
                    }
                    _ => {}
                }
            }
        }
        // bounded liveness once faults have stopped and the peer stayed away
        if tag == "drain" && !m.established {
            if !rib.is_empty() {
                fail!("liveness/retained-routes-after-all-timers", "{} path(s) left after {} ms of silence: {:?}", rib.len(), m.restart_ms.max(m.llgr_ms) + m.restart_ms + 2000, rib.keys().collect::<Vec<_>>());
            }
            if restarting {
                // internal flag, not part of the statement: counted, not judged
                out.hit("probe.gr-state-still-restarting-after-all-timers");
            }
        }
    }
    out.nontrivial = retained_seen;
    out.vtime_ms = t.now();
    if t.collect_speaker_errors(&mut out, "C10", &tol) {
        return out;
    }
    out
}
