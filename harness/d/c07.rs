//! C07 — Established only after a valid OPEN exchange; a collision leaves one connection.
//! Tier D: both connection roles of one peer run for real (`accept_connection`, `ConnArbiter`,
//! `PeerFsm`, the close channels, the active-connect retry loop on the simulated transport).
//! A scripted peer drives each connection by hand with acceptable and unacceptable messages,
//! closes, resets, and lets the DUT's own connection attempts in or not.

use super::super::*;
use super::c08::fix_task_panic;
use super::speaker::*;
use super::world::*;
use crate::fsm::{Role as FRole, State as FState};
use crate::verif_net as net;
use crate::verif_net::{PipeOpts, TcpStream as SimStream};
use vcore::{jarr, jobj, Check, CheckInfo, Json, Outcome, Rng, Tolerate, Violation};

pub(crate) struct FsmWire {
    /// "C07": the FSM and collision oracle; "C18": the same histories with a monitoring client that
    /// subscribes whenever one connection is Established (the other one may just have lost a collision)
    pub prop: &'static str,
}

const PEER_AS: u32 = 65001;

#[derive(Clone, Copy, Debug, PartialEq, Eq)]
enum M {
    Idle,
    OpenSent,
    OpenConfirm,
    Established,
}

fn m_of(s: FState) -> M {
    match s {
        FState::OpenSent => M::OpenSent,
        FState::OpenConfirm => M::OpenConfirm,
        FState::Established => M::Established,
        _ => M::Idle,
    }
}

fn role_name(r: usize) -> &'static str {
    if r == 0 {
        "active"
    } else {
        "passive"
    }
}

impl Check for FsmWire {
    fn property(&self) -> &'static str {
        self.prop
    }
    fn tier(&self) -> &'static str {
        "D"
    }
    fn name(&self) -> &'static str {
        if self.prop == "C18" {
            "collision-then-subscribe"
        } else {
            "fsm-wire"
        }
    }

    fn generate(&self, seed: u64, thorough: bool) -> Json {
        let mut rng = Rng::new(seed);
        let remote_higher = rng.coin();
        let mut ops = Vec::new();
        if rng.chance(2, 3) {
            ops.push(jarr!["listen", true]);
        }
        let n = rng.range(4, if thorough { 40 } else { 24 });
        for _ in 0..n {
            let c = rng.below(2); // 0 = connection initiated by the DUT (active), 1 = by the peer (passive)
            match rng.weighted(&[10, 22, 18, 5, 4, 4, 6, 4, 10, 3, 2, 3]) {
                0 => ops.push(jarr!["conn"]),
                1 => ops.push(jarr!["open", c, *rng.pick(&["good", "good", "good", "good", "bad-as", "id0", "hold1", "badver", "idmcast"])]),
                2 => ops.push(jarr!["ka", c]),
                3 => ops.push(jarr!["upd", c]),
                4 => ops.push(jarr!["rr", c]),
                5 => ops.push(jarr!["notif", c]),
                6 => ops.push(jarr![*rng.pick(&["fin", "rst"]), c]),
                7 => ops.push(jarr!["listen", rng.coin()]),
                8 => ops.push(jarr!["wait", *rng.pick(&[1u64, 100, 3100, 5200, 9000])]),
                9 => ops.push(jarr!["shutdown"]),
                11 => ops.push(jarr!["update"]),
                _ => ops.push(jarr!["badlen", c]),
            }
            // sometimes several inputs land in the same instant, with no quiescence in between
            if rng.chance(1, 6) {
                let mut sub = Vec::new();
                for _ in 0..rng.range(2, 4) {
                    let c = rng.below(2);
                    sub.push(match rng.weighted(&[4, 3, 3, 2]) {
                        0 => jarr!["open", c, "good"],
                        1 => jarr!["ka", c],
                        2 => jarr!["conn"],
                        _ => jarr!["fin", c],
                    });
                }
                ops.push(jarr!["burst", Json::Arr(sub)]);
            }
        }
        ops.push(jarr!["recover"]);
        jobj! {"remote_higher" => remote_higher, "sub" => rng.next_u64() >> 1, "ops" => Json::Arr(ops)}
    }

    fn execute(&self, case: &Json, tol: &Tolerate) -> Outcome {
        let case = case.clone();
        let tol = tol.clone();
        let prop = self.prop;
        let mut out = run_sim(case.i("sub", 1) as u64, move || run(case, tol, prop));
        fix_task_panic(&mut out, self.prop);
        out
    }

    fn info(&self) -> CheckInfo {
        if self.prop == "C18" {
            return CheckInfo {
                rule: "the histories of C07's `fsm-wire` (one neighbour, connections in both directions at the same time, collisions, refused second attempts, teardowns of one connection while the other lives), judged by a monitoring client instead of the FSM reference: at every quiescent point at which one connection is Established the neighbour announces a prefix on it and a WatchEvent client (peer events, pre-policy Adj-RIB-In with the initial snapshot) subscribes; after its initial phase it must have been told that the neighbour is up and hold every path the RIB holds for it. non-trivial = a client subscribed while both directions had had a connection".into(),
                components_real: vec!["GrpcService::watch_event, TableManager::subscribe, the per-neighbour state shared by the two connections (PeerState), ConnArbiter, PeerSession::{apply_outputs, session_loop}".into()],
                components_stubbed: vec!["TCP, clock, the neighbour; the gRPC transport".into()],
                assumptions: vec![],
                bounds: "<=40 ops, one neighbour, one prefix".into(),
            };
        }
        CheckInfo {
            rule: "one neighbour, both connection roles: the peer connects to the DUT and/or lets the DUT's active-connect loop in; per connection a hand-driven sequence of OPEN (acceptable / wrong AS / identifier 0 or multicast / hold time 1 / version 3), KEEPALIVE, UPDATE, ROUTE-REFRESH, NOTIFICATION, bad-length frame, FIN, RST, operator shutdown, UpdatePeer with a setting that needs a new session (all connections ended, fresh arbiter), waits across the connect-retry timers; both orderings of the BGP identifiers. After every op at quiescence a reference FSM per role (from the statement) is compared with the arbiter's state; invariants: at most one connection in OpenConfirm/Established, Established only via OpenSent -> acceptable OPEN -> OpenConfirm -> KEEPALIVE, a disallowed message answered by an FSM-error NOTIFICATION naming the state, every teardown frees the slot, collision survivor = Established one else the higher identifier's connection and the loser gets Cease/collision; bounded liveness: once the peer behaves, Established is reached within 60 virtual seconds. non-trivial = both roles had a connection at the same time or a collision was resolved".into(),
            components_real: vec!["accept_connection, ConnArbiter, PeerSession::{run,session_loop,run_select,rx_msg,apply_outputs}, apply_disconnect".into(), "fsm::{PeerFsm,Connection}".into(), "the active-connect retry loop (harness replacement over the simulated transport, same structure)".into(), "packet::PeerCodec::try_parse (OPEN validation)".into(), "GrpcService::shutdown_peer".into()],
            components_stubbed: vec!["TCP, clock, listener loop, the remote peer".into()],
            assumptions: vec!["FSM-error subcode may use the code's state numbering (3/4/5) or RFC 6608's (1/2/3)".into(), "identifier equal to the local one is not required to be rejected (RFC 6286)".into(), "sequences are sampled, not enumerated".into()],
            bounds: "<=40 ops, one peer, hold time 0 (timers are C08's)".into(),
        }
    }
}

struct Side {
    spk: Speaker,
    model: M,
    /// OPEN already sent by us on this connection
    open_sent: bool,
    last_remote_id: u32,
}

async fn run(case: Json, tol: Tolerate, prop: &'static str) -> Outcome {
    let mut out = Outcome::default();
    let remote_higher = case.get("remote_higher").map(|b| b.as_bool()).unwrap_or(false);
    let peer_addr: IpAddr = "10.0.0.1".parse().unwrap();
    let dut_rid: u32 = u32::from(Ipv4Addr::new(10, 0, 0, 254));
    let rid = if remote_higher { dut_rid + 1 } else { dut_rid - 100 };
    let mut cfg = WorldCfg::default();
    let mut ps = PeerSpec::new(peer_addr, PEER_AS);
    ps.holdtime = 0;
    ps.passive = false;
    ps.connect_retry = 3;
    cfg.peers.push(ps);
    let w = World::new(&cfg).await;
    let caps = default_caps(PEER_AS, &[Family::IPV4]);
    let mk = || {
        let mut s = Speaker::new(peer_addr, PEER_AS, rid, 0, caps.clone());
        s.auto_open = false;
        s.auto_ka = false;
        s
    };
    // sides[0]: connection initiated by the DUT (DUT role Active); sides[1]: initiated by the peer (DUT role Passive)
    let mut sides = [Side { spk: mk(), model: M::Idle, open_sent: false, last_remote_id: 0 }, Side { spk: mk(), model: M::Idle, open_sent: false, last_remote_id: 0 }];
    let listen_addr = SocketAddr::new(peer_addr, 179);
    let mut listener: Option<mpsc::UnboundedReceiver<SimStream>> = None;
    let mut both_seen = false;
    let mut collisions = 0u64;
    let mut shutdown = false;
    let mut multihop = false;
    let mut updated = false;
    let mut burst_extra: Vec<Speaker> = Vec::new();

    macro_rules! fail {
        ($class:expr, $($arg:tt)*) => {{
            // the FSM oracle speaks for C07 only
            if prop == "C07" {
                let v = Violation::new(format!("C07/{}", $class), format!($($arg)*));
                if out.violate(&tol, v) { out.vtime_ms = net::now_ms(); out.nontrivial = both_seen || collisions > 0; return out; }
            }
        }};
    }
    let mut subscribed_after_both = false;

    let ops: Vec<Json> = case.get("ops").map(|o| o.arr().to_vec()).unwrap_or_default();
    for (opi, op) in ops.iter().enumerate() {
        let tag = op.at(0).as_str().to_string();
        let c = op.at(1).as_usize() % 2;
        // expected reaction of the DUT on connection c to the message we are about to send
        // (None = no teardown expected; Some((code, subcodes)) = NOTIFICATION expected, then slot Idle)
        let mut expect_notif: Option<(usize, u8, Vec<u8>, &'static str)> = None;
        let mut expect_silent_close: Option<usize> = None;
        let mut burst = false;
        match tag.as_str() {
            "listen" => {
                if op.at(1).as_bool() {
                    if listener.is_none() {
                        listener = Some(net::listen(listen_addr));
                    }
                } else if listener.is_some() {
                    net::unlisten(listen_addr);
                    listener = None;
                }
            }
            "conn" => {
                if sides[1].spk.conn.is_none() {
                    sides[1].spk.connect(&w, &PipeOpts::default(), &PipeOpts::default());
                    sides[1].open_sent = false;
                    sides[1].model = if shutdown { M::Idle } else { M::OpenSent };
                    out.hit("op.peer-connects");
                }
            }
            "open" if sides[c].spk.conn.is_some() => {
                let variant = op.at(2).as_str().to_string();
                let state = sides[c].model;
                let mut raw_open = |asn: u32, id: u32, hold: u16, ver: u8| -> Vec<u8> {
                    let mut b = vec![0xffu8; 16];
                    let mut body = vec![ver];
                    body.extend_from_slice(&(if asn > 65535 { 23456u16 } else { asn as u16 }).to_be_bytes());
                    body.extend_from_slice(&hold.to_be_bytes());
                    body.extend_from_slice(&id.to_be_bytes());
                    // capabilities: MP IPv4 unicast + 4-octet AS
                    let capb: Vec<u8> = vec![1, 4, 0, 1, 0, 1, 65, 4, (asn >> 24) as u8, (asn >> 16) as u8, (asn >> 8) as u8, asn as u8];
                    body.push((capb.len() + 2) as u8);
                    body.push(2);
                    body.push(capb.len() as u8);
                    body.extend_from_slice(&capb);
                    b.extend_from_slice(&((19 + body.len()) as u16).to_be_bytes());
                    b.push(1);
                    b.extend_from_slice(&body);
                    b
                };
                let (bytes, good, code_sub): (Vec<u8>, bool, (u8, u8)) = match variant.as_str() {
                    "bad-as" => (raw_open(PEER_AS + 9, rid, 0, 4), false, (2, 2)),
                    "id0" => (raw_open(PEER_AS, 0, 0, 4), false, (2, 3)),
                    "idmcast" => (raw_open(PEER_AS, 0xe000_0001, 0, 4), false, (2, 3)),
                    "hold1" => (raw_open(PEER_AS, rid, 1, 4), false, (2, 6)),
                    "badver" => (raw_open(PEER_AS, rid, 0, 3), false, (2, 1)),
                    _ => (raw_open(PEER_AS, rid, 0, 4), true, (0, 0)),
                };
                sides[c].spk.send_raw(&bytes);
                sides[c].open_sent = true;
                out.hit(&format!("op.open.{}", variant));
                match state {
                    M::OpenSent => {
                        if good {
                            sides[c].model = M::OpenConfirm;
                            sides[c].last_remote_id = rid;
                            // collision resolution when this connection enters OpenConfirm
                            let o = 1 - c;
                            if matches!(sides[o].model, M::OpenConfirm | M::Established) {
                                collisions += 1;
                                out.hit("probe.collision-resolved");
                                let loser = if sides[o].model == M::Established {
                                    c
                                } else {
                                    // survivor = connection initiated by the higher identifier:
                                    // DUT higher -> its own (active, index 0); remote higher -> the peer's (passive, index 1)
                                    let winner = if dut_rid > rid { 0 } else { 1 };
                                    1 - winner
                                };
                                expect_notif = Some((loser, 6, vec![7], "collision-loser-not-sent-cease"));
                            }
                        } else {
                            expect_notif = Some((c, code_sub.0, vec![code_sub.1], "unacceptable-open-not-refused"));
                        }
                    }
                    // an OPEN that cannot even be parsed may be refused as such (code 2) instead of as an FSM error
                    M::OpenConfirm => expect_notif = Some((c, if good || variant == "bad-as" { 5 } else { 52 }, vec![4, 2], "open-in-openconfirm-not-fsm-error")),
                    M::Established => expect_notif = Some((c, if good || variant == "bad-as" { 5 } else { 52 }, vec![5, 3], "open-in-established-not-fsm-error")),
                    M::Idle => {}
                }
            }
            "ka" | "upd" | "rr" if sides[c].spk.conn.is_some() => {
                let state = sides[c].model;
                match tag.as_str() {
                    "ka" => {
                        sides[c].spk.send(&bgp::Message::Keepalive);
                    }
                    "upd" => {
                        sides[c].spk.send(&bgp::Message::eor(Family::IPV4));
                    }
                    _ => {
                        sides[c].spk.send(&bgp::Message::RouteRefresh { family: Family::IPV4 });
                    }
                }
                out.hit(&format!("op.{}", tag));
                match (state, tag.as_str()) {
                    (M::OpenConfirm, "ka") => sides[c].model = M::Established,
                    (M::Established, _) => {}
                    (M::OpenSent, _) => expect_notif = Some((c, 5, vec![3, 1], "message-in-opensent-not-fsm-error")),
                    (M::OpenConfirm, _) => expect_notif = Some((c, 5, vec![4, 2], "message-in-openconfirm-not-fsm-error")),
                    _ => {}
                }
            }
            "notif" if sides[c].spk.conn.is_some() => {
                sides[c].spk.send(&bgp::Message::Notification(packet::Notification::CeaseAdministrativeReset));
                if sides[c].model != M::Idle {
                    expect_silent_close = Some(c);
                }
                out.hit("op.notification");
            }
            "badlen" if sides[c].spk.conn.is_some() => {
                let mut b = vec![0xffu8; 16];
                b.extend_from_slice(&[0, 5, 4]);
                sides[c].spk.send_raw(&b);
                if sides[c].model != M::Idle {
                    expect_notif = Some((c, 1, vec![2], "bad-length-not-refused"));
                }
                out.hit("op.bad-length-frame");
            }
            "fin" | "rst" if sides[c].spk.conn.is_some() => {
                if tag == "fin" {
                    sides[c].spk.close();
                } else {
                    sides[c].spk.rst();
                }
                sides[c].model = M::Idle;
                out.hit(&format!("fault.{}", tag));
            }
            "wait" => {
                tokio::time::sleep(Duration::from_millis(op.at(1).as_u64())).await;
            }
            "shutdown" => {
                let _ = w.grpc.shutdown_peer(tonic::Request::new(api::ShutdownPeerRequest { address: peer_addr.to_string(), ..Default::default() })).await;
                for s in sides.iter_mut() {
                    if s.model != M::Idle {
                        s.model = M::Idle;
                    }
                }
                out.hit("op.operator-shutdown");
            }
            "update" => {
                // UpdatePeer with a setting that needs a new session (eBGP multihop on / off): every
                // connection is ended with Cease, the neighbour gets a fresh arbiter, and whatever the
                // old session tasks do while they wind down must not disturb connections made afterwards
                multihop = !multihop;
                updated = true;
                let peer = api::Peer {
                    conf: Some(api::PeerConf { neighbor_address: peer_addr.to_string(), peer_asn: PEER_AS, ..Default::default() }),
                    timers: Some(api::Timers { config: Some(api::TimersConfig { connect_retry: 3, ..Default::default() }), state: None }),
                    ebgp_multihop: if multihop { Some(api::EbgpMultihop { enabled: true, multihop_ttl: 5 }) } else { None },
                    ..Default::default()
                };
                let _ = w.grpc.update_peer(tonic::Request::new(api::UpdatePeerRequest { peer: Some(peer), do_soft_reset_in: false })).await;
                for s in sides.iter_mut() {
                    if s.model != M::Idle {
                        s.model = M::Idle;
                    }
                }
                out.hit("op.operator-update-peer(needs-new-session)");
            }
            "burst" => {
                // raw inputs back to back: no model prediction, invariants only (checked after the settle below)
                for sub in op.at(1).arr() {
                    let c = sub.at(1).as_usize() % 2;
                    match sub.at(0).as_str() {
                        "conn" => {
                            if sides[1].spk.conn.is_none() || sides[1].spk.state == SpkState::Closed {
                                if sides[1].spk.conn.is_some() {
                                    sides[1].spk.close();
                                }
                                sides[1].spk.connect(&w, &PipeOpts::default(), &PipeOpts::default());
                            } else {
                                // a further connection in the same direction while one is live
                                let mut sp = mk();
                                sp.connect(&w, &PipeOpts::default(), &PipeOpts::default());
                                burst_extra.push(sp);
                            }
                        }
                        "open" if sides[c].spk.conn.is_some() => {
                            sides[c].spk.send_open();
                        }
                        "ka" if sides[c].spk.conn.is_some() => {
                            sides[c].spk.send_keepalive();
                        }
                        "fin" if sides[c].spk.conn.is_some() => {
                            sides[c].spk.close();
                        }
                        _ => {}
                    }
                }
                burst = true;
                out.hit("op.burst(no-quiescence-between-inputs)");
            }
            "recover" => {
                // faults stop: let the peer behave and require Established within a bound
                for s in sides.iter_mut() {
                    if s.spk.conn.is_some() {
                        s.spk.close();
                        s.model = M::Idle;
                    }
                }
                if listener.is_none() {
                    listener = Some(net::listen(listen_addr));
                }
                let mut ok = false;
                for round in 0..120 {
                    tokio::time::sleep(Duration::from_millis(500)).await;
                    w.quiesce().await;
                    // After an UpdatePeer that found no session to end, the daemon does not dial again
                    // (observed, see DESIGN.md; the statement only asks that the slot be free for a new
                    // attempt): the peer makes that attempt itself after 10 s.
                    if round == 20 && updated && sides[0].spk.conn.is_none() && sides[1].spk.conn.is_none() {
                        sides[1].spk = mk();
                        sides[1].spk.auto_open = true;
                        sides[1].spk.auto_ka = true;
                        sides[1].spk.connect(&w, &PipeOpts::default(), &PipeOpts::default());
                        out.hit("probe.daemon-did-not-dial-after-update-peer");
                    }
                    if sides[1].spk.conn.is_some() {
                        let now = net::now_ms();
                        sides[1].spk.process_inbox(now);
                    }
                    if let Some(l) = &mut listener {
                        while let Ok(s) = l.try_recv() {
                            if sides[0].spk.conn.is_none() {
                                sides[0].spk.attach(s);
                                sides[0].spk.auto_open = true;
                                sides[0].spk.auto_ka = true;
                            }
                        }
                    }
                    let now = net::now_ms();
                    sides[0].spk.process_inbox(now);
                    if sides[0].spk.conn.is_some() && sides[0].spk.state == SpkState::Closed {
                        sides[0].spk.close();
                    }
                    if let Some((a, p)) = w.peer_fsm_states(peer_addr).await {
                        if a == FState::Established || p == FState::Established {
                            ok = true;
                            break;
                        }
                    }
                }
                if !ok {
                    let st = w.peer_fsm_states(peer_addr).await;
                    fail!("liveness/not-established-after-faults-stop", "after 60 virtual seconds of a well-behaved peer the session is not Established (fsm {:?})", st);
                }
                out.hit("probe.recovered-to-established");
                continue;
            }
            _ => {}
        }

        // ---- settle: the DUT may open active connections at any time ------------------------------
        // What happened to the connection each side held when the op was issued:
        let mut closed_prev = [false, false];
        let mut last_notif: [Option<(u8, u8)>; 2] = [None, None];
        let mut extras: Vec<Speaker> = Vec::new();
        for _ in 0..6 {
            w.quiesce().await;
            let now = net::now_ms();
            for (k, s) in sides.iter_mut().enumerate() {
                s.spk.process_inbox(now);
                if s.spk.conn.is_some() && s.spk.state == SpkState::Closed && !closed_prev[k] {
                    closed_prev[k] = true;
                    last_notif[k] = s.spk.notifications.last().map(|n| (n.notification_code(), n.notification_subcode()));
                }
            }
            if let Some(l) = &mut listener {
                while let Ok(st) = l.try_recv() {
                    out.hit("probe.dut-active-connection-arrived");
                    let mut sp = mk();
                    if net::trace_on() {
                        eprintln!("[trace] DUT-initiated connection {} arrived (side 0 has {:?})", st.conn_id(), sides[0].spk.conn.as_ref().map(|c| (c.conn_id(), sides[0].spk.state)));
                    }
                    sp.attach(st);
                    if sides[0].spk.conn.is_none() || sides[0].spk.state == SpkState::Closed {
                        if sides[0].spk.conn.is_some() {
                            sides[0].spk.close();
                        }
                        sides[0].spk = sp;
                        sides[0].open_sent = false;
                        sides[0].model = M::OpenSent;
                        if closed_prev[0] {
                            // the old connection was torn down and replaced within this settle phase
                            closed_prev[0] = true;
                        }
                    } else {
                        extras.push(sp);
                    }
                }
            }
            for e in extras.iter_mut() {
                e.process_inbox(now);
            }
        }
        // a surplus connection in the same direction must have been dropped by the DUT before any OPEN
        for e in &extras {
            if net::trace_on() {
                eprintln!("[trace] surplus connection {:?}: state {:?} open {:?} peer_closed {:?}", e.conn.as_ref().map(|c| c.conn_id()), e.state, e.dut_open.is_some(), e.conn.as_ref().map(|c| c.ctl().peer_closed()));
            }
            if e.state != SpkState::Closed || e.dut_open.is_some() {
                fail!("admission/second-connection-in-same-direction-served", "op {} {}: the DUT keeps two active connections to the peer (OPEN sent on the surplus one: {})", opi, op.to_compact(), e.dut_open.is_some());
            } else {
                out.hit("probe.surplus-active-connection-dropped-before-open");
            }
        }
        if sides[0].spk.conn.is_some() && sides[1].spk.conn.is_some() {
            both_seen = true;
        }

        // expected NOTIFICATION / close (for the connection that existed when the op was issued)
        if let Some((k, code, subs, what)) = expect_notif {
            let got = last_notif[k];
            let closed = closed_prev[k];
            match got {
                Some((gc, gs)) if ((gc == code && subs.contains(&gs)) || (code == 52 && (gc == 2 || (gc == 5 && subs.contains(&gs))))) && closed => {
                    out.hit(&format!("probe.refused-with-notification-{}", gc));
                }
                _ => {
                    fail!(format!("notification/{}", what), "op {} {}: connection {} expected NOTIFICATION ({}, {:?}) and close, got {:?}, closed={}", opi, op.to_compact(), role_name(k), code, subs, got, closed);
                }
            }
            if sides[k].spk.state == SpkState::Closed || sides[k].spk.conn.is_none() {
                sides[k].model = M::Idle;
            }
        }
        if let Some(k) = expect_silent_close {
            if !closed_prev[k] {
                fail!("teardown/notification-received-but-connection-kept", "op {}: connection {}", opi, role_name(k));
            }
            if sides[k].spk.state == SpkState::Closed || sides[k].spk.conn.is_none() {
                sides[k].model = M::Idle;
            }
        }
        // connections the DUT closed: free our side too
        for (k, s) in sides.iter_mut().enumerate() {
            if s.spk.conn.is_some() && s.spk.state == SpkState::Closed {
                if s.model != M::Idle && !(k == 1 && shutdown) && !burst {
                    let last = s.spk.notifications.last().map(|n| (n.notification_code(), n.notification_subcode()));
                    // the DUT ended a connection the reference FSM keeps
                    let v = Violation::new("C07/teardown/unexpected-close", format!("op {} {}: DUT closed the {} connection in model state {:?} (last notification {:?})", opi, op.to_compact(), role_name(k), s.model, last));
                    if out.violate(&tol, v) {
                        out.vtime_ms = net::now_ms();
                        return out;
                    }
                }
                s.spk.close();
                s.model = M::Idle;
            }
        }
        if tag == "shutdown" {
            shutdown = false; // shutdown_peer is a one-shot teardown, the peer stays enabled
        }

        // ---- compare with the arbiter ---------------------------------------------------------------
        let Some((a, p)) = w.peer_fsm_states(peer_addr).await else {
            continue;
        };
        let real = [m_of(a), m_of(p)];
        if burst || !burst_extra.is_empty() {
            // no prediction after a burst: adopt the arbiter's view, but every connection the DUT still
            // serves must own an FSM slot, and surplus same-direction connections must be gone
            let now = net::now_ms();
            for e in burst_extra.iter_mut() {
                e.process_inbox(now);
            }
            let live_extra = burst_extra.iter().filter(|e| e.state != SpkState::Closed).count();
            for k in 0..2 {
                let live = sides[k].spk.conn.is_some() && sides[k].spk.state != SpkState::Closed;
                let n_live = live as usize + if k == 1 { live_extra } else { 0 };
                if n_live > 0 && real[k] == M::Idle {
                    fail!(format!("slot/live-connection-without-fsm-slot/{}", role_name(k)), "op {} {}: {} connection(s) to the peer are still open in the {} direction but the arbiter's slot is Idle: their input is ignored from now on", opi, op.to_compact(), n_live, role_name(k));
                }
                if n_live > 1 {
                    fail!(format!("admission/two-live-connections-same-direction/{}", role_name(k)), "op {} {}: {} connections open in the {} direction", opi, op.to_compact(), n_live, role_name(k));
                }
                sides[k].model = real[k];
            }
            // keep at most the live surplus connection as the side's connection
            if sides[1].spk.conn.is_none() || sides[1].spk.state == SpkState::Closed {
                if let Some(i) = burst_extra.iter().position(|e| e.state != SpkState::Closed) {
                    let e = burst_extra.remove(i);
                    sides[1].spk = e;
                }
            }
            for mut e in burst_extra.drain(..) {
                e.close();
            }
            w.quiesce().await;
            if let Some((a, p)) = w.peer_fsm_states(peer_addr).await {
                sides[0].model = m_of(a);
                sides[1].model = m_of(p);
            }
            continue;
        }
        if prop == "C18" {
            if let Some(k) = (0..2).find(|k| real[*k] == M::Established && sides[*k].spk.conn.is_some() && sides[*k].spk.state != SpkState::Closed) {
                // the neighbour announces a prefix on its established connection, then a client subscribes
                let net0 = packet::PathNlri { path_id: 0, nlri: packet::Nlri::V4(bgp::Ipv4Net { addr: Ipv4Addr::new(10, 7, 0, 0), mask: 24 }) };
                let attrs = vec![packet::Attribute::new_with_value(packet::Attribute::ORIGIN, 0).unwrap(), packet::Attribute::new_with_bin(packet::Attribute::AS_PATH, { let mut b = vec![2u8, 1]; b.extend_from_slice(&PEER_AS.to_be_bytes()); b }).unwrap()];
                sides[k].spk.announce(Family::IPV4, vec![net0], Some(bgp::Nexthop::V4(Ipv4Addr::new(192, 0, 2, 1))), attrs);
                for _ in 0..3 {
                    w.quiesce().await;
                }
                let in_rib: usize = w.tables.collect_paths(table::TableQuery::AdjIn(peer_addr), Family::IPV4, vec![], true).iter().map(|d| d.paths.len()).sum();
                use api::watch_event_request::table::{filter::Type as FT, Filter};
                let req = api::WatchEventRequest {
                    peer: Some(api::watch_event_request::Peer {}),
                    table: Some(api::watch_event_request::Table { filters: vec![Filter { r#type: FT::Adjin as i32, init: true, peer_address: String::new(), peer_group: String::new() }] }),
                    batch_size: 0,
                };
                if let Ok(r) = w.grpc.watch_event(tonic::Request::new(req)).await {
                    use futures::{FutureExt, StreamExt};
                    let mut st = r.into_inner();
                    let (mut told_up, mut routes) = (false, 0usize);
                    for _ in 0..4 {
                        w.quiesce().await;
                        while let Some(Some(Ok(ev))) = st.next().now_or_never() {
                            match ev.event {
                                Some(api::watch_event_response::Event::Peer(pe)) => {
                                    if let Some(p) = pe.peer {
                                        let est = p.state.as_ref().map(|s| s.session_state == api::peer_state::SessionState::Established as i32).unwrap_or(false);
                                        if p.conf.as_ref().map(|c| c.neighbor_address == peer_addr.to_string()).unwrap_or(false) {
                                            told_up = est;
                                        }
                                    }
                                }
                                Some(api::watch_event_response::Event::Table(te)) => routes += te.paths.iter().filter(|p| !p.is_withdraw).count(),
                                None => {}
                            }
                        }
                    }
                    out.hit("probe.client-subscribed-while-established");
                    if both_seen {
                        subscribed_after_both = true;
                    }
                    if in_rib > 0 && (!told_up || routes < in_rib) {
                        let v = Violation::new(
                            if told_up { "C18/watch/content/route-missing-from-snapshot" } else { "C18/watch/established-neighbour-missing-from-initial-peer-list" },
                            format!("op {} {}: the neighbour's {} connection is Established and the RIB holds {} path(s) of it; a client that subscribes now is told up={} and sent {} path(s) (arbiter: active {:?} passive {:?})", opi, op.to_compact(), role_name(k), in_rib, told_up, routes, a, p),
                        );
                        if out.violate(&tol, v) {
                            out.vtime_ms = net::now_ms();
                            out.nontrivial = subscribed_after_both;
                            return out;
                        }
                    }
                }
            }
        }
        let live = real.iter().filter(|s| matches!(s, M::OpenConfirm | M::Established)).count();
        if live > 1 {
            fail!("collision/two-connections-in-openconfirm-or-established", "op {} {}: active {:?} passive {:?}", opi, op.to_compact(), a, p);
        }
        for k in 0..2 {
            if real[k] != sides[k].model {
                let class = match (sides[k].model, real[k]) {
                    (M::Idle, _) => "slot/not-freed-after-teardown",
                    (_, M::Established) => "established-without-valid-open-exchange",
                    (_, M::Idle) => "slot/connection-has-no-fsm-slot",
                    _ => "state-differs-from-reference",
                };
                fail!(format!("{}/{}", class, role_name(k)), "op {} {}: {} connection: reference {:?}, arbiter {:?} (other side reference {:?}, arbiter {:?})", opi, op.to_compact(), role_name(k), sides[k].model, real[k], sides[1 - k].model, real[1 - k]);
                sides[k].model = real[k];
            }
        }
    }
    out.count("probe.collisions", collisions);
    out.nontrivial = if prop == "C18" { subscribed_after_both } else { both_seen || collisions > 0 };
    out.vtime_ms = net::now_ms();
    out
}

// ---------------------------------------------------------------------------------------------
// Second scenario: hold-timer expiry in every state frees the slot.
// The main scenario runs with hold time 0 so that its reference FSM needs no clock; here the peer
// negotiates a non-zero hold time, stops talking in OpenSent, OpenConfirm or Established, and the
// clock runs past the timer that is in force (RFC 4271: a large value before the OPEN exchange,
// the negotiated one after it).  The connection must be torn down with Hold Timer Expired, the
// role's slot must be Idle again, and a well-behaved connection afterwards must get Established.

pub(crate) struct SilenceInEveryState;

impl Check for SilenceInEveryState {
    fn property(&self) -> &'static str {
        "C07"
    }
    fn tier(&self) -> &'static str {
        "D"
    }
    fn name(&self) -> &'static str {
        "silence-in-every-state"
    }
    fn weight(&self) -> u32 {
        1
    }

    fn generate(&self, seed: u64, _thorough: bool) -> Json {
        let mut rng = Rng::new(seed);
        let n = rng.range(1, 4);
        let mut ops = Vec::new();
        for _ in 0..n {
            // role 0 = the DUT connects (active), 1 = the peer connects (passive); stop state 0 OpenSent, 1 OpenConfirm, 2 Established
            ops.push(jarr!["silent", rng.below(2), rng.below(3), *rng.pick(&[0u64, 0, 500, 2000])]);
            if rng.chance(1, 2) {
                ops.push(jarr!["good", rng.below(2)]);
            }
        }
        ops.push(jarr!["good", rng.below(2)]);
        jobj! {"dut_hold" => *rng.pick(&[9u64, 30, 90]), "peer_hold" => *rng.pick(&[9u64, 12, 90]), "remote_higher" => rng.coin(), "sub" => rng.next_u64() >> 1, "ops" => Json::Arr(ops)}
    }

    fn execute(&self, case: &Json, tol: &Tolerate) -> Outcome {
        let case = case.clone();
        let tol = tol.clone();
        let mut out = run_sim(case.i("sub", 1) as u64, move || run_silence(case, tol));
        fix_task_panic(&mut out, "C07");
        out
    }

    fn info(&self) -> CheckInfo {
        CheckInfo {
            rule: "one neighbour with a non-zero hold time on both sides; per op a connection in one role (DUT-initiated or peer-initiated) is taken to OpenSent, OpenConfirm or Established and the peer then says nothing while the clock runs past the timer in force (240 s before the OPEN exchange, min(local, remote) after it); afterwards a well-behaved connection is made. Oracle: the silent connection is closed by the DUT with NOTIFICATION Hold Timer Expired (not before the timer, not later than 2 s after it), the role's FSM is Idle again, and the next well-behaved connection reaches Established within 60 virtual seconds. non-trivial = a silent connection was observed to its end".into(),
            components_real: vec!["accept_connection, ConnArbiter, PeerSession::{run,session_loop,run_select,apply_outputs}, apply_disconnect, fsm::Connection::{on_connected,on_open,on_keepalive,on_hold_timer_expired}".into()],
            components_stubbed: vec!["TCP, clock, listener loop, the remote peer".into()],
            assumptions: vec!["the OpenSent hold timer is the daemon's INITIAL_HOLD_SECS (240 s, RFC 4271 suggests 4 minutes)".into()],
            bounds: "<=9 ops, one peer".into(),
        }
    }
}

async fn run_silence(case: Json, tol: Tolerate) -> Outcome {
    let mut out = Outcome::default();
    let peer_addr: IpAddr = "10.0.0.1".parse().unwrap();
    let dut_rid: u32 = u32::from(Ipv4Addr::new(10, 0, 0, 254));
    let rid = if case.get("remote_higher").map(|b| b.as_bool()).unwrap_or(false) { dut_rid + 1 } else { dut_rid - 100 };
    let dut_hold = case.i("dut_hold", 9) as u64;
    let peer_hold = case.i("peer_hold", 9) as u64;
    let negotiated = dut_hold.min(peer_hold);
    let mut cfg = WorldCfg::default();
    let mut ps = PeerSpec::new(peer_addr, PEER_AS);
    ps.holdtime = dut_hold;
    ps.passive = false;
    ps.connect_retry = 3;
    cfg.peers.push(ps);
    let w = World::new(&cfg).await;
    let caps = default_caps(PEER_AS, &[Family::IPV4]);
    let listen_addr = SocketAddr::new(peer_addr, 179);
    let mut seen_end = false;

    macro_rules! fail {
        ($class:expr, $($arg:tt)*) => {{
            let v = Violation::new(format!("C07/{}", $class), format!($($arg)*));
            if out.violate(&tol, v) { out.vtime_ms = net::now_ms(); out.nontrivial = seen_end; return out; }
        }};
    }

    // bring up one connection in the given role and return its speaker (None if the DUT did not connect)
    async fn bring(w: &World, role: usize, listen_addr: SocketAddr, peer_addr: IpAddr, rid: u32, hold: u16, caps: &[packet::Capability]) -> Option<Speaker> {
        let mut s = Speaker::new(peer_addr, PEER_AS, rid, hold, caps.to_vec());
        s.auto_open = false;
        s.auto_ka = false;
        if role == 1 {
            s.connect(w, &PipeOpts::default(), &PipeOpts::default());
            w.quiesce().await;
            return Some(s);
        }
        // let the DUT's active-connect loop in and wait for it (retry timer 3 s)
        let mut l = net::listen(listen_addr);
        let mut got = None;
        for _ in 0..80 {
            w.quiesce().await;
            if let Ok(st) = l.try_recv() {
                got = Some(st);
                break;
            }
            tokio::time::sleep(Duration::from_millis(250)).await;
        }
        net::unlisten(listen_addr);
        let st = got?;
        s.attach(st);
        w.quiesce().await;
        Some(s)
    }

    let ops: Vec<Json> = case.get("ops").map(|o| o.arr().to_vec()).unwrap_or_default();
    for (opi, op) in ops.iter().enumerate() {
        let tag = op.at(0).as_str().to_string();
        let role = op.at(1).as_usize() % 2;
        let Some(mut s) = bring(&w, role, listen_addr, peer_addr, rid, peer_hold as u16, &caps).await else {
            out.hit("probe.dut-did-not-connect");
            continue;
        };
        let t0 = net::now_ms();
        s.process_inbox(t0);
        match tag.as_str() {
            "silent" => {
                let stop = op.at(2).as_u64() % 3;
                let extra = op.at(3).as_u64();
                if stop >= 1 {
                    s.send_open();
                }
                w.quiesce().await;
                s.process_inbox(net::now_ms());
                if stop >= 2 {
                    s.send_keepalive();
                    w.quiesce().await;
                    s.process_inbox(net::now_ms());
                    if !s.keepalive_times.is_empty() {
                        s.state = SpkState::Established;
                    }
                }
                out.hit(["fault.silent-in-opensent", "fault.silent-in-openconfirm", "fault.silent-in-established"][stop as usize]);
                let t_silent = net::now_ms();
                let timer_ms = if stop == 0 { 240_000 } else { negotiated * 1000 };
                // shortly before the timer the connection must still be there
                tokio::time::sleep(Duration::from_millis(timer_ms.saturating_sub(1500))).await;
                w.quiesce().await;
                s.process_inbox(net::now_ms());
                if s.conn.as_ref().is_some_and(|c| c.ctl().peer_closed()) && s.notifications.iter().any(|n| n.notification_code() == 4) {
                    fail!("hold-expiry/too-early", "op {} {}: role {} closed for hold-timer expiry {} ms after the last message, timer in force {} ms", opi, op.to_compact(), role, net::now_ms() - t_silent, timer_ms);
                }
                tokio::time::sleep(Duration::from_millis(1500 + 2000 + extra)).await;
                w.quiesce().await;
                s.process_inbox(net::now_ms());
                let closed = s.conn.as_ref().is_some_and(|c| c.ctl().peer_closed());
                let notified = s.notifications.iter().any(|n| n.notification_code() == 4);
                seen_end = true;
                if !closed {
                    fail!(format!("hold-expiry/connection-not-torn-down/{}", ["opensent", "openconfirm", "established"][stop as usize]), "op {} {}: role {}: {} ms of silence with a {} ms timer in force and the connection is still open (notifications {:?})", opi, op.to_compact(), role, net::now_ms() - t_silent, timer_ms, s.notifications);
                } else if !notified {
                    fail!(format!("hold-expiry/no-hold-timer-expired-notification/{}", ["opensent", "openconfirm", "established"][stop as usize]), "op {} {}: role {}: closed without NOTIFICATION code 4 (got {:?})", opi, op.to_compact(), role, s.notifications);
                }
                s.close();
                w.quiesce().await;
                // the slot is free again
                if let Some((a, p)) = w.peer_fsm_states(peer_addr).await {
                    let st = if role == 0 { a } else { p };
                    if st != crate::fsm::State::Idle {
                        fail!("hold-expiry/slot-not-freed", "op {} {}: role {} FSM is {:?} after the silent connection ended", opi, op.to_compact(), role, st);
                    }
                }
            }
            _ => {
                // a well-behaved connection must get through
                s.auto_open = true;
                s.auto_ka = true;
                s.send_open();
                // the DUT's OPEN may have been read already (before auto_ka was switched on)
                s.send_keepalive();
                if s.dut_open.is_some() {
                    s.state = SpkState::OpenConfirm;
                }
                let mut ok = false;
                for _ in 0..240 {
                    w.quiesce().await;
                    s.process_inbox(net::now_ms());
                    if s.established() {
                        ok = true;
                        break;
                    }
                    if s.conn.as_ref().is_some_and(|c| c.ctl().peer_closed()) {
                        break;
                    }
                    tokio::time::sleep(Duration::from_millis(250)).await;
                }
                out.hit("op.well-behaved-connection");
                if !ok {
                    fail!("liveness/well-behaved-connection-refused-after-expiry", "op {} {}: role {} did not reach Established (state {:?}, notifications {:?}, fsm {:?})", opi, op.to_compact(), role, s.state, s.notifications, w.peer_fsm_states(peer_addr).await);
                }
                s.close();
                w.quiesce().await;
                tokio::time::sleep(Duration::from_millis(500)).await;
            }
        }
    }
    out.nontrivial = seen_end;
    out.vtime_ms = net::now_ms();
    out
}
