//! The device under test: a real `Global` + `TableManager` + `GrpcService`, with the listener /
//! dispatch loop of `Global::serve` replaced by a harness task that calls the same functions.

use super::super::*;
use crate::verif_net as net;
use crate::verif_net::{PipeOpts, TcpStream as SimStream};
use futures::FutureExt;
use vcore::Json;

#[derive(Clone, Debug)]
pub(crate) struct PeerSpec {
    pub addr: IpAddr,
    pub remote_asn: u32,
    pub local_asn: u32, // 0 = global
    pub passive: bool,
    pub admin_down: bool,
    pub holdtime: u64,
    pub connect_retry: u64,
    pub rs_client: bool,
    pub rr_client: bool,
    pub cluster_id: Option<Ipv4Addr>,
    pub families: Vec<(Family, u8)>, // add-path mode bits
    pub send_max: Vec<(Family, usize)>,
    pub prefix_limits: Vec<(Family, u32)>,
    pub gr: Option<(u16, bool, Vec<Family>)>, // restart time, N-bit, families
    pub llgr: Option<Vec<(Family, u32)>>,
}

impl PeerSpec {
    pub(crate) fn new(addr: IpAddr, remote_asn: u32) -> PeerSpec {
        PeerSpec {
            addr,
            remote_asn,
            local_asn: 0,
            passive: true,
            admin_down: false,
            holdtime: 90,
            connect_retry: 3,
            rs_client: false,
            rr_client: false,
            cluster_id: None,
            families: vec![],
            send_max: vec![],
            prefix_limits: vec![],
            gr: None,
            llgr: None,
        }
    }
    pub(crate) fn params(&self) -> PeerParams {
        PeerParams {
            remote_addr: self.addr,
            remote_port: Global::BGP_PORT,
            expected_remote_asn: self.remote_asn,
            local_asn: self.local_asn,
            passive: self.passive,
            rs_client: self.rs_client,
            route_reflector: RouteReflectorConfig { route_reflector_client: self.rr_client, route_reflector_cluster_id: self.cluster_id },
            delete_on_disconnected: false,
            admin_down: self.admin_down,
            state: SessionState::Idle,
            holdtime: self.holdtime,
            connect_retry_time: self.connect_retry,
            multihop_ttl: None,
            ttl_security: None,
            password: None,
            families: self.families.iter().cloned().collect(),
            send_max: self.send_max.iter().cloned().collect(),
            prefix_limits: self.prefix_limits.iter().cloned().collect(),
            graceful_restart: self.gr.as_ref().map(|(t, n, f)| GrPeerConfig { restart_time: *t, notification_enabled: *n, families: f.clone() }),
            llgr: self.llgr.as_ref().map(|f| LlgrPeerConfig { families: f.clone() }),
            bfd_config: None,
            neighbor_interface: None,
            bind_interface: None,
            export_policy: None,
        }
    }
}

#[derive(Clone, Debug)]
pub(crate) struct WorldCfg {
    pub asn: u32,
    pub router_id: Ipv4Addr,
    pub shards: usize,
    pub confed: Option<(u32, Vec<u32>)>,
    pub peers: Vec<PeerSpec>,
    pub kernel: bool,
    /// route-reflector cluster id configured on every neighbour (None: the router id)
    pub cluster_id: Option<Ipv4Addr>,
}

impl Default for WorldCfg {
    fn default() -> Self {
        WorldCfg { asn: 65000, router_id: Ipv4Addr::new(10, 0, 0, 254), shards: 1, confed: None, peers: vec![], kernel: false, cluster_id: None }
    }
}

pub(crate) struct World {
    pub global: GlobalHandle,
    pub tables: TableHandle,
    pub active_tx: mpsc::UnboundedSender<TcpStream>,
    pub passive_tx: mpsc::UnboundedSender<TcpStream>,
    pub kernel_rx: Option<kernel::verif::VerifKernelRx>,
    pub kernel_event_tx: mpsc::UnboundedSender<kernel::KernelEvent>,
    pub grpc: GrpcService,
    pub dut_v4: IpAddr,
    pub dut_v6: IpAddr,
}

pub(crate) fn virtual_now_ms(start: tokio::time::Instant) -> u64 {
    tokio::time::Instant::now().duration_since(start).as_millis() as u64
}

impl World {
    pub(crate) async fn new(cfg: &WorldCfg) -> World {
        let (kernel_event_tx, kernel_event_rx) = mpsc::unbounded_channel::<kernel::KernelEvent>();
        let (bfd_event_tx, bfd_event_rx) = mpsc::unbounded_channel::<crate::bfd::BfdEvent>();
        let global: GlobalHandle = GlobalHandle::new(Global::new(kernel_event_tx.clone(), bfd_event_tx));
        let tables: TableHandle = Arc::new(TableManager::new(cfg.shards.max(1)));
        let (active_tx, active_rx) = mpsc::unbounded_channel::<TcpStream>();
        let (passive_tx, passive_rx) = mpsc::unbounded_channel::<TcpStream>();
        let notify = Arc::new(tokio::sync::Notify::new());
        let grpc = GrpcService::new(notify, active_tx.clone(), global.clone(), tables.clone());

        // StartBgp through the real handler (listen_port -1: no kernel listener is created)
        let req = api::StartBgpRequest {
            global: Some(api::Global {
                asn: cfg.asn,
                router_id: cfg.router_id.to_string(),
                listen_port: -1,
                confederation: cfg.confed.as_ref().map(|(id, members)| api::Confederation { enabled: true, identifier: *id, member_as_list: members.clone() }),
                ..Default::default()
            }),
        };
        grpc.start_bgp(tonic::Request::new(req)).await.expect("start_bgp");

        let mut kernel_rx = None;
        if cfg.kernel {
            let (handle, rx) = kernel::verif::verif_handle();
            tables.kernel_handle.store(Some(Arc::new(handle)));
            kernel_rx = Some(rx);
        }
        {
            let mut g = global.write().await;
            for p in &cfg.peers {
                g.add_peer(p.params(), Some(active_tx.clone())).expect("add_peer");
            }
        }
        tokio::spawn(dispatch(global.clone(), tables.clone(), active_tx.clone(), active_rx, passive_rx, kernel_event_rx, bfd_event_rx));
        let (dut_v4, dut_v6) = net::with_net(|n| (n.dut_v4, n.dut_v6));
        World { global, tables, active_tx, passive_tx, kernel_rx, kernel_event_tx, grpc, dut_v4, dut_v6 }
    }

    /// Wait until nothing in the runtime is runnable at the current virtual instant.
    pub(crate) async fn quiesce(&self) {
        tokio::time::sleep(Duration::from_millis(1)).await;
    }

    /// A remote party connects to the DUT's BGP port: returns the far end; the DUT end goes
    /// through `accept_connection(.., Passive)` exactly as a socket accepted by the listener would.
    pub(crate) fn connect_to_dut(&self, from: IpAddr, opts_to_dut: &PipeOpts, opts_from_dut: &PipeOpts) -> SimStream {
        let port = net::ephemeral_port();
        let dut = if from.is_ipv4() { self.dut_v4 } else { self.dut_v6 };
        let (far, near) = net::pair(SocketAddr::new(from, port), SocketAddr::new(dut, Global::BGP_PORT), opts_to_dut, opts_from_dut);
        let _ = self.passive_tx.send(near);
        far
    }

    pub(crate) async fn peer_fsm_states(&self, addr: IpAddr) -> Option<(crate::fsm::State, crate::fsm::State)> {
        let g = self.global.read().await;
        let p = g.peers.get(&addr)?;
        let ctx = p.context.lock().unwrap();
        let arb = ctx.conn_arbiter.lock().unwrap();
        Some((arb.state(crate::fsm::Role::Active), arb.state(crate::fsm::Role::Passive)))
    }
}

/// The dispatch half of `Global::serve` (same select, same calls), with the kernel listener
/// replaced by a channel of simulated inbound connections.
async fn dispatch(
    global: GlobalHandle,
    tables: TableHandle,
    active_tx: mpsc::UnboundedSender<TcpStream>,
    mut active_rx: mpsc::UnboundedReceiver<TcpStream>,
    mut passive_rx: mpsc::UnboundedReceiver<TcpStream>,
    mut kernel_event_rx: mpsc::UnboundedReceiver<kernel::KernelEvent>,
    mut bfd_event_rx: mpsc::UnboundedReceiver<crate::bfd::BfdEvent>,
) {
    loop {
        futures::select_biased! {
            event = kernel_event_rx.recv().fuse() => {
                match event {
                    Some(kernel::KernelEvent::Route(kernel::KernelRouteEvent::Add(kr))) => {
                        tables.inject_kernel_route(kr);
                    }
                    Some(kernel::KernelEvent::Route(kernel::KernelRouteEvent::Delete(kr))) => {
                        tables.withdraw_kernel_route(kr.dst, kr.prefix_len);
                    }
                    Some(kernel::KernelEvent::NexthopUpdate { addr, reachable }) => {
                        tables.update_nexthop_validity(addr, reachable);
                    }
                    Some(kernel::KernelEvent::Address(addr_event)) => {
                        tables.handle_address_event(addr_event);
                    }
                    None => { futures::future::pending::<()>().await; }
                }
            }
            event = bfd_event_rx.recv().fuse() => {
                if let Some(crate::bfd::BfdEvent::SessionDown { peer_addr }) = event {
                    let mut g = global.write().await;
                    if let Some(peer) = g.peers.get_mut(&peer_addr) {
                        peer.context.lock().unwrap().force_down(CloseReason::Silent, false);
                    }
                }
            }
            stream = passive_rx.recv().fuse() => {
                if let Some(stream) = stream
                    && let Some(h) = accept_connection(&global, &tables, stream, crate::fsm::Role::Passive).await
                {
                    let arb = h.conn_arbiter.clone();
                    let join_handle = tokio::spawn(h.run(global.clone(), active_tx.clone()));
                    arb.lock().unwrap().passive_join_handle = Some(join_handle);
                }
            }
            stream = active_rx.recv().fuse() => {
                if let Some(stream) = stream
                    && let Some(h) = accept_connection(&global, &tables, stream, crate::fsm::Role::Active).await
                {
                    let arb = h.conn_arbiter.clone();
                    let join_handle = tokio::spawn(h.run(global.clone(), active_tx.clone()));
                    arb.lock().unwrap().active_join_handle = Some(join_handle);
                }
            }
        }
    }
}

/// Run one simulation on the calling thread: fresh current-thread runtime, paused clock, seeded
/// `select!` randomness, fresh simulated network.
pub(crate) fn run_sim<F, Fut>(seed: u64, f: F) -> vcore::Outcome
where
    F: FnOnce() -> Fut,
    Fut: std::future::Future<Output = vcore::Outcome>,
{
    net::reset(seed);
    // Scheduling points at the acquisitions of the daemon's global lock (event::verif::GlobalHandle):
    // off in half of the runs, a yield after 10% or 40% of the acquisitions in the others. The rate is
    // a function of the run's own seed, which the case records, so a replay schedules the same way.
    net::set_yield_rate(match (seed >> 3) % 4 {
        0 | 1 => 0,
        2 => 100,
        _ => 400,
    });
    let mut bytes = [0u8; 32];
    bytes[..8].copy_from_slice(&seed.to_le_bytes());
    let rt = tokio::runtime::Builder::new_current_thread()
        .enable_time()
        .start_paused(true)
        .rng_seed(tokio::runtime::RngSeed::from_bytes(&bytes))
        .build()
        .expect("runtime");
    let panics_before = vcore::panic_count();
    let mut out = rt.block_on(f());
    // every task still alive is dropped here, inside the simulated network's lifetime
    drop(rt);
    let (log, sig, events, ok, refused) = net::with_net(|n| (n.log.0, n.sig.0, n.events, n.connects_ok, n.connects_refused));
    out.log_hash ^= log;
    out.signature ^= sig;
    out.steps += events;
    out.count("net.connects-ok", ok);
    out.count("net.connects-refused", refused);
    let yields = net::with_net(|n| n.sched_yields);
    if yields > 0 {
        out.count("sched.yield-after-lock-acquisition", yields);
    }
    // a panic inside a spawned DUT task is caught by tokio: surface it
    if vcore::panic_count() > panics_before && out.violation.is_none() {
        if let Some((loc, msg)) = vcore::take_panic() {
            if vcore::is_harness_location(&loc) {
                out.harness_error = Some(format!("harness panic in task at {}: {}", loc, msg));
            } else {
                out.violation = Some(vcore::Violation::new(format!("{}/panic/{}", "TASK", vcore::panic_site(&loc)), format!("task panicked at {}: {}", loc, msg)));
            }
        }
    }
    // a task that kept reading a socket on which nothing can arrive any more
    if out.violation.is_none() && out.harness_error.is_none() {
        if let Some(what) = net::with_net(|n| n.spin.take()) {
            out.violation = Some(vcore::Violation::new("TASK/livelock/task-keeps-reading-a-dead-socket", what));
            out.nontrivial = true;
        }
    }
    net::teardown();
    out
}

pub(crate) fn jfam(f: Family) -> Json {
    Json::Int(((f.afi() as i64) << 8) | f.safi() as i64)
}

pub(crate) fn fam_from(j: &Json) -> Family {
    let v = j.as_i64();
    Family::new((v >> 8) as u16, (v & 0xff) as u8)
}
