//! Shared topology for route-propagation scenarios: a DUT with source speakers, long-lived
//! observer speakers and, per observer, an identically configured *twin* that connects late.

use super::super::*;
use super::speaker::*;
use super::world::*;
use crate::verif_net::{Frag, PipeOpts};
use std::collections::BTreeMap;
use vcore::{Json, Outcome, Rng};

pub(crate) const DUT_AS: u32 = 65000;
pub(crate) const CONFED_ID: u32 = 64512;
pub(crate) const CONFED_PEER_AS: u32 = 65100;

#[derive(Clone, Copy, Debug, PartialEq, Eq)]
pub(crate) enum Role {
    Ebgp,
    Ibgp,
    RrClient,
    RsClient,
    Confed,
}

impl Role {
    pub(crate) fn from_u(v: u64) -> Role {
        match v {
            0 => Role::Ebgp,
            1 => Role::Ibgp,
            2 => Role::RrClient,
            3 => Role::RsClient,
            _ => Role::Confed,
        }
    }
    pub(crate) fn to_u(self) -> u64 {
        match self {
            Role::Ebgp => 0,
            Role::Ibgp => 1,
            Role::RrClient => 2,
            Role::RsClient => 3,
            Role::Confed => 4,
        }
    }
    pub(crate) fn table_role(self) -> table::PeerRole {
        match self {
            Role::Ebgp => table::PeerRole::Ebgp,
            Role::Ibgp => table::PeerRole::Ibgp,
            Role::RrClient => table::PeerRole::IbgpRrClient,
            Role::RsClient => table::PeerRole::RsClient,
            Role::Confed => table::PeerRole::ConfedEbgp,
        }
    }
    pub(crate) fn name(self) -> &'static str {
        match self {
            Role::Ebgp => "ebgp",
            Role::Ibgp => "ibgp",
            Role::RrClient => "rr-client",
            Role::RsClient => "rs-client",
            Role::Confed => "confed",
        }
    }
}

#[derive(Clone, Debug)]
pub(crate) struct NodeCfg {
    pub role: Role,
    pub addr: IpAddr,
    pub asn: u32,
    pub rid: u32,
    pub send_max: usize,   // DUT -> node add-path (1 = off)
    pub addpath_rx: bool,  // node -> DUT add-path
    pub gr: Option<(u16, bool)>, // restart time, N-bit (both sides)
    pub llgr: Option<u32>,
    pub prefix_limit: Option<u32>,
    pub ext_msg: bool,
}

pub(crate) fn asn_for(role: Role, idx: usize) -> u32 {
    match role {
        Role::Ebgp => 65001 + idx as u32,
        Role::Ibgp | Role::RrClient => DUT_AS,
        Role::RsClient => 65050 + idx as u32,
        Role::Confed => CONFED_PEER_AS,
    }
}

pub(crate) fn node_caps(n: &NodeCfg, families: &[Family]) -> Vec<packet::Capability> {
    let mut caps: Vec<packet::Capability> = families.iter().map(|f| packet::Capability::MultiProtocol(*f)).collect();
    let mut ap = Vec::new();
    for f in families {
        let mut mode = 0u8;
        if n.send_max > 1 {
            mode |= 1; // we receive several paths
        }
        if n.addpath_rx {
            mode |= 2; // we send several paths
        }
        if mode != 0 {
            ap.push((*f, mode));
        }
    }
    if !ap.is_empty() {
        caps.push(packet::Capability::AddPath(ap));
    }
    if let Some((t, nbit)) = n.gr {
        caps.push(packet::Capability::GracefulRestart { flags: if nbit { 0x4 } else { 0 }, restart_time: t, families: families.iter().map(|f| (*f, 0x80)).collect() });
    }
    if let Some(t) = n.llgr {
        caps.push(packet::Capability::LongLivedGracefulRestart(families.iter().map(|f| (*f, 0u8, t)).collect()));
    }
    caps.push(packet::Capability::FourOctetAsNumber(n.asn));
    if n.ext_msg {
        caps.push(packet::Capability::ExtendedMessage);
    }
    caps
}

pub(crate) fn peer_spec(n: &NodeCfg, families: &[Family], hold: u64) -> PeerSpec {
    let mut ps = PeerSpec::new(n.addr, n.asn);
    ps.holdtime = hold;
    ps.rs_client = n.role == Role::RsClient;
    ps.rr_client = n.role == Role::RrClient;
    let mut mode = 0u8;
    if n.addpath_rx {
        mode |= 1;
    }
    if n.send_max > 1 {
        mode |= 2;
    }
    ps.families = families.iter().map(|f| (*f, mode)).collect();
    if n.send_max > 1 {
        ps.send_max = families.iter().map(|f| (*f, n.send_max)).collect();
    }
    if let Some((t, nbit)) = n.gr {
        ps.gr = Some((t, nbit, families.to_vec()));
    }
    if let Some(t) = n.llgr {
        ps.llgr = Some(families.iter().map(|f| (*f, t)).collect());
    }
    if let Some(l) = n.prefix_limit {
        ps.prefix_limits = families.iter().map(|f| (*f, l)).collect();
    }
    ps
}

pub(crate) struct Node {
    pub cfg: NodeCfg,
    pub spk: Speaker,
    pub last_ka_ms: u64,
}

pub(crate) struct Topo {
    pub w: World,
    pub families: Vec<Family>,
    pub hold: u64,
    pub nodes: Vec<Node>,
    pub start: tokio::time::Instant,
}

pub(crate) fn v4_prefix(idx: u64) -> packet::Nlri {
    packet::Nlri::V4(bgp::Ipv4Net { addr: Ipv4Addr::new(10, 1, idx as u8, 0), mask: 24 })
}

pub(crate) fn v6_prefix(idx: u64) -> packet::Nlri {
    packet::Nlri::V6(bgp::Ipv6Net { addr: Ipv6Addr::new(0x2001, 0xdb8, idx as u16, 0, 0, 0, 0, 0), mask: 48 })
}

impl Topo {
    pub(crate) async fn new(wcfg: &WorldCfg, nodes: Vec<NodeCfg>, families: Vec<Family>, hold: u64) -> Topo {
        let mut wcfg = wcfg.clone();
        for n in &nodes {
            let mut ps = peer_spec(n, &families, hold);
            ps.cluster_id = wcfg.cluster_id;
            wcfg.peers.push(ps);
        }
        let w = World::new(&wcfg).await;
        let start = tokio::time::Instant::now();
        let _ = crate::verif_net::now_ms();
        let nodes = nodes
            .into_iter()
            .map(|c| {
                let caps = node_caps(&c, &families);
                let mut spk = Speaker::new(c.addr, c.asn, c.rid, hold as u16, caps);
                spk.is_ebgp_view = false;
                Node { cfg: c, spk, last_ka_ms: 0 }
            })
            .collect();
        Topo { w, families, hold, nodes, start }
    }

    pub(crate) fn now(&self) -> u64 {
        crate::verif_net::now_ms()
    }

    /// Quiesce, let every speaker drain and react, repeat until nothing moves.
    pub(crate) async fn settle(&mut self) -> usize {
        let mut total = 0;
        for _ in 0..64 {
            self.w.quiesce().await;
            let now = self.now();
            let mut n = 0;
            let mut in_flight = false;
            for node in self.nodes.iter_mut() {
                n += node.spk.process_inbox(now);
                if let Some(c) = &node.spk.conn {
                    in_flight |= c.ctl().in_flight();
                }
            }
            total += n;
            if n == 0 && !in_flight {
                break;
            }
            if in_flight {
                tokio::time::sleep(Duration::from_millis(5)).await;
            }
        }
        total
    }

    /// Let virtual time pass; speakers with a live session keep it alive with KEEPALIVEs.
    pub(crate) async fn advance(&mut self, ms: u64) {
        let step = if self.hold == 0 { ms.max(1) } else { (self.hold * 1000 / 3).max(1) };
        let mut left = ms;
        while left > 0 {
            let d = left.min(step);
            tokio::time::sleep(Duration::from_millis(d)).await;
            left -= d;
            let now = self.now();
            if self.hold > 0 {
                for node in self.nodes.iter_mut() {
                    if node.spk.established() && !node.spk.mute && now >= node.last_ka_ms + self.hold * 1000 / 3 {
                        node.spk.send_keepalive();
                        node.last_ka_ms = now;
                    }
                }
            }
            self.settle().await;
        }
    }

    pub(crate) async fn connect(&mut self, i: usize, to_dut: &PipeOpts, from_dut: &PipeOpts) {
        let Topo { w, nodes, .. } = self;
        nodes[i].spk.connect(w, to_dut, from_dut);
        self.settle().await;
        let now = self.now();
        self.nodes[i].last_ka_ms = now;
    }

    /// Canonical view of a mirror: key -> (attributes sorted by code, next hop).
    pub(crate) fn mirror_canon(&self, i: usize) -> BTreeMap<MirrorKey, (Vec<packet::Attribute>, Option<bgp::Nexthop>)> {
        self.nodes[i]
            .spk
            .mirror
            .iter()
            .map(|(k, (a, nh))| {
                let mut a = a.clone();
                a.sort_by_key(|x| x.code());
                (k.clone(), (a, *nh))
            })
            .collect()
    }

    pub(crate) fn collect_speaker_errors(&self, out: &mut Outcome, prop: &str, tol: &vcore::Tolerate) -> bool {
        for n in &self.nodes {
            if let Some(e) = n.spk.framing_errors.first() {
                let v = vcore::Violation::new(format!("{}/wire/malformed-frame-from-dut", prop), format!("speaker {}: {}", n.cfg.addr, e));
                if out.violate(tol, v) {
                    return true;
                }
            }
            if let Some(e) = n.spk.decode_errors.first() {
                let v = vcore::Violation::new(format!("{}/wire/undecodable-frame-from-dut", prop), format!("speaker {}: {}", n.cfg.addr, e));
                if out.violate(tol, v) {
                    return true;
                }
            }
        }
        false
    }
}

pub(crate) fn pipe_opts(rng: &mut Rng, swarm_lat: bool, swarm_frag: bool) -> PipeOpts {
    PipeOpts {
        latency_ms: if swarm_lat { *rng.pick(&[0u64, 0, 1, 5, 20]) } else { 0 },
        jitter_ms: if swarm_lat { *rng.pick(&[0u64, 0, 3]) } else { 0 },
        capacity: *rng.pick(&[1usize << 20, 1 << 20, 4096, 300]),
        frag: if swarm_frag { *rng.pick(&[Frag::Whole, Frag::UpTo(64), Frag::UpTo(7), Frag::Byte]) } else { Frag::Whole },
        seed: rng.next_u64(),
    }
}

pub(crate) fn pipe_opts_to_json(o: &PipeOpts) -> Json {
    let frag = match o.frag {
        Frag::Whole => 0u64,
        Frag::UpTo(n) => n as u64,
        Frag::Byte => 1,
    };
    vcore::jarr![o.latency_ms, o.jitter_ms, o.capacity as u64, frag, o.seed >> 1]
}

pub(crate) fn pipe_opts_from_json(j: &Json) -> PipeOpts {
    if j.arr().is_empty() {
        return PipeOpts::default();
    }
    let frag = match j.at(3).as_u64() {
        0 => Frag::Whole,
        1 => Frag::Byte,
        n => Frag::UpTo(n as usize),
    };
    PipeOpts { latency_ms: j.at(0).as_u64(), jitter_ms: j.at(1).as_u64(), capacity: (j.at(2).as_u64() as usize).max(64), frag, seed: j.at(4).as_u64() }
}
