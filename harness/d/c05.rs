//! C05 — a malformed UPDATE never installs a route; the session resets only if it must.
//! Tier D with the "byzantine peer" fault kind: a scripted speaker on a real session sends valid
//! UPDATEs (to build up older routes) and UPDATEs corrupted in the RFC 7606 ways, in the middle of
//! normal churn; the oracle looks at the RIB, the session and the wire after quiescence and uses
//! its own classification table, not `error_attrs`.

use super::super::*;
use super::c08::fix_task_panic;
use super::speaker::*;
use super::topo::*;
use super::world::*;
use crate::verif_net::PipeOpts;
use std::collections::{BTreeMap, BTreeSet};
use vcore::{jarr, jobj, Check, CheckInfo, Json, Outcome, Rng, Tolerate, Violation};

pub(crate) struct MalformedUpdates;

/// canonical (flags, is optional non-transitive or AS4_*) per attribute code
fn canon(code: u8) -> (u8, bool) {
    match code {
        1 | 2 | 3 | 5 | 6 => (0x40, false),
        4 | 9 | 10 => (0x80, true),
        7 | 8 | 16 | 32 | 23 | 40 => (0xc0, false),
        26 | 29 => (0x80, true),
        17 | 18 => (0xc0, true),
        _ => (0x40, false),
    }
}

#[derive(Clone, Debug)]
struct Tlv {
    flags: u8,
    code: u8,
    val: Vec<u8>,
    /// length written on the wire (None = actual)
    len: Option<usize>,
}

fn encode_attrs(tlvs: &[Tlv]) -> Vec<u8> {
    let mut b = Vec::new();
    for t in tlvs {
        let l = t.len.unwrap_or(t.val.len());
        if t.flags & 0x10 != 0 || l > 255 {
            b.push(t.flags | 0x10);
            b.push(t.code);
            b.extend_from_slice(&(l as u16).to_be_bytes());
        } else {
            b.push(t.flags);
            b.push(t.code);
            b.push(l as u8);
        }
        b.extend_from_slice(&t.val);
    }
    b
}

fn as_path_val(asns: &[u32], two_byte: bool, seg_type: u8) -> Vec<u8> {
    let mut v = vec![seg_type, asns.len() as u8];
    for a in asns {
        if two_byte {
            v.extend_from_slice(&(*a as u16).to_be_bytes());
        } else {
            v.extend_from_slice(&a.to_be_bytes());
        }
    }
    v
}

/// Type-length-value octets for TUNNEL_ENCAP (23), BGP-LS (29) and PREFIX_SID (40): known code
/// points, sizes near the ones the second-stage decoders expect, lengths now and then off by one.
fn tlv_soup(rng: &mut Rng, code: u8) -> Vec<u8> {
    let mut out = Vec::new();
    let inner = |rng: &mut Rng, types: &[u16], tw: usize, lw_of: &dyn Fn(u16) -> usize| -> Vec<u8> {
        let mut b = Vec::new();
        for _ in 0..rng.range(0, 4) {
            let t = if rng.chance(1, 8) { rng.below(300) as u16 } else { *rng.pick(types) };
            let l = if rng.chance(2, 3) { *rng.pick(&[0usize, 1, 2, 3, 4, 6, 7, 8, 16, 18, 21, 22, 24]) } else { rng.below(20) as usize };
            let v: Vec<u8> = (0..l).map(|_| if rng.chance(1, 3) { 0 } else { rng.next_u32() as u8 }).collect();
            let wl = (l as i64 + *rng.pick(&[0i64, 0, 0, 0, 0, -1, 1, 2, 100])).max(0) as usize;
            if tw == 1 {
                b.push(t as u8);
            } else {
                b.extend_from_slice(&t.to_be_bytes());
            }
            if lw_of(t) == 1 {
                b.push(wl.min(255) as u8);
            } else {
                b.extend_from_slice(&(wl.min(65535) as u16).to_be_bytes());
            }
            b.extend(v);
        }
        b
    };
    match code {
        23 => {
            let subs = inner(rng, &[12, 13, 14, 15, 20, 128, 129, 130, 1, 9], 1, &|t| if t >= 128 { 2 } else { 1 });
            out.extend_from_slice(&[0, *rng.pick(&[15u8, 15, 8])]);
            out.extend_from_slice(&(((subs.len() as i64 + *rng.pick(&[0i64, 0, 0, -1, 1])).max(0)) as u16).to_be_bytes());
            out.extend(subs);
        }
        29 => out = inner(rng, &[1024, 1026, 1028, 1029, 1034, 1035, 1036, 1088, 1089, 1090, 1091, 1092, 1095, 1099, 1100, 1114, 1152, 1155, 1158, 1159, 1161, 1170, 1171, 1250, 1252], 2, &|_| 2),
        _ => out = inner(rng, &[1, 3, 5, 6], 1, &|_| 2),
    }
    out
}

fn v4_nlri_bytes(idx: u64) -> Vec<u8> {
    vec![24, 10, 1, idx as u8]
}

fn frame(body: Vec<u8>) -> Vec<u8> {
    let mut f = vec![0xffu8; 16];
    f.extend_from_slice(&((19 + body.len()) as u16).to_be_bytes());
    f.push(2);
    f.extend(body);
    f
}

impl Check for MalformedUpdates {
    fn property(&self) -> &'static str {
        "C05"
    }
    fn tier(&self) -> &'static str {
        "D"
    }
    fn name(&self) -> &'static str {
        "byzantine-peer"
    }

    fn generate(&self, seed: u64, thorough: bool) -> Json {
        let mut rng = Rng::new(seed);
        let role = *rng.pick(&[0u64, 0, 1, 2, 3, 4]);
        let two_byte = rng.chance(1, 4);
        let n = rng.range(2, if thorough { 16 } else { 10 });
        let mut ops = Vec::new();
        for _ in 0..n {
            if rng.chance(1, 3) {
                ops.push(jarr!["good", Json::Arr((0..rng.range(1, 3)).map(|_| Json::from(rng.below(5))).collect())]);
            } else {
                // which attributes are present besides the mandatory ones
                let present: Vec<Json> = [4u64, 5, 6, 7, 8, 9, 10, 16, 17, 18, 32, 23, 26, 29, 40].iter().filter(|c| rng.chance(if **c == 23 || **c == 29 || **c == 40 { 2 } else { 1 }, 3)).map(|c| Json::from(*c)).collect();
                let n_corr = rng.weighted(&[1, 6, 2]);
                let corr: Vec<Json> = (0..n_corr)
                    .map(|_| {
                        let target = *rng.pick(&[1u64, 2, 3, 4, 5, 6, 7, 8, 9, 10, 16, 17, 18, 32, 23, 26, 29, 40]);
                        let mut kind = *rng.pick(&["len+", "len-", "flags-opt", "flags-trans", "value", "dup", "omit", "cut-block", "unknown-wk", "zero-seg"]);
                        if matches!(target, 23 | 29 | 40) && rng.chance(1, 2) {
                            kind = "value";
                        }
                        jarr![target, kind]
                    })
                    .collect();
                let nlri_damage = if rng.chance(1, 8) { *rng.pick(&["plen33", "trunc"]) } else { "" };
                ops.push(jarr![
                    "bad",
                    Json::Arr((0..rng.range(1, 2)).map(|_| Json::from(rng.below(5))).collect()),
                    Json::Arr((0..rng.range(0, 1)).map(|_| Json::from(rng.below(5))).collect()),
                    rng.chance(1, 3),
                    Json::Arr(present),
                    Json::Arr(corr),
                    nlri_damage,
                    // the optional transitive attributes arrive with the Partial bit set, as they do
                    // after a speaker that did not recognise them: legal, and no licence for leniency
                    rng.chance(1, 3)
                ]);
            }
        }
        jobj! {"role" => role, "two_byte" => two_byte, "sub" => rng.next_u64() >> 1, "ops" => Json::Arr(ops)}
    }

    fn execute(&self, case: &Json, tol: &Tolerate) -> Outcome {
        let case = case.clone();
        let tol = tol.clone();
        let mut out = run_sim(case.i("sub", 1) as u64, move || run(case, tol));
        fix_task_panic(&mut out, "C05");
        out
    }

    fn info(&self) -> CheckInfo {
        CheckInfo {
            rule: "one neighbour of role eBGP / iBGP / RR client / RS client / confed-eBGP on a 2- or 4-byte-AS session; valid UPDATEs build up older routes; corrupted UPDATEs (legacy reach + withdrawn routes, optionally MP_REACH IPv6) carry any subset of 15 optional attributes (incl. TUNNEL_ENCAP, AIGP, BGP-LS, PREFIX_SID, which the daemon keeps as opaque octets: only their flags and duplication are corruptible at this level; their content is replaced by type-length-value soups so that what is stored exercises the second-stage decoders when shown) and 0-2 corruptions of one attribute each: length +1 / -1, Optional or Transitive flag flipped, bad value, duplicate, omission, attribute block cut short, unrecognised well-known attribute, zero-count AS_PATH segment; sometimes NLRI damage (prefix length 33, truncated prefix). After quiescence: announced prefixes are absent (treat-as-withdraw also removes the older route) or, only for optional non-transitive / AS4_PATH / AS4_AGGREGATOR, present without the faulty attribute; withdrawn prefixes are gone; the session is still up unless the NLRI could not be parsed, in which case a NOTIFICATION was sent; LOCAL_PREF / ORIGINATOR_ID / CLUSTER_LIST from an external peer are not stored; at every quiescent point the Adj-RIB-In and the global table are listed through the ListPath handler (conversion of every stored attribute to its API form must not panic). non-trivial = at least one corrupted UPDATE reached an Established session".into(),
            components_real: vec!["packet::PeerCodec::{try_parse,parse_message}, Attribute::decode, validate_message/validate_update".into(), "PeerSession::{run_select,rx_msg,rx_update}, TableManager::{insert_route,remove_route}".into()],
            components_stubbed: vec!["TCP, clock, listener loop, the byzantine peer".into()],
            assumptions: vec!["classification of each corruption comes from a table written from the statement (optional non-transitive = MED, ORIGINATOR_ID, CLUSTER_LIST by attribute type, plus AS4_PATH / AS4_AGGREGATOR)".into()],
            bounds: "<=16 UPDATEs per run, 5 IPv4 prefixes + 2 IPv6 prefixes".into(),
        }
    }
}

async fn run(case: Json, tol: Tolerate) -> Outcome {
    let mut out = Outcome::default();
    let role = Role::from_u(case.i("role", 0) as u64);
    let two_byte = case.get("two_byte").map(|b| b.as_bool()).unwrap_or(false);
    let confed = role == Role::Confed;
    let addr: IpAddr = "10.0.1.1".parse().unwrap();
    let asn = match role {
        Role::Ebgp => 65001,
        Role::RsClient => 65050,
        Role::Confed => CONFED_PEER_AS,
        _ => DUT_AS,
    };
    let mut wcfg = WorldCfg::default();
    if confed {
        wcfg.confed = Some((CONFED_ID, vec![DUT_AS, CONFED_PEER_AS]));
    }
    let node = NodeCfg { role, addr, asn, rid: 0x0a00_0101, send_max: 1, addpath_rx: false, gr: None, llgr: None, prefix_limit: None, ext_msg: false };
    let fams = vec![Family::IPV4, Family::IPV6];
    let mut t = Topo::new(&wcfg, vec![node], fams.clone(), 0).await;
    if two_byte {
        t.nodes[0].spk.caps.retain(|c| !matches!(c, packet::Capability::FourOctetAsNumber(_)));
    }
    t.connect(0, &PipeOpts::default(), &PipeOpts::default()).await;
    t.settle().await;
    if !t.nodes[0].spk.established() {
        out.harness_error = Some("session did not establish".into());
        return out;
    }
    let external = matches!(role, Role::Ebgp | Role::RsClient);
    let mut bad_sent = 0u64;
    let mut sig = vcore::LogHash::default();
    sig.add_u64(role.to_u() * 2 + two_byte as u64);

    macro_rules! fail {
        ($class:expr, $($arg:tt)*) => {{
            let v = Violation::new(format!("C05/{}", $class), format!($($arg)*));
            if out.violate(&tol, v) { out.vtime_ms = t.now(); out.nontrivial = bad_sent > 0; return out; }
        }};
    }

    let base_attrs = |two_byte: bool| -> Vec<Tlv> {
        let path: Vec<u32> = if external { vec![asn, 64600] } else { vec![64600] };
        vec![
            Tlv { flags: 0x40, code: 1, val: vec![0], len: None },
            Tlv { flags: 0x40, code: 2, val: as_path_val(&path, two_byte, if confed { 3 } else { 2 }), len: None },
            Tlv { flags: 0x40, code: 3, val: vec![192, 0, 2, 1], len: None },
        ]
    };
    let optional_attr = |code: u8| -> Tlv {
        let (flags, _) = canon(code);
        let val = match code {
            4 => vec![0, 0, 0, 10],
            5 => vec![0, 0, 0, 200],
            6 => vec![],
            7 => {
                if two_byte {
                    vec![0xfd, 0xe8, 10, 0, 0, 1]
                } else {
                    vec![0, 0, 0xfd, 0xe8, 10, 0, 0, 1]
                }
            }
            8 => vec![0xfd, 0xe8, 0, 1],
            9 => vec![1, 1, 1, 1],
            10 => vec![9, 9, 9, 9],
            16 => vec![0, 2, 0xfd, 0xe8, 0, 0, 0, 1],
            17 => as_path_val(&[4_200_000_000], false, 2),
            18 => vec![0xfa, 0x56, 0xea, 0x00, 10, 0, 0, 1],
            32 => vec![0, 0, 0xfd, 0xe8, 0, 0, 0, 1, 0, 0, 0, 2],
            // TUNNEL_ENCAP: SR policy (15) with a preference sub-TLV and a segment list holding one type-A segment
            23 => vec![0, 15, 0, 21, 12, 6, 0, 0, 0, 0, 0, 100, 128, 0, 10, 0, 9, 4, 0, 0, 0x18, 0x6a, 0x00, 1, 6, 0],
            // AIGP TLV (RFC 7311)
            26 => vec![1, 0, 11, 0, 0, 0, 0, 0, 0, 0, 100],
            // BGP-LS attribute: node name TLV 1026
            29 => vec![0x04, 0x02, 0, 2, b'r', b'1'],
            // PREFIX_SID: label-index TLV
            40 => vec![1, 0, 7, 0, 0, 0, 0, 0, 0, 5],
            _ => vec![],
        };
        Tlv { flags, code, val, len: None }
    };

    let ops: Vec<Json> = case.get("ops").map(|o| o.arr().to_vec()).unwrap_or_default();
    for (opi, op) in ops.iter().enumerate() {
        if !t.nodes[0].spk.established() {
            break;
        }
        let tag = op.at(0).as_str();
        if tag == "good" {
            let mut body = vec![0, 0];
            let attrs = encode_attrs(&base_attrs(two_byte));
            body.extend_from_slice(&(attrs.len() as u16).to_be_bytes());
            body.extend(attrs);
            for p in op.at(1).arr() {
                body.extend(v4_nlri_bytes(p.as_u64()));
            }
            t.nodes[0].spk.send_raw(&frame(body));
            t.settle().await;
            out.hit("op.valid-update");
            continue;
        }
        // ---- corrupted UPDATE ---------------------------------------------------------------------
        let reach: Vec<u64> = op.at(1).arr().iter().map(|x| x.as_u64()).collect();
        let withdrawn: Vec<u64> = op.at(2).arr().iter().map(|x| x.as_u64()).filter(|w| !reach.contains(w)).collect();
        let with_mp = op.at(3).as_bool();
        let mut tlvs = base_attrs(two_byte);
        for c in op.at(4).arr() {
            let code = c.as_u8();
            if (code == 17 || code == 18) && !two_byte {
                continue; // meaningless between two 4-octet speakers
            }
            tlvs.push(optional_attr(code));
        }
        if with_mp {
            // MP_REACH IPv6 2001:db8:77::/48 next hop 2001:db8::1
            let mut v = vec![0, 2, 1, 16];
            v.extend_from_slice(&[0x20, 0x01, 0x0d, 0xb8, 0, 0, 0, 0, 0, 0, 0, 0, 0, 0, 0, 1]);
            v.push(0);
            v.extend_from_slice(&[48, 0x20, 0x01, 0x0d, 0xb8, 0x00, 0x77]);
            tlvs.push(Tlv { flags: 0x80, code: 14, val: v, len: None });
        }
        if op.arr().len() > 7 && op.at(7).as_bool() {
            for x in tlvs.iter_mut() {
                if x.flags & 0xc0 == 0xc0 {
                    x.flags |= 0x20;
                }
            }
        }
        // what each corruption does and how the statement classifies it
        let mut must_withdraw = false;
        let mut may_discard: BTreeSet<u8> = BTreeSet::new();
        let mut faulty: BTreeMap<u8, Vec<u8>> = BTreeMap::new(); // code -> the faulty value (must not be believed)
        let mut applied = Vec::new();
        let mut cut_block = 0usize;
        let mut seen_corr: BTreeSet<(u8, String)> = BTreeSet::new();
        for c in op.at(5).arr() {
            let (code, kind) = (c.at(0).as_u8(), c.at(1).as_str().to_string());
            // one corruption per attribute (flipping a flag twice would restore it)
            if !seen_corr.insert((code, String::new())) {
                continue;
            }
            let idx = tlvs.iter().position(|x| x.code == code);
            let (_, soft) = canon(code);
            // iBGP-only attributes from an external peer are dropped anyway
            let soft = soft || (external && matches!(code, 5 | 9 | 10));
            let mut hit = true;
            match (kind.as_str(), idx) {
                ("len+", Some(i)) => {
                    tlvs[i].val.push(0xee);
                    // a length that is still valid for the type is no corruption
                    let ok_after = match code {
                        2 | 17 => false,
                        8 | 10 => tlvs[i].val.len() % 4 == 0,
                        16 => tlvs[i].val.len() % 8 == 0,
                        32 => tlvs[i].val.len() % 12 == 0,
                        // kept as opaque octets: one octet more is still a well-formed attribute
                        23 | 26 | 29 | 40 => true,
                        _ => false,
                    };
                    if ok_after {
                        hit = false;
                    }
                }
                ("len-", Some(i)) if !tlvs[i].val.is_empty() => {
                    tlvs[i].val.pop();
                    if matches!(code, 23 | 26 | 29 | 40) {
                        hit = false; // opaque octets, see len+
                    }
                }
                ("flags-opt", Some(i)) => tlvs[i].flags ^= 0x80,
                ("flags-trans", Some(i)) => tlvs[i].flags ^= 0x40,
                ("value", Some(i)) if code == 1 => tlvs[i].val = vec![7],
                ("value", Some(i)) if code == 2 => tlvs[i].val[0] = 9,
                ("value", Some(i)) if matches!(code, 23 | 29 | 40) => {
                    // other octets inside an attribute the UPDATE decoder does not look into: nothing is
                    // malformed at this level, but the route is shown through the second-stage decoders
                    let mut r = Rng::new(case.i("sub", 1) as u64 ^ ((opi as u64) << 8) ^ code as u64);
                    tlvs[i].val = tlv_soup(&mut r, code);
                    hit = false;
                    applied.push(format!("tlv-soup-{}", code));
                }
                ("zero-seg", Some(i)) if code == 2 => {
                    // AS_PATH ending in a segment with no AS numbers
                    tlvs[i].val.extend_from_slice(&[2, 0]);
                    hit = false; // accepted on the wire by RFC 4271's grammar? (RFC 7606 s7.2: zero-length segment is malformed)
                    must_withdraw = true;
                    applied.push("zero-seg".to_string());
                }
                ("dup", Some(i)) if code != 14 && !tlvs[i].val.is_empty() => {
                    let mut d = tlvs[i].clone();
                    if !d.val.is_empty() {
                        let l = d.val.len();
                        d.val[l - 1] ^= 0x55;
                    }
                    faulty.insert(code, d.val.clone());
                    tlvs.push(d);
                    hit = false; // RFC 7606 s3.g: all but the first are discarded: no withdraw required
                    applied.push(format!("dup-{}", code));
                }
                ("omit", Some(i)) if code <= 3 => {
                    tlvs.remove(i);
                    must_withdraw = true;
                    hit = false;
                    applied.push(format!("omit-{}", code));
                }
                ("cut-block", _) => {
                    cut_block = 1 + (code as usize % 3);
                    must_withdraw = true;
                    hit = false;
                    applied.push("cut-block".to_string());
                }
                ("unknown-wk", _) => {
                    tlvs.push(Tlv { flags: 0x40, code: 99, val: vec![1, 2], len: None });
                    must_withdraw = true;
                    hit = false;
                    applied.push("unknown-wk".to_string());
                }
                _ => hit = false,
            }
            if hit {
                applied.push(format!("{}-{}", kind, code));
                if let Some(i) = tlvs.iter().position(|x| x.code == code) {
                    faulty.insert(code, tlvs[i].val.clone());
                }
                if soft {
                    may_discard.insert(code);
                } else {
                    must_withdraw = true;
                }
            }
        }
        let nlri_damage = op.at(6).as_str().to_string();
        let mut body = Vec::new();
        let mut wbytes = Vec::new();
        for w in &withdrawn {
            wbytes.extend(v4_nlri_bytes(*w));
        }
        body.extend_from_slice(&(wbytes.len() as u16).to_be_bytes());
        body.extend(wbytes);
        let attrs = encode_attrs(&tlvs);
        let alen = attrs.len().saturating_sub(cut_block.min(attrs.len().saturating_sub(1)));
        // a cut that falls exactly between two attributes leaves a well-formed (shorter) block
        let mut cut_on_boundary = false;
        if cut_block > 0 {
            let mut acc = 0;
            for t in &tlvs {
                acc += encode_attrs(std::slice::from_ref(t)).len();
                if acc == alen {
                    cut_on_boundary = true;
                }
            }
        }
        body.extend_from_slice(&(alen as u16).to_be_bytes());
        body.extend_from_slice(&attrs[..alen]);
        let mut reset_expected = false;
        for (k, p) in reach.iter().enumerate() {
            let mut nb = v4_nlri_bytes(*p);
            if k == 0 && nlri_damage == "plen33" {
                nb[0] = 33;
                reset_expected = true;
            }
            body.extend(nb);
        }
        if nlri_damage == "trunc" && !reach.is_empty() {
            body.pop();
            reset_expected = true;
        }
        if cut_block > 0 && alen < attrs.len() {
            // the bytes cut off the attribute block are read as NLRI: whether they parse is luck
            reset_expected = false;
        }
        t.nodes[0].spk.send_raw(&frame(body));
        bad_sent += 1;
        t.settle().await;
        out.hit(if applied.is_empty() && nlri_damage.is_empty() { "op.update-without-effective-corruption" } else { "fault.corrupted-update" });
        for a in &applied {
            out.hit(&format!("fault.corruption.{}", a.split('-').next().unwrap_or("x")));
            sig.add_str(a);
        }
        sig.add_str(&nlri_damage);
        sig.add_u64(with_mp as u64);

        // ---- oracle --------------------------------------------------------------------------------
        let up = t.nodes[0].spk.state != SpkState::Closed && t.nodes[0].spk.conn.is_some();
        let notif = t.nodes[0].spk.notifications.last().map(|n| (n.notification_code(), n.notification_subcode()));
        let ambiguous_nlri = cut_block > 0;
        if reset_expected {
            if up {
                // RFC 7606 allows nothing else when the NLRI cannot be parsed
                fail!("reset/unparseable-nlri-did-not-reset-the-session", "op {} {}: session still up", opi, op.to_compact());
            } else if notif.is_none() {
                fail!("reset/session-closed-without-notification", "op {} {}", opi, op.to_compact());
            }
            out.hit("probe.session-reset-for-nlri-damage");
            break;
        }
        if !up && !ambiguous_nlri {
            fail!(format!("reset/session-reset-for-attribute-error/{}", applied.first().cloned().unwrap_or_default()), "op {} {}: corruptions {:?}: the NLRI were intact but the session was closed (notification {:?})", opi, op.to_compact(), applied, notif);
            break;
        }
        if !up {
            break;
        }
        let rib: BTreeMap<String, Vec<packet::Attribute>> = t
            .w
            .tables
            .collect_paths(table::TableQuery::AdjIn(addr), Family::IPV4, vec![], true)
            .into_iter()
            .chain(t.w.tables.collect_paths(table::TableQuery::AdjIn(addr), Family::IPV6, vec![], true))
            .filter_map(|d| d.paths.first().map(|p| (format!("{:?}", d.net), (*p.attr).clone())))
            .collect();
        for w in &withdrawn {
            let k = format!("{:?}", v4_prefix_c05(*w));
            if rib.contains_key(&k) {
                fail!("withdrawal-in-malformed-update-ignored", "op {} {}: {} still in the RIB", opi, op.to_compact(), k);
            }
        }
        let mut keys: Vec<String> = reach.iter().map(|p| format!("{:?}", v4_prefix_c05(*p))).collect();
        if with_mp {
            keys.push(format!("{:?}", packet::Nlri::V6(bgp::Ipv6Net { addr: "2001:db8:77::".parse().unwrap(), mask: 48 })));
        }
        for k in &keys {
            if cut_on_boundary {
                continue; // nothing malformed: the cut-off attribute is simply read as NLRI
            }
            if cut_block > 0 && k.starts_with("V6") {
                continue; // the MP_REACH itself was cut: whether its NLRI can be located is not defined by the scenario
            }
            match rib.get(k) {
                None => {
                    if !must_withdraw && may_discard.is_empty() && applied.iter().all(|a| a.starts_with("dup")) && nlri_damage.is_empty() {
                        fail!("valid-update-not-installed", "op {} {}: {} missing although nothing was wrong (applied {:?})", opi, op.to_compact(), k, applied);
                    }
                    out.hit("probe.announced-prefix-absent-after-malformed-update");
                }
                Some(attrs) => {
                    if must_withdraw {
                        let a0 = applied.iter().find(|a| !a.starts_with("dup") && !a.starts_with("tlv-soup")).cloned().unwrap_or_default();
                        fail!(format!("route-kept-despite-treat-as-withdraw/{}", a0), "op {} {}: {} is in the RIB after corruptions {:?} (role {}, two-byte {})", opi, op.to_compact(), k, applied, role.name(), two_byte);
                    }
                    for (code, val) in &faulty {
                        if let Some(a) = attrs.iter().find(|a| a.code() == *code) {
                            let stored: Vec<u8> = a.binary().cloned().or_else(|| a.value().map(|v| v.to_be_bytes().to_vec())).unwrap_or_default();
                            if &stored == val || (val.len() >= 4 && stored == val[..4].to_vec() && val.len() != stored.len()) {
                                fail!(format!("faulty-attribute-believed/{}", code), "op {} {}: {} stored with attribute {} = {:?}", opi, op.to_compact(), k, code, stored);
                            }
                        }
                    }
                    out.hit("probe.route-kept-with-attribute-discarded");
                }
            }
        }
        // what was installed can be shown: ListPath (Adj-RIB-In and global table) converts every stored
        // attribute to its API form, second-stage TLV decoders included; a panic there is caught by the
        // runner and reported with its site
        for f in [Family::IPV4, Family::IPV6] {
            for (tt, name) in [(api::TableType::AdjIn, addr.to_string()), (api::TableType::Global, String::new())] {
                let req = api::ListPathRequest { table_type: tt as i32, name, family: Some(crate::convert::family_to_api(f)), ..Default::default() };
                if let Ok(r) = t.w.grpc.list_path(tonic::Request::new(req)).await {
                    let mut st = r.into_inner();
                    let mut n = 0u64;
                    while let Ok(Some(Ok(_))) = tokio::time::timeout(Duration::from_millis(20), st.next()).await {
                        n += 1;
                    }
                    if n > 0 {
                        out.hit("probe.list-path-displayed-routes");
                    }
                }
            }
        }
        // iBGP-only attributes from an external peer are dropped, not believed
        if external {
            for (k, attrs) in &rib {
                for code in [packet::Attribute::LOCAL_PREF, packet::Attribute::ORIGINATOR_ID, packet::Attribute::CLUSTER_LIST] {
                    if attrs.iter().any(|a| a.code() == code) {
                        fail!(format!("ibgp-only-attribute-believed-from-external-peer/{}/{}", role.name(), code), "op {} {}: {} stored with attribute {}", opi, op.to_compact(), k, code);
                    }
                }
            }
        }
    }
    out.nontrivial = bad_sent > 0;
    out.vtime_ms = t.now();
    out.signature ^= sig.0;
    out
}

fn v4_prefix_c05(idx: u64) -> packet::Nlri {
    packet::Nlri::V4(bgp::Ipv4Net { addr: Ipv4Addr::new(10, 1, idx as u8, 0), mask: 24 })
}
