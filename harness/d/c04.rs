//! C04 (tier D) — what the daemon puts on the wire is well-framed and decodes, with the peer's
//! negotiated codec, to the routes it holds.
//!
//! The property is a codec property, but the messages "the daemon can build" come out of its send
//! path (PendingTx grouping, `PeerCodec::encode_to` splitting, flush under back-pressure, the
//! initial table dump of a new session), so that path runs for real: a source session loads the RIB
//! with bulks of prefixes that share one attribute set whose encoded size is pushed towards (and
//! past) the frame limit, in seven address families with NLRI of varying size, and 1-3 receivers with
//! different capability sets (two-octet-AS only, extended messages, add-path, many families with
//! GR / LLGR so that the OPEN's capability list is long) take the result over a transport with
//! fragmentation and small windows, reconnecting in between.
//!
//! Oracle at quiescence, per receiver: every frame respects the negotiated maximum and its length
//! fields tile it (`walk_frame`, independent of the codec); the receiver's mirror, decoded with the
//! codec negotiated from its side, holds exactly the prefixes of the RIB (each once), with the stored
//! attributes and next hop up to AS4 reconciliation and LOCAL_PREF defaulting.  A route whose
//! attributes cannot fit the receiver's frame size must be absent, never truncated or oversized.

use super::super::*;
use super::c08::fix_task_panic;
use super::speaker::*;
use super::topo::*;
use super::world::*;
use crate::verif_net::PipeOpts;
use std::collections::{BTreeMap, BTreeSet};
use vcore::{jarr, jobj, Check, CheckInfo, Json, Outcome, Rng, Tolerate, Violation};

pub(crate) struct BulkExport;

const FAMS: [Family; 7] = [Family::IPV4, Family::IPV6, Family::IPV4_MPLS, Family::IPV6_MPLS, Family::IPV4_VPN, Family::IPV6_VPN, Family::L2VPN_EVPN];

fn rd(i: u64) -> packet::rd::RouteDistinguisher {
    match i % 3 {
        0 => packet::rd::RouteDistinguisher::TwoOctetAs { admin: 65000, assigned: 7 },
        1 => packet::rd::RouteDistinguisher::Ipv4 { admin: Ipv4Addr::new(10, 0, 0, 1), assigned: 7 },
        _ => packet::rd::RouteDistinguisher::FourOctetAs { admin: 4_200_000_000, assigned: 7 },
    }
}

fn labels(i: u64) -> packet::mpls::MplsLabelStack {
    packet::mpls::MplsLabelStack::new(vec![packet::mpls::MplsLabel::new(16 + (i as u32 % 1000))])
}

/// NLRI number `i` of a family: distinct for distinct `i` < 65536, with lengths that vary.
fn nlri_of(family: Family, i: u64) -> packet::Nlri {
    let m4 = 24 + (i % 9) as u8;
    let host = ((i * 37) & 0xff) as u32 & (0xffu32 << (32 - m4 as u32)) & 0xff;
    let v4 = bgp::Ipv4Net { addr: Ipv4Addr::new(10, (i >> 8) as u8, i as u8, host as u8), mask: m4 };
    let m6 = 48 + (i % 17) as u8;
    let v6 = bgp::Ipv6Net { addr: Ipv6Addr::new(0x2001, 0xdb8, i as u16, 0, 0, 0, 0, 0), mask: m6 };
    match family {
        f if f == Family::IPV4 => packet::Nlri::V4(v4),
        f if f == Family::IPV6 => packet::Nlri::V6(v6),
        f if f == Family::IPV4_MPLS => packet::Nlri::LabeledV4(packet::labeled::LabeledV4Nlri { labels: labels(i), prefix: v4 }),
        f if f == Family::IPV6_MPLS => packet::Nlri::LabeledV6(packet::labeled::LabeledV6Nlri { labels: labels(i), prefix: v6 }),
        f if f == Family::IPV4_VPN => packet::Nlri::VpnV4(packet::vpn::VpnV4Nlri { labels: labels(i), rd: rd(i), prefix: v4 }),
        f if f == Family::IPV6_VPN => packet::Nlri::VpnV6(packet::vpn::VpnV6Nlri { labels: labels(i), rd: rd(i), prefix: v6 }),
        _ => packet::Nlri::Evpn(match i % 3 {
            0 => packet::evpn::EvpnNlri::MacIpAdvertisement(packet::evpn::MacIpAdvertisement {
                rd: rd(i),
                esi: packet::evpn::Esi::ZERO,
                etag: 0,
                mac: [0, 0, 0x5e, (i >> 16) as u8, (i >> 8) as u8, i as u8],
                ip: if i % 2 == 0 { Some(IpAddr::V4(Ipv4Addr::new(10, 9, (i >> 8) as u8, i as u8))) } else { None },
                label1: 100,
                label2: if i % 5 == 0 { Some(200) } else { None },
            }),
            1 => packet::evpn::EvpnNlri::InclusiveMulticastEthernetTag(packet::evpn::InclusiveMulticastEthernetTag { rd: rd(i), etag: i as u32, originating_router_ip: IpAddr::V4(Ipv4Addr::new(10, 0, 0, 9)) }),
            _ => packet::evpn::EvpnNlri::EthernetIpPrefix(packet::evpn::EthernetIpPrefixRoute { rd: rd(i), esi: packet::evpn::Esi::ZERO, etag: i as u32, ip_prefix: IpAddr::V4(v4.addr), prefix_len: v4.mask, gateway_ip: IpAddr::V4(Ipv4Addr::UNSPECIFIED), label: 300 }),
        }),
    }
}

/// Route identity without the MPLS labels (a withdrawal may carry any label, RFC 8277 2.4).
fn route_key(n: &packet::Nlri) -> String {
    match n {
        packet::Nlri::LabeledV4(l) => format!("L4 {:?}", l.prefix),
        packet::Nlri::LabeledV6(l) => format!("L6 {:?}", l.prefix),
        packet::Nlri::VpnV4(v) => format!("V4 {:?} {:?}", v.rd, v.prefix),
        packet::Nlri::VpnV6(v) => format!("V6 {:?} {:?}", v.rd, v.prefix),
        packet::Nlri::Evpn(packet::evpn::EvpnNlri::MacIpAdvertisement(m)) => format!("E2 {:?} {} {:?} {:?}", m.rd, m.etag, m.mac, m.ip),
        packet::Nlri::Evpn(packet::evpn::EvpnNlri::EthernetIpPrefix(p)) => format!("E5 {:?} {} {:?}/{}", p.rd, p.etag, p.ip_prefix, p.prefix_len),
        other => format!("{:?}", other),
    }
}

fn nexthop_for(family: Family, k: u64) -> bgp::Nexthop {
    if family.afi() == Family::AFI_IP6 {
        bgp::Nexthop::V6(Ipv6Addr::new(0x2001, 0xdb8, 0xffff, 0, 0, 0, 0, 1 + k as u16 % 3))
    } else {
        bgp::Nexthop::V4(Ipv4Addr::new(192, 0, 2, 1 + (k % 3) as u8))
    }
}

/// Attribute set of one bulk, sized by its description.
fn bulk_attrs(spec: &Json) -> Vec<packet::Attribute> {
    let path_len = spec.i("path", 2) as usize;
    let big_as = spec.i("as4", 0) != 0;
    let mut asns: Vec<u32> = vec![65001];
    for k in 0..path_len {
        asns.push(if big_as && k % 3 == 0 { 4_200_000_000 + k as u32 } else { 64600 + (k as u32 % 300) });
    }
    let mut b = Vec::new();
    for chunk in asns.chunks(255) {
        b.push(2u8);
        b.push(chunk.len() as u8);
        for a in chunk {
            b.extend_from_slice(&a.to_be_bytes());
        }
    }
    let mut v = vec![packet::Attribute::new_with_value(packet::Attribute::ORIGIN, spec.i("org", 0) as u32).unwrap(), packet::Attribute::new_with_bin(packet::Attribute::AS_PATH, b).unwrap()];
    if spec.i("med", -1) >= 0 {
        v.push(packet::Attribute::new_with_value(packet::Attribute::MULTI_EXIT_DESC, spec.i("med", 0) as u32).unwrap());
    }
    let tag = spec.i("tag", 0) as u32;
    let ncomm = spec.i("comm", 0) as usize;
    if ncomm > 0 {
        let mut c = Vec::with_capacity(ncomm * 4);
        for k in 0..ncomm {
            c.extend_from_slice(&((tag << 16) | k as u32).to_be_bytes());
        }
        v.push(packet::Attribute::new_with_bin(packet::Attribute::COMMUNITY, c).unwrap());
    }
    let nlarge = spec.i("large", 0) as usize;
    if nlarge > 0 {
        let mut c = Vec::with_capacity(nlarge * 12);
        for k in 0..nlarge {
            c.extend_from_slice(&4_200_000_001u32.to_be_bytes());
            c.extend_from_slice(&tag.to_be_bytes());
            c.extend_from_slice(&(k as u32).to_be_bytes());
        }
        v.push(packet::Attribute::new_with_bin(packet::Attribute::LARGE_COMMUNITY, c).unwrap());
    }
    // a route target so that VPN / EVPN routes look the part
    v.push(packet::Attribute::new_with_bin(packet::Attribute::EXTENDED_COMMUNITY, vec![0, 2, 0xfd, 0xe8, 0, 0, 0, 100]).unwrap());
    v
}

type Canon = Vec<(u8, Vec<u8>)>;

fn canon(attrs: &[packet::Attribute], drop_lp_100: bool) -> Canon {
    let mut v: Canon = attrs
        .iter()
        .filter(|a| !(drop_lp_100 && a.code() == packet::Attribute::LOCAL_PREF && a.value() == Some(100)))
        .map(|a| (a.code(), a.value().map(|x| x.to_be_bytes().to_vec()).or_else(|| a.binary().cloned()).unwrap_or_default()))
        .collect();
    v.sort();
    v
}

fn attr_block_size(c: &Canon) -> usize {
    c.iter().map(|(_, b)| b.len() + if b.len() > 255 { 4 } else { 3 }).sum()
}

impl Check for BulkExport {
    fn property(&self) -> &'static str {
        "C04"
    }
    fn tier(&self) -> &'static str {
        "D"
    }
    fn name(&self) -> &'static str {
        "bulk-export"
    }

    fn generate(&self, seed: u64, thorough: bool) -> Json {
        let mut rng = Rng::new(seed);
        let n_recv = rng.range(1, 3);
        let n_fams = rng.range(1, 3) as usize;
        let mut fams: Vec<u64> = Vec::new();
        while fams.len() < n_fams {
            let f = rng.below(FAMS.len() as u64);
            if !fams.contains(&f) {
                fams.push(f);
            }
        }
        let wide = rng.chance(1, 6); // long capability list in the OPENs of receiver 0
        let recv: Vec<Json> = (0..n_recv)
            .map(|_| {
                let lat = rng.chance(1, 3);
                let frag = rng.chance(1, 2);
                jobj! {"as2" => rng.chance(1, 3), "ext_msg" => rng.chance(1, 2), "send_max" => if rng.chance(1, 4) { 2u64 } else { 1 }, "pipe" => pipe_opts_to_json(&pipe_opts(&mut rng, lat, frag))}
            })
            .collect();
        let n = rng.range(2, if thorough { 14 } else { 8 });
        let mut ops: Vec<Json> = Vec::new();
        let mut next_start = 0u64;
        for k in 0..n {
            match rng.weighted(&[50, 14, 14, 8, 14]) {
                0 => {
                    let fam = *rng.pick(&fams);
                    let count = *rng.pick(&[1u64, 2, 3, 40, 200, 700, 1500]);
                    // attribute block sized on purpose: small, near 4096, just past it, far past it
                    let (comm, large, path) = match rng.below(8) {
                        0 => (0u64, 0u64, rng.range(0, 3)),
                        1 => (rng.range(1, 20), 0, rng.range(0, 3)),
                        2 => (rng.range(900, 1000), 0, rng.range(0, 10)),
                        3 => (rng.range(990, 1012), 0, rng.range(0, 4)),
                        4 => (rng.range(400, 600), rng.range(150, 180), rng.range(0, 30)),
                        5 => (0, 0, rng.range(250, 700)),
                        6 => (rng.range(1013, 1100), 0, 0),
                        _ => (rng.range(2000, 9000), 0, 0),
                    };
                    let spec = jobj! {"path" => path, "as4" => rng.chance(1, 2), "org" => rng.below(3), "med" => if rng.coin() { rng.below(50) as i64 } else { -1i64 }, "comm" => comm, "large" => large, "tag" => k + 1};
                    let start = if rng.chance(1, 4) && next_start > 0 { rng.below(next_start) } else { next_start };
                    next_start = next_start.max(start + count);
                    ops.push(jarr!["bulk", fam, start, count, spec, rng.range(1, 4)]);
                }
                1 => {
                    let fam = *rng.pick(&fams);
                    let start = if next_start > 0 { rng.below(next_start) } else { 0 };
                    ops.push(jarr!["wdbulk", fam, start, *rng.pick(&[1u64, 10, 300, 1500])]);
                }
                2 => ops.push(jarr!["reconnect", rng.below(n_recv)]),
                3 => ops.push(jarr!["resource", 0u64]),
                _ => ops.push(jarr!["wait", *rng.pick(&[50u64, 2000, 31000])]),
            }
        }
        jobj! {"fams" => Json::Arr(fams.into_iter().map(Json::from).collect()), "recv" => Json::Arr(recv), "wide" => wide, "hold" => *rng.pick(&[0u64, 90]), "sub" => rng.next_u64() >> 1, "ops" => Json::Arr(ops)}
    }

    fn execute(&self, case: &Json, tol: &Tolerate) -> Outcome {
        let case = case.clone();
        let tol = tol.clone();
        let mut out = run_sim(case.i("sub", 1) as u64, move || run(case, tol));
        fix_task_panic(&mut out, "C04");
        out
    }

    fn info(&self) -> CheckInfo {
        CheckInfo {
            rule: "one eBGP source loads the RIB with bulks of 1-1500 NLRI sharing one attribute set (AS_PATH up to 700 ASes with 4-octet values, up to 9000 communities, large communities: encoded size from a few bytes to far past the frame limit, with values chosen around 4096) in 1-3 of seven families (IPv4/IPv6 unicast, labeled, VPN, EVPN: NLRI sizes vary per entry), withdraws ranges, and 1-3 route-reflector-client receivers with drawn capability sets (two-octet AS only, extended message, add-path, optionally all negotiable families with GR and LLGR so that the OPEN is long) take the export over a transport with fragmentation and small windows and reconnect in between (initial dump path). At quiescence each receiver's frames are walked (negotiated maximum, length fields) and its mirror, decoded with the codec negotiated from its side, is compared with the RIB. non-trivial = a receiver was compared while the RIB held at least one route; distinct = transport event signature".into(),
            components_real: vec!["PeerCodec::{negotiate, encode_to, try_parse} in both directions, do_encode, mp_reach_encode / mp_unreach_encode, as_path_downgrade_2byte / reconcile_as4, Capability::encode, Open encoding".into(), "PendingTx, flush_tx, process_nlri_change, register_peer initial dump; TableManager, table::Table".into()],
            components_stubbed: vec!["TCP, clock, the peers (their decoder is the repository's, negotiated from their side; their frame walker is the harness's own)".into()],
            assumptions: vec!["receivers are route-reflector clients of an eBGP-learned route: attributes are expected as stored plus LOCAL_PREF 100, next hop unchanged".into(), "a route whose attribute block is within 96 bytes of the receiver's frame limit may be present or absent; clearly above it must be absent, clearly below present".into()],
            bounds: "<=14 ops, <=3 receivers, 7 families, <=1500 NLRI per bulk".into(),
        }
    }
}

async fn run(case: Json, tol: Tolerate) -> Outcome {
    let mut out = Outcome::default();
    let fam_idx: Vec<usize> = case.get("fams").map(|f| f.arr().iter().map(|x| x.as_usize() % FAMS.len()).collect()).unwrap_or_else(|| vec![0]);
    let fams: Vec<Family> = fam_idx.iter().map(|i| FAMS[*i]).collect();
    let rjs: Vec<Json> = case.get("recv").map(|s| s.arr().to_vec()).unwrap_or_default();
    if rjs.is_empty() {
        return out;
    }
    let hold = case.i("hold", 0) as u64;
    let wide = case.get("wide").map(|b| b.as_bool()).unwrap_or(false);
    // node 0 = source, 1.. = receivers
    let mut nodes = vec![NodeCfg { role: Role::Ebgp, addr: IpAddr::V4(Ipv4Addr::new(10, 0, 1, 1)), asn: 65001, rid: 0x0a00_0101, send_max: 1, addpath_rx: false, gr: None, llgr: None, prefix_limit: None, ext_msg: true }];
    for (i, r) in rjs.iter().enumerate() {
        nodes.push(NodeCfg {
            role: Role::RrClient,
            addr: IpAddr::V4(Ipv4Addr::new(10, 0, 1, i as u8 + 2)),
            asn: DUT_AS,
            rid: 0x0a00_0102 + i as u32,
            send_max: r.i("send_max", 1).max(1) as usize,
            addpath_rx: false,
            gr: if wide && i == 0 { Some((120, true)) } else { None },
            llgr: if wide && i == 0 { Some(3600) } else { None },
            prefix_limit: None,
            ext_msg: r.get("ext_msg").map(|b| b.as_bool()).unwrap_or(false),
        });
    }
    let wcfg = WorldCfg::default();
    // "wide": every family the daemon knows is configured on all sessions (with GR and LLGR on
    // receiver 0), which makes the capability list of the OPENs several hundred bytes long
    let all: Vec<Family> = vec![
        Family::IPV4, Family::IPV6, Family::IPV4_MC, Family::IPV6_MC, Family::IPV4_MPLS, Family::IPV6_MPLS, Family::LS, Family::IPV4_MUP, Family::IPV6_MUP, Family::IPV4_VPN,
        Family::IPV6_VPN, Family::IPV4_FLOWSPEC, Family::IPV6_FLOWSPEC, Family::IPV4_FLOWSPEC_VPN, Family::IPV6_FLOWSPEC_VPN, Family::IPV4_SRPOLICY, Family::IPV6_SRPOLICY, Family::L2VPN_EVPN,
    ];
    let topo_fams = if wide { all } else { fams.clone() };
    let mut t = Topo::new(&wcfg, nodes, topo_fams, hold).await;
    // per-receiver capability twists the generic topology does not draw
    for (i, r) in rjs.iter().enumerate() {
        if r.get("as2").map(|b| b.as_bool()).unwrap_or(false) {
            t.nodes[i + 1].spk.caps.retain(|c| !matches!(c, packet::Capability::FourOctetAsNumber(_)));
        }
    }
    for n in t.nodes.iter_mut() {
        n.spk.nlri_key = route_key;
    }
    let pipes: Vec<PipeOpts> = rjs.iter().map(|r| pipe_opts_from_json(r.get("pipe").unwrap_or(&Json::Null))).collect();
    t.connect(0, &PipeOpts::default(), &PipeOpts::default()).await;
    for i in 0..rjs.len() {
        t.connect(i + 1, &PipeOpts::default(), &pipes[i]).await;
    }
    t.settle().await;
    for i in 0..t.nodes.len() {
        if !t.nodes[i].spk.established() {
            out.hit(if i == 0 { "probe.source-session-did-not-establish" } else { "probe.receiver-session-did-not-establish" });
        }
    }
    let mut compared = false;

    macro_rules! fail {
        ($class:expr, $($arg:tt)*) => {{
            let v = Violation::new(format!("C04/{}", $class), format!($($arg)*));
            if out.violate(&tol, v) { out.vtime_ms = t.now(); out.nontrivial = compared; return out; }
        }};
    }

    let ops: Vec<Json> = case.get("ops").map(|o| o.arr().to_vec()).unwrap_or_default();
    for (opi, op) in ops.iter().enumerate() {
        let tag = op.at(0).as_str().to_string();
        match tag.as_str() {
            "bulk" | "wdbulk" => {
                if !t.nodes[0].spk.established() {
                    continue;
                }
                let fam = FAMS[fam_idx[op.at(1).as_usize() % fam_idx.len()] % FAMS.len()];
                let fam = if fams.contains(&fam) { fam } else { fams[0] };
                let (start, count) = (op.at(2).as_u64(), op.at(3).as_u64().min(1500));
                let nets: Vec<packet::PathNlri> = (start..start + count).map(|i| packet::PathNlri { path_id: 0, nlri: nlri_of(fam, i) }).collect();
                if tag == "bulk" {
                    let attrs = bulk_attrs(op.at(4));
                    // the source speaks extended messages, but even 65535 bytes hold only so much
                    for chunk in nets.chunks(400) {
                        t.nodes[0].spk.announce(fam, chunk.to_vec(), Some(nexthop_for(fam, op.at(5).as_u64())), attrs.clone());
                    }
                    out.hit("op.bulk-announce");
                    out.count("op.nlri-announced", count);
                } else {
                    for chunk in nets.chunks(400) {
                        t.nodes[0].spk.withdraw(fam, chunk.to_vec());
                    }
                    out.hit("op.bulk-withdraw");
                }
            }
            "reconnect" => {
                let r = 1 + op.at(1).as_usize() % rjs.len();
                t.nodes[r].spk.close();
                t.settle().await;
                t.connect(r, &PipeOpts::default(), &pipes[r - 1]).await;
                out.hit("fault.receiver-reconnect(initial-dump)");
            }
            "resource" => {
                t.nodes[0].spk.close();
                t.settle().await;
                t.connect(0, &PipeOpts::default(), &PipeOpts::default()).await;
                out.hit("fault.source-reconnect");
            }
            "wait" => t.advance(op.at(1).as_u64()).await,
            _ => continue,
        }
        // bulks over a 300-byte window with latency take a while: wait until nothing has moved for
        // several rounds (virtual time is free)
        let mut idle = 0;
        let mut last_bytes: u64 = t.nodes.iter().map(|x| x.spk.bytes_rx).sum();
        // (an initial dump of 1500 routes whose attributes leave room for one NLRI per frame is 6 MB:
        // 20 000 window-fulls; the per-run wall-clock watchdog bounds a transfer that never ends)
        for _ in 0..400_000 {
            let n = t.settle().await;
            let busy = t.nodes.iter().any(|x| x.spk.conn.as_ref().is_some_and(|c| c.ctl().in_flight()));
            // a frame larger than the window arrives in pieces: bytes moved = not idle
            let bytes: u64 = t.nodes.iter().map(|x| x.spk.bytes_rx).sum();
            let moved = bytes != last_bytes;
            last_bytes = bytes;
            if n == 0 && !busy && !moved {
                idle += 1;
                if idle >= 4 {
                    break;
                }
            } else {
                idle = 0;
            }
            // (the speakers keep their sessions alive meanwhile: a transfer can take longer than the
            // hold time, and a daemon that times silent neighbours out while it is writing is right)
            t.advance(25).await;
        }
        if !t.nodes[0].spk.framing_errors.is_empty() || !t.nodes[0].spk.decode_errors.is_empty() {
            // what the DUT sends to the source is part of the claim as well
        }
        if t.collect_speaker_errors(&mut out, "C04", &tol) {
            out.vtime_ms = t.now();
            out.nontrivial = compared;
            return out;
        }
        if t.nodes[0].spk.state == SpkState::Closed && t.nodes[0].spk.conn.is_some() {
            // the DUT refused something the source sent (e.g. an attribute block too large for it)
            out.hit("probe.source-session-closed-by-dut");
            t.nodes[0].spk.close();
            t.settle().await;
        }

        // ---- per receiver: mirror against the RIB ---------------------------------------------
        for r in 1..t.nodes.len() {
            if !t.nodes[r].spk.established() {
                continue;
            }
            let max_len = t.nodes[r].spk.max_len();
            let as2 = !t.nodes[r].spk.caps.iter().any(|c| matches!(c, packet::Capability::FourOctetAsNumber(_)));
            // expected: every best path of the RIB (single source: no choice involved)
            let mut expected: BTreeMap<(u32, String), (Canon, Option<bgp::Nexthop>, usize)> = BTreeMap::new();
            for f in &fams {
                for c in t.w.tables.collect_loc_rib_paths(*f) {
                    if let Some(best) = c.current_paths.first() {
                        let cn = canon(&best.attr, true);
                        let mut size = attr_block_size(&cn) + 7 + 48;
                        if as2 {
                            // the AS_PATH goes out with two-octet ASNs (about half the size); an AS4_PATH
                            // of the original size is added only when some ASN needs four octets
                            if let Some((_, b)) = cn.iter().find(|(c, _)| *c == packet::Attribute::AS_PATH) {
                                let mut wide = false;
                                let mut i = 0;
                                while i + 2 <= b.len() {
                                    let n = b[i + 1] as usize;
                                    for k in 0..n {
                                        if i + 2 + 4 * k + 2 <= b.len() && (b[i + 2 + 4 * k] != 0 || b[i + 3 + 4 * k] != 0) {
                                            wide = true;
                                        }
                                    }
                                    i += 2 + 4 * n;
                                }
                                size = size.saturating_sub((b.len() / 2).saturating_sub(4));
                                if wide {
                                    size += b.len() + 4;
                                }
                            }
                        }
                        // independent of the codec on both ends: the source announces next hops from two
                        // small ranges only (a codec that mangles a next hop symmetrically would otherwise
                        // agree with itself)
                        let known = match best.nexthop {
                            Some(bgp::Nexthop::V4(a)) => a.octets()[..3] == [192, 0, 2],
                            Some(bgp::Nexthop::V6(a)) => a.segments()[..3] == [0x2001, 0xdb8, 0xffff],
                            Some(bgp::Nexthop::V6LinkLocal(..)) => false,
                            None => true,
                        };
                        if !known {
                            fail!("routes/next-hop-in-rib-is-not-one-the-source-announced", "op {} {}: {:?} has next hop {:?}", opi, op.to_compact(), c.net, best.nexthop);
                        }
                        expected.insert((fam_key(*f), route_key(&c.net)), (cn, best.nexthop, size));
                    }
                }
            }
            if !expected.is_empty() {
                compared = true;
            }
            let mut seen: BTreeSet<(u32, String)> = BTreeSet::new();
            for (mk, (attrs, nh)) in &t.nodes[r].spk.mirror {
                let key = (mk.0, mk.1.clone());
                if !seen.insert(key.clone()) {
                    fail!("routes/prefix-held-twice", "op {} {}: receiver {} holds {} under two path ids", opi, op.to_compact(), r, mk.1);
                }
                let Some((want, want_nh, size)) = expected.get(&key) else {
                    fail!("routes/prefix-not-in-rib", "op {} {}: receiver {} (max {} as2={}) holds {} which the RIB does not", opi, op.to_compact(), r, max_len, as2, mk.1);
                    continue;
                };
                if *size > max_len + 96 {
                    fail!("frame/route-with-oversized-attributes-delivered", "op {} {}: receiver {} (max {} as2={}) holds {} whose attribute block needs about {} bytes (per attribute {:?}); decoded sizes {:?}", opi, op.to_compact(), r, max_len, as2, mk.1, size, want.iter().map(|(c, b)| (*c, b.len())).collect::<Vec<_>>(), canon(attrs, true).iter().map(|(c, b)| (*c, b.len())).collect::<Vec<_>>());
                }
                let mut got = canon(attrs, true);
                // AS4 reconciliation leaves no AS4_PATH behind
                got.retain(|(c, _)| *c != 17 && *c != 18);
                if &got != want {
                    let diff: Vec<u8> = want.iter().filter(|w| !got.contains(w)).map(|w| w.0).chain(got.iter().filter(|g| !want.contains(g)).map(|g| g.0)).collect();
                    let wa = want.iter().find(|(c, _)| *c == 2).map(|(_, b)| b.len());
                    let ga = got.iter().find(|(c, _)| *c == 2).map(|(_, b)| b.len());
                    fail!(format!("routes/attributes-differ/code-{}", diff.first().cloned().unwrap_or(0)), "op {} {}: receiver {} (max {} as2={}) {}: attribute codes that differ {:?} (AS_PATH bytes stored {:?} decoded {:?})", opi, op.to_compact(), r, max_len, as2, mk.1, diff, wa, ga);
                }
                if nh != want_nh {
                    fail!("routes/next-hop-differs", "op {} {}: receiver {} {}: stored {:?} decoded {:?}", opi, op.to_compact(), r, mk.1, want_nh, nh);
                }
            }
            for (key, (_, _, size)) in &expected {
                if !seen.contains(key) && *size + 96 < max_len {
                    fail!("routes/prefix-missing", "op {} {}: receiver {} (max {} as2={} add-path tx={}) lacks {} (attribute block about {} bytes); it holds {} of {} routes", opi, op.to_compact(), r, max_len, as2, t.nodes[r].cfg.send_max > 1, key.1, size, seen.len(), expected.len());
                    break;
                }
                if !seen.contains(key) {
                    out.hit("probe.route-withheld-because-it-cannot-fit");
                }
            }
            out.hit("compare.receiver");
            out.count("compare.routes", seen.len() as u64);
        }
    }
    out.nontrivial = compared;
    out.vtime_ms = t.now();
    for n in &t.nodes {
        out.count("wire.frames-from-dut", n.spk.frames.len() as u64);
    }
    out
}
