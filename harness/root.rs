//! Command line of the whole-daemon simulator (tiers D and P).  Compiled into the `rustybgpd`
//! binary only under `--cfg osrg_rustybgp_verif`; each simulated run builds its own
//! current-thread tokio runtime with a paused (virtual) clock on a worker thread.

pub(crate) fn entry() -> i32 {
    // The caller is inside #[tokio::main]; all simulation work happens on plain std threads.
    let args: Vec<String> = std::env::args().skip(1).collect();
    std::thread::spawn(move || crate::event::verif_main(&args)).join().unwrap_or(2)
}
