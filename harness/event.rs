//! Whole-daemon simulation harness (tier D), compiled as a child module of `daemon::event` under
//! `--cfg osrg_rustybgp_verif`, so that it can build a `Global`, call `accept_connection`, spawn
//! `PeerSession::run` and read `PeerContext` at quiescent points — all real code.
#![allow(dead_code, unused_imports, clippy::too_many_arguments, clippy::type_complexity)]

use super::*;

#[path = "/verif/harness/d/world.rs"]
pub(crate) mod world;
#[path = "/verif/harness/d/speaker.rs"]
pub(crate) mod speaker;
#[path = "/verif/harness/d/c08.rs"]
pub(crate) mod c08;
#[path = "/verif/harness/d/topo.rs"]
pub(crate) mod topo;
#[path = "/verif/harness/d/c01.rs"]
pub(crate) mod c01;
#[path = "/verif/harness/d/c01_rtc.rs"]
pub(crate) mod c01_rtc;
#[path = "/verif/harness/d/c10.rs"]
pub(crate) mod c10;
#[path = "/verif/harness/d/c13.rs"]
pub(crate) mod c13;
#[path = "/verif/harness/d/c07.rs"]
pub(crate) mod c07;
#[path = "/verif/harness/d/c16.rs"]
pub(crate) mod c16;
#[path = "/verif/harness/d/c09.rs"]
pub(crate) mod c09;
#[path = "/verif/harness/d/c05.rs"]
pub(crate) mod c05;
#[path = "/verif/harness/d/c11.rs"]
pub(crate) mod c11;
#[path = "/verif/harness/d/c20.rs"]
pub(crate) mod c20;
#[path = "/verif/harness/d/c20_vrf.rs"]
pub(crate) mod c20_vrf;
#[path = "/verif/harness/d/c15_sessions.rs"]
pub(crate) mod c15_sessions;
#[path = "/verif/harness/d/c18.rs"]
pub(crate) mod c18;
#[path = "/verif/harness/d/c18_watch.rs"]
pub(crate) mod c18_watch;
#[path = "/verif/harness/d/c04.rs"]
pub(crate) mod c04;
#[path = "/verif/harness/d/c19_mrt.rs"]
pub(crate) mod c19_mrt;

#[cfg(osrg_rustybgp_verif_shuttle)]
#[path = "/verif/harness/s/c18s.rs"]
pub(crate) mod c18s;
#[cfg(osrg_rustybgp_verif_shuttle)]
#[path = "/verif/harness/s/c01s.rs"]
pub(crate) mod c01s;
#[cfg(osrg_rustybgp_verif_shuttle)]
#[path = "/verif/harness/s/c20s.rs"]
pub(crate) mod c20s;

use vcore::{BatchPlan, Check};

/// The daemon's global lock in the simulator build: `tokio::sync::RwLock<Global>` behind a wrapper
/// whose `read()` / `write()` are scheduling points. On the single-threaded simulated runtime a task
/// runs from one await to the next without interruption, so two statements that follow a lock
/// acquisition that did not have to wait are atomic - which they are not on the daemon's
/// multi-threaded runtime, where another task may run on another core right after this one got the
/// lock (a second reader next to a reader; anybody not needing the lock next to a writer). When the
/// run's schedule says so (`verif_net::set_yield_rate`, off by default, drawn from the run's own
/// PRNG), the task yields once before asking for the lock and / or once after the acquisition, still
/// holding the guard: every other runnable task gets a turn first. Every execution produced this way is one the real runtime can produce.
#[derive(Clone)]
pub(crate) struct GlobalHandle(Arc<tokio::sync::RwLock<Global>>);

impl GlobalHandle {
    pub(crate) fn new(g: Global) -> GlobalHandle {
        GlobalHandle(Arc::new(tokio::sync::RwLock::new(g)))
    }
    pub(crate) async fn read(&self) -> tokio::sync::RwLockReadGuard<'_, Global> {
        // before asking for the lock: what the task did last and its request for the lock are two steps
        crate::verif_net::sched_point(3).await;
        let g = self.0.read().await;
        crate::verif_net::sched_point(1).await;
        g
    }
    pub(crate) async fn write(&self) -> tokio::sync::RwLockWriteGuard<'_, Global> {
        crate::verif_net::sched_point(4).await;
        let g = self.0.write().await;
        crate::verif_net::sched_point(2).await;
        g
    }
}

/// Guarded replacement of `event::enable_active_connect`: the same retry loop, connecting through
/// the simulated transport instead of a kernel socket.
pub(crate) fn enable_active_connect(peer: &mut Peer, ch: mpsc::UnboundedSender<TcpStream>) {
    if peer.admin_down || peer.config.passive || peer.config.delete_on_disconnected {
        return;
    }
    let sockaddr = SocketAddr::new(peer.config.remote_addr, peer.config.remote_port);
    let retry_time = peer.config.connect_retry_time;
    let (cancel_tx, mut cancel_rx) = tokio::sync::oneshot::channel::<()>();
    let join_handle = tokio::spawn(async move {
        loop {
            tokio::select! {
                result = tokio::time::timeout(
                    tokio::time::Duration::from_secs(5),
                    TcpStream::connect(sockaddr),
                ) => {
                    if let Ok(Ok(stream)) = result {
                        let _ = ch.send(stream);
                        return;
                    }
                }
                _ = &mut cancel_rx => return,
            }
            tokio::select! {
                _ = tokio::time::sleep(tokio::time::Duration::from_secs(retry_time)) => {}
                _ = &mut cancel_rx => return,
            }
        }
    });
    let mut ctx = peer.context.lock().unwrap();
    ctx.active_connect_cancel_tx = Some(cancel_tx);
    ctx.active_connect_join_handle = Some(join_handle);
}

fn plan(property: &str) -> BatchPlan {
    match property {
        "C04" => BatchPlan { quick_runs: 10_000, thorough_runs: 300_000 },
        // the budget of a property is shared by its scenarios: 300 000 quick runs for each of them
        "C18" => BatchPlan { quick_runs: 900_000, thorough_runs: 10_000_000 },
        "C01" | "C07" | "C19" | "C20" => BatchPlan { quick_runs: 600_000, thorough_runs: 8_000_000 },
        _ => BatchPlan { quick_runs: 300_000, thorough_runs: 5_000_000 },
    }
}

/// Tier S build (`--cfg osrg_rustybgp_verif_shuttle`): the shard locks are shuttle's, so only the
/// shuttle scenarios can run in this binary.
#[cfg(osrg_rustybgp_verif_shuttle)]
pub(crate) fn verif_main(args: &[String]) -> i32 {
    let c18s = c18s::SubscribeInterleavings;
    let c01s = c01s::RegisterInterleavings;
    let c20s = c20s::NhtInterleavings;
    let checks: Vec<&dyn Check> = vec![&c18s, &c01s, &c20s];
    vcore::main_with(&checks, &|_p: &str| BatchPlan { quick_runs: 100_000, thorough_runs: 3_000_000 }, args)
}

#[cfg(not(osrg_rustybgp_verif_shuttle))]
pub(crate) fn verif_main(args: &[String]) -> i32 {
    let c08 = c08::HoldTimers;
    let c01 = c01::Convergence;
    let c01r = c01_rtc::RtcConvergence;
    let c10 = c10::GrHelper;
    let c13 = c13::RtrClient;
    let c07 = c07::FsmWire { prop: "C07" };
    let c07s = c07::FsmWire { prop: "C18" };
    let c07b = c07::SilenceInEveryState;
    let c16 = c16::Admission;
    let c09 = c09::ExportRules;
    let c05 = c05::MalformedUpdates;
    let c11 = c11::RestartingSpeaker;
    let c15s = c15_sessions::LimitSessions;
    let c20 = c20::KernelSync;
    let c20v = c20_vrf::VrfFib;
    let c18 = c18::Monitoring { prop: "C18" };
    let c18w = c18_watch::WatchStreams;
    let c19 = c18::Monitoring { prop: "C19" };
    let c04 = c04::BulkExport;
    let c19m = c19_mrt::MrtDumps;
    let checks: Vec<&dyn Check> = vec![&c08, &c01, &c01r, &c10, &c13, &c07, &c07b, &c16, &c09, &c05, &c11, &c15s, &c20, &c20v, &c18, &c18w, &c07s, &c19, &c19m, &c04];
    vcore::main_with(&checks, &plan, args)
}
