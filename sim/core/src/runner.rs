//! Batch runner: seeded search over cases, minimisation, replay, known findings, evidence.

use crate::json::Json;
use crate::rng::derive_seed;
use crate::{jarr, jobj};
use std::cell::RefCell;
use std::collections::{BTreeMap, BTreeSet};
use std::panic::{catch_unwind, AssertUnwindSafe};
use std::sync::atomic::{AtomicU64, AtomicUsize, Ordering};
use std::sync::Mutex;
use std::time::Instant;

pub const VERIF_DIR: &str = "/verif";
pub const DEFAULT_SEED: u64 = 20260925;

#[derive(Clone, Debug, PartialEq)]
pub struct Violation {
    /// `<property>/<clause>/<cause tag>` — stable identity used for shrinking and known findings.
    pub class: String,
    pub detail: String,
}

impl Violation {
    pub fn new(class: impl Into<String>, detail: impl Into<String>) -> Violation {
        Violation { class: class.into(), detail: detail.into() }
    }
}

/// Classes the oracle is told to tolerate (known findings and `--assume-fixed`): it records the hit,
/// resynchronises its model and keeps checking, so that one known defect does not mask the rest.
#[derive(Clone, Debug, Default)]
pub struct Tolerate {
    pub classes: BTreeSet<String>,
}

impl Tolerate {
    pub fn allows(&self, class: &str) -> bool {
        self.classes.contains(class)
    }
}

#[derive(Clone, Debug, Default)]
pub struct Outcome {
    pub violation: Option<Violation>,
    /// Violations of tolerated classes met during the run (each counted once per run).
    pub known_hits: Vec<Violation>,
    /// Fault kinds fired, probes hit, operations executed: name -> count.
    pub counters: BTreeMap<String, u64>,
    /// Hash of the sequence of seam events (who ran / what was delivered, in order).
    pub signature: u64,
    /// Did the mechanism the property is about actually fire in this run?
    pub nontrivial: bool,
    /// Simulated time covered by the run, in milliseconds (0 for untimed tiers).
    pub vtime_ms: u64,
    /// Hash of the full event log (must be identical on replay).
    pub log_hash: u64,
    pub steps: u64,
    /// Set when the harness itself failed (bound hit, internal inconsistency): never a verdict.
    pub harness_error: Option<String>,
}

impl Outcome {
    pub fn count(&mut self, name: &str, n: u64) {
        if n > 0 {
            *self.counters.entry(name.to_string()).or_insert(0) += n;
        }
    }
    pub fn hit(&mut self, name: &str) {
        self.count(name, 1);
    }
    /// Report a violation: returns true if the run must stop (class not tolerated).
    pub fn violate(&mut self, tol: &Tolerate, v: Violation) -> bool {
        if tol.allows(&v.class) {
            if !self.known_hits.iter().any(|k| k.class == v.class) {
                self.known_hits.push(v);
            }
            false
        } else {
            if self.violation.is_none() {
                self.violation = Some(v);
            }
            true
        }
    }
}

pub struct CheckInfo {
    pub rule: String,
    pub components_real: Vec<String>,
    pub components_stubbed: Vec<String>,
    pub assumptions: Vec<String>,
    pub bounds: String,
}

pub trait Check: Sync {
    fn property(&self) -> &'static str;
    /// Tier tag ("R", "W", "P", "D", "S") — part of the seed derivation and of replay files.
    fn tier(&self) -> &'static str;
    /// Sub-check name (a property may be decided by several scenarios).
    fn name(&self) -> &'static str;
    /// Draw configuration and op list from the seed. Must not depend on anything else.
    fn generate(&self, seed: u64, thorough: bool) -> Json;
    /// Execute a case against the real code. Must be a pure function of `case`.
    fn execute(&self, case: &Json, tol: &Tolerate) -> Outcome;
    fn info(&self) -> CheckInfo;
    /// Extra simplification candidates beyond dropping ops (smaller config, simpler op args).
    fn simplify(&self, _case: &Json) -> Vec<Json> {
        Vec::new()
    }
    /// Share of the batch this scenario gets (relative weight).
    fn weight(&self) -> u32 {
        1
    }
}

// ---------------------------------------------------------------------------------------------
// Panic capture: a panic inside code under /repo (or a dependency) is a property violation
// ("never panics"); a panic inside /verif code is a harness error.

thread_local! {
    static LAST_PANIC: RefCell<Option<(String, String)>> = const { RefCell::new(None) };
    static PANIC_COUNT: RefCell<u64> = const { RefCell::new(0) };
}

pub fn install_panic_hook() {
    std::panic::set_hook(Box::new(|info| {
        let loc = info
            .location()
            .map(|l| format!("{}:{}", l.file(), l.line()))
            .unwrap_or_else(|| "unknown".into());
        let msg = if let Some(s) = info.payload().downcast_ref::<&str>() {
            s.to_string()
        } else if let Some(s) = info.payload().downcast_ref::<String>() {
            s.clone()
        } else {
            "panic".to_string()
        };
        LAST_PANIC.with(|p| *p.borrow_mut() = Some((loc, msg)));
        PANIC_COUNT.with(|c| *c.borrow_mut() += 1);
    }));
}

pub fn take_panic() -> Option<(String, String)> {
    LAST_PANIC.with(|p| p.borrow_mut().take())
}

pub fn panic_count() -> u64 {
    PANIC_COUNT.with(|c| *c.borrow())
}

/// Short, line-number-free location used in violation classes (line numbers move with edits).
pub fn panic_site(loc: &str) -> String {
    let file = loc.rsplit_once(':').map(|(f, _)| f).unwrap_or(loc);
    let file = file.strip_prefix("/repo/").unwrap_or(file);
    // registry paths: keep crate dir + file
    if let Some(idx) = file.find("/registry/src/") {
        let rest = &file[idx + "/registry/src/".len()..];
        let rest = rest.split_once('/').map(|(_, r)| r).unwrap_or(rest);
        return rest.to_string();
    }
    file.to_string()
}

/// A panic counts against the code under test only if it was raised in /repo, in one of its
/// dependencies or in std; anything else (absolute /verif paths, or paths relative to the
/// simulator's own workspace such as `ext/src/wire.rs`) is a harness bug.
pub fn is_harness_location(loc: &str) -> bool {
    !(loc.starts_with("/repo/") || loc.contains("/registry/src/") || loc.starts_with("/rustc/") || loc.contains("/library/"))
}

/// Execute with panic capture.
pub fn guarded_execute(check: &dyn Check, case: &Json, tol: &Tolerate) -> Outcome {
    let _ = take_panic();
    match catch_unwind(AssertUnwindSafe(|| check.execute(case, tol))) {
        Ok(o) => o,
        Err(_) => {
            let (loc, msg) = take_panic().unwrap_or(("unknown".into(), "panic".into()));
            let mut o = Outcome::default();
            if is_harness_location(&loc) {
                o.harness_error = Some(format!("harness panic at {}: {}", loc, msg));
            } else {
                o.violation = Some(Violation::new(
                    format!("{}/panic/{}", check.property(), panic_site(&loc)),
                    format!("panic at {}: {}", loc, msg),
                ));
                o.nontrivial = true;
            }
            o
        }
    }
}

// ---------------------------------------------------------------------------------------------
// Known findings

#[derive(Clone, Debug)]
pub struct Finding {
    pub property: String,
    pub class: String,
    pub what: String,
    pub status: String, // "known" | "fixed"
    pub commit: String,
}

pub fn load_findings(path: &str) -> Vec<Finding> {
    let mut out = Vec::new();
    let Ok(text) = std::fs::read_to_string(path) else {
        return out;
    };
    for line in text.lines() {
        let line = line.trim();
        if line.is_empty() || line.starts_with('#') {
            continue;
        }
        if let Ok(j) = Json::parse(line) {
            out.push(Finding {
                property: j.s("property").to_string(),
                class: j.s("class").to_string(),
                what: j.s("what").to_string(),
                status: j.s("status").to_string(),
                commit: j.s("commit").to_string(),
            });
        }
    }
    out
}

// ---------------------------------------------------------------------------------------------
// CLI

#[derive(Clone, Debug)]
pub struct Cli {
    pub property: String,
    pub thorough: bool,
    pub seed: u64,
    pub runs: Option<u64>,
    pub threads: usize,
    pub replay: Option<String>,
    pub evidence: Option<String>,
    pub assume_fixed: Vec<String>,
    pub only: Option<String>,
    pub dump_seed: Option<u64>,
    pub no_findings: bool,
    pub determinism: bool,
    pub dump_hashes: Option<String>,
    /// first run index of the batch (to re-run one index of a longer batch)
    pub from: u64,
}

pub fn parse_cli(args: &[String]) -> Result<Cli, String> {
    let mut cli = Cli {
        property: String::new(),
        thorough: false,
        seed: std::env::var("VERIF_SEED").ok().and_then(|s| s.parse().ok()).unwrap_or(DEFAULT_SEED),
        runs: None,
        threads: std::thread::available_parallelism().map(|n| n.get()).unwrap_or(4),
        replay: None,
        evidence: None,
        assume_fixed: Vec::new(),
        only: None,
        dump_seed: None,
        no_findings: false,
        determinism: false,
        dump_hashes: None,
        from: 0,
    };
    if let Ok(t) = std::env::var("VERIF_TIER") {
        cli.thorough = t == "thorough";
    }
    let mut i = 0;
    while i < args.len() {
        let a = &args[i];
        let mut val = || -> Result<String, String> {
            i += 1;
            args.get(i).cloned().ok_or_else(|| format!("{} needs a value", a))
        };
        match a.as_str() {
            "--tier" => cli.thorough = val()? == "thorough",
            "--thorough" => cli.thorough = true,
            "--quick" => cli.thorough = false,
            "--seed" => cli.seed = val()?.parse().map_err(|_| "bad seed")?,
            "--runs" => cli.runs = Some(val()?.parse().map_err(|_| "bad runs")?),
            "--threads" => cli.threads = val()?.parse().map_err(|_| "bad threads")?,
            "--replay" => cli.replay = Some(val()?),
            "--evidence" => cli.evidence = Some(val()?),
            "--assume-fixed" => cli.assume_fixed.push(val()?),
            "--only" => cli.only = Some(val()?),
            "--dump-seed" => cli.dump_seed = Some(val()?.parse().map_err(|_| "bad seed")?),
            "--no-findings" => cli.no_findings = true,
            "--determinism" => cli.determinism = true,
            "--dump-hashes" => cli.dump_hashes = Some(val()?),
            "--from" => cli.from = val()?.parse().map_err(|_| "bad --from")?,
            s if !s.starts_with("--") && cli.property.is_empty() => cli.property = s.to_string(),
            s => return Err(format!("unknown argument {}", s)),
        }
        i += 1;
    }
    if cli.property.is_empty() && cli.replay.is_none() {
        return Err("usage: <bin> <property-id> [--tier quick|thorough] [--seed N] [--runs N] [--threads N] [--replay file]".into());
    }
    Ok(cli)
}

// ---------------------------------------------------------------------------------------------
// Shrinking

fn ops_of(case: &Json) -> Vec<Json> {
    case.get("ops").map(|o| o.arr().to_vec()).unwrap_or_default()
}

fn with_ops(case: &Json, ops: Vec<Json>) -> Json {
    let mut c = case.clone();
    c.set("ops", Json::Arr(ops));
    c
}

/// Delta-debugging over the op list, then scenario-specific simplifications, while the *same
/// violation class* keeps reproducing.
pub fn shrink(check: &dyn Check, case: &Json, class: &str, tol: &Tolerate, budget_execs: usize, budget_secs: f64) -> (Json, usize) {
    let start = Instant::now();
    let mut execs = 0usize;
    let mut best = case.clone();
    let mut reproduces = |c: &Json, execs: &mut usize| -> bool {
        *execs += 1;
        let o = guarded_execute(check, c, tol);
        o.violation.as_ref().map(|v| v.class == class).unwrap_or(false)
    };
    let over = |execs: usize| execs >= budget_execs || start.elapsed().as_secs_f64() > budget_secs;

    loop {
        let mut progressed = false;
        // 1. ddmin on ops
        let mut ops = ops_of(&best);
        let mut chunk = (ops.len() / 2).max(1);
        while !ops.is_empty() && !over(execs) {
            let mut i = 0;
            let mut removed_any = false;
            while i < ops.len() && !over(execs) {
                let end = (i + chunk).min(ops.len());
                let mut cand = ops.clone();
                cand.drain(i..end);
                let c = with_ops(&best, cand.clone());
                if reproduces(&c, &mut execs) {
                    ops = cand;
                    best = c;
                    removed_any = true;
                    progressed = true;
                } else {
                    i = end;
                }
            }
            if chunk == 1 && !removed_any {
                break;
            }
            if !removed_any || chunk > ops.len() {
                chunk = (chunk / 2).max(1);
            }
        }
        // 2. scenario-specific simplifications
        let mut again = true;
        while again && !over(execs) {
            again = false;
            for cand in check.simplify(&best) {
                if over(execs) {
                    break;
                }
                if cand != best && reproduces(&cand, &mut execs) {
                    best = cand;
                    again = true;
                    progressed = true;
                    break;
                }
            }
        }
        if !progressed || over(execs) {
            break;
        }
    }
    (best, execs)
}

// ---------------------------------------------------------------------------------------------
// Batch

pub struct BatchPlan {
    pub quick_runs: u64,
    pub thorough_runs: u64,
}

struct RunRec {
    idx: u64,
    check_i: usize,
    seed: u64,
    outcome: Outcome,
}

/// The one property whose statement is "the call terminates": see the watchdog in `main_with`.
const NONTERMINATION_IS_VIOLATION: &str = "C03";

fn replay_doc(check: &dyn Check, case: &Json, v: &Violation, seed: u64, log_hash: u64) -> Json {
    jobj! {
        "property" => check.property(),
        "tier" => check.tier(),
        "check" => check.name(),
        "seed" => seed,
        "class" => v.class.clone(),
        "detail" => v.detail.clone(),
        "log_hash" => format!("{:016x}", log_hash),
        "case" => case.clone(),
    }
}

pub fn find_check<'a>(checks: &'a [&'a dyn Check], property: &str, name: &str) -> Option<&'a dyn Check> {
    checks.iter().copied().find(|c| c.property() == property && (name.is_empty() || c.name() == name))
}

/// Entry point used by every simulator binary. Returns the process exit code.
pub fn main_with(checks: &[&dyn Check], plan: &dyn Fn(&str) -> BatchPlan, args: &[String]) -> i32 {
    install_panic_hook();
    let cli = match parse_cli(args) {
        Ok(c) => c,
        Err(e) => {
            eprintln!("{}", e);
            return 2;
        }
    };
    let findings = if cli.no_findings { Vec::new() } else { load_findings(&format!("{}/known_findings.jsonl", VERIF_DIR)) };

    if let Some(path) = &cli.replay {
        return replay_file(checks, path, &findings, &cli);
    }

    let mine: Vec<&dyn Check> = checks
        .iter()
        .copied()
        .filter(|c| c.property() == cli.property)
        .filter(|c| cli.only.as_deref().map(|o| o == c.name()).unwrap_or(true))
        .collect();
    if mine.is_empty() {
        eprintln!("no check registered for property {}", cli.property);
        return 2;
    }
    let mut tol = Tolerate::default();
    for f in &findings {
        if f.property == cli.property && f.status == "known" {
            tol.classes.insert(f.class.clone());
        }
    }
    for c in &cli.assume_fixed {
        tol.classes.insert(c.clone());
    }

    if let Some(seed) = cli.dump_seed {
        for c in &mine {
            let case = c.generate(seed, cli.thorough);
            println!("# {} {}", c.name(), seed);
            println!("{}", case.to_pretty());
            let o = guarded_execute(*c, &case, &tol);
            println!("# outcome: violation={:?} known={:?} nontrivial={} sig={:016x} log={:016x} counters={:?} harness_error={:?}",
                o.violation, o.known_hits.iter().map(|k| k.class.clone()).collect::<Vec<_>>(), o.nontrivial, o.signature, o.log_hash, o.counters, o.harness_error);
        }
        return 0;
    }

    let p = plan(&cli.property);
    let total_runs = cli.runs.unwrap_or(if cli.thorough { p.thorough_runs } else { p.quick_runs });
    let start = Instant::now();
    println!("VERIF_SEED={} property={} tier={} runs={} threads={} checks={}", cli.seed, cli.property,
        if cli.thorough { "thorough" } else { "quick" }, total_runs, cli.threads,
        mine.iter().map(|c| c.name()).collect::<Vec<_>>().join(","));

    // run i goes to scenario chosen by weight, deterministically from i
    let weights: Vec<u32> = mine.iter().map(|c| c.weight()).collect();
    let wsum: u64 = weights.iter().map(|w| *w as u64).sum();
    let pick = |i: u64| -> usize {
        let mut r = i % wsum;
        for (k, w) in weights.iter().enumerate() {
            if r < *w as u64 {
                return k;
            }
            r -= *w as u64;
        }
        0
    };

    let next = AtomicU64::new(cli.from);
    let total_runs = total_runs + cli.from;
    let recs: Mutex<Vec<RunRec>> = Mutex::new(Vec::new());
    let violations_seen = AtomicUsize::new(0);
    // watchdog: a run that never ends (a livelock under the simulated clock) must not hang the
    // batch: it is a harness-level failure (exit 2) naming the run, never a verdict
    // C03 is the exception: its runs are calls into the wire decoders and nothing else (no
    // simulated clock, no tasks), and "the decoder terminates" is the property itself, so a
    // run that does not come back is reported as a violation with the generated case as replay
    let limit_s: u64 = std::env::var("VERIF_RUN_TIMEOUT_S").ok().and_then(|v| v.parse().ok())
        .unwrap_or(if cli.property == NONTERMINATION_IS_VIOLATION { 60 } else { 180 });
    let in_flight: Mutex<BTreeMap<u64, (u64, Instant, usize)>> = Mutex::new(BTreeMap::new());
    let finished = std::sync::atomic::AtomicBool::new(false);
    std::thread::scope(|s| {
        s.spawn(|| {
            while !finished.load(Ordering::Relaxed) {
                std::thread::sleep(std::time::Duration::from_millis(500));
                let g = in_flight.lock().unwrap();
                for (idx, (seed, since, k)) in g.iter() {
                    if since.elapsed().as_secs() > limit_s && cli.property == NONTERMINATION_IS_VIOLATION {
                        let c = mine[*k];
                        let case = c.generate(*seed, cli.thorough);
                        let v = Violation::new(format!("{}/termination/decoder-does-not-return", c.property()),
                            format!("check {} run {} seed {}: the decoder calls of this case did not return within {} s of wall-clock time", c.name(), idx, seed, limit_s));
                        let path = format!("{}/replays/{}-{}-{:016x}.json", VERIF_DIR, c.property(), c.name(), crate::rng::fnv1a(v.class.as_bytes()) ^ *seed);
                        let _ = std::fs::create_dir_all(format!("{}/replays", VERIF_DIR));
                        let _ = std::fs::write(&path, replay_doc(c, &case, &v, *seed, 0).to_pretty());
                        println!("violation class={}", v.class);
                        println!("  detail: {}", v.detail);
                        println!("VIOLATION property={} replay={}", c.property(), path);
                        std::process::exit(1);
                    }
                    if since.elapsed().as_secs() > limit_s {
                        eprintln!("HARNESS-ERROR: run {} seed {} did not finish within {} s of wall-clock time (livelock under the simulated clock?)", idx, seed, limit_s);
                        std::process::exit(2);
                    }
                }
            }
        });
        let workers: Vec<_> = (0..cli.threads.max(1)).map(|_| {
            s.spawn(|| {
                install_panic_hook();
                let mut local: Vec<RunRec> = Vec::new();
                loop {
                    let i = next.fetch_add(1, Ordering::Relaxed);
                    if i >= total_runs {
                        break;
                    }
                    // stop generating new work once plenty of violations are in hand
                    if violations_seen.load(Ordering::Relaxed) >= 64 {
                        break;
                    }
                    let k = pick(i);
                    let c = mine[k];
                    let seed = derive_seed(cli.seed, c.property(), c.name(), i);
                    let case = c.generate(seed, cli.thorough);
                    in_flight.lock().unwrap().insert(i, (seed, Instant::now(), k));
                    let outcome = guarded_execute(c, &case, &tol);
                    in_flight.lock().unwrap().remove(&i);
                    if outcome.violation.is_some() {
                        violations_seen.fetch_add(1, Ordering::Relaxed);
                    }
                    local.push(RunRec { idx: i, check_i: k, seed, outcome });
                }
                recs.lock().unwrap().extend(local);
            })
        }).collect();
        for w in workers {
            let _ = w.join();
        }
        finished.store(true, Ordering::Relaxed);
    });
    let mut recs = recs.into_inner().unwrap();
    recs.sort_by_key(|r| r.idx);

    if let Some(path) = &cli.dump_hashes {
        let mut text = String::new();
        for r in &recs {
            text.push_str(&format!("{} {} {:016x} {:016x} {} {}\n", r.idx, r.seed, r.outcome.log_hash, r.outcome.signature,
                r.outcome.violation.as_ref().map(|v| v.class.as_str()).unwrap_or("-"),
                r.outcome.known_hits.iter().map(|k| k.class.as_str()).collect::<Vec<_>>().join(",")));
        }
        let _ = std::fs::write(path, text);
    }

    // aggregate
    let mut counters: BTreeMap<String, u64> = BTreeMap::new();
    let mut sigs: BTreeSet<u64> = BTreeSet::new();
    let mut nontrivial_sigs: BTreeSet<u64> = BTreeSet::new();
    let mut vtime_ms: u64 = 0;
    let mut steps: u64 = 0;
    let mut harness_errors: Vec<String> = Vec::new();
    let mut known_hits: BTreeMap<String, (u64, String)> = BTreeMap::new();
    let mut per_check: BTreeMap<&str, u64> = BTreeMap::new();
    for r in &recs {
        for (k, v) in &r.outcome.counters {
            *counters.entry(k.clone()).or_insert(0) += v;
        }
        sigs.insert(r.outcome.signature);
        if r.outcome.nontrivial {
            nontrivial_sigs.insert(r.outcome.signature);
        }
        vtime_ms += r.outcome.vtime_ms;
        steps += r.outcome.steps;
        if let Some(e) = &r.outcome.harness_error {
            harness_errors.push(format!("run {} seed {}: {}", r.idx, r.seed, e));
        }
        for k in &r.outcome.known_hits {
            let e = known_hits.entry(k.class.clone()).or_insert((0, k.detail.clone()));
            e.0 += 1;
        }
        *per_check.entry(mine[r.check_i].name()).or_insert(0) += 1;
    }

    // violations: lowest run index per class, at most 4 classes minimised
    let mut by_class: BTreeMap<String, &RunRec> = BTreeMap::new();
    for r in &recs {
        if let Some(v) = &r.outcome.violation {
            by_class.entry(v.class.clone()).or_insert(r);
        }
    }
    let mut exit = 0;
    let mut violation_lines = Vec::new();
    let mut n_viol = 0;
    for (class, r) in by_class.iter().take(4) {
        let c = mine[r.check_i];
        let case = c.generate(r.seed, cli.thorough);
        let (min_case, execs) = shrink(c, &case, class, &tol, if cli.thorough { 3000 } else { 800 }, if cli.thorough { 180.0 } else { 45.0 });
        let o1 = guarded_execute(c, &min_case, &tol);
        let Some(v1) = o1.violation.clone() else {
            harness_errors.push(format!("violation {} from seed {} did not reproduce after shrinking", class, r.seed));
            continue;
        };
        let path = format!("{}/replays/{}-{}-{:016x}.json", VERIF_DIR, c.property(), c.name(), crate::rng::fnv1a(v1.class.as_bytes()) ^ r.seed);
        let doc = replay_doc(c, &min_case, &v1, r.seed, o1.log_hash);
        let _ = std::fs::create_dir_all(format!("{}/replays", VERIF_DIR));
        if let Err(e) = std::fs::write(&path, doc.to_pretty()) {
            harness_errors.push(format!("cannot write replay {}: {}", path, e));
            continue;
        }
        // confirm from the file, as a replay would
        let parsed = std::fs::read_to_string(&path).ok().and_then(|t| Json::parse(&t).ok());
        let ok = parsed
            .as_ref()
            .and_then(|d| d.get("case"))
            .map(|cs| {
                let o2 = guarded_execute(c, cs, &tol);
                o2.violation.as_ref().map(|v| v.class == v1.class).unwrap_or(false) && o2.log_hash == o1.log_hash
            })
            .unwrap_or(false);
        if !ok {
            harness_errors.push(format!("replay of {} is not deterministic", path));
            continue;
        }
        n_viol += 1;
        println!("violation class={} seed={} run={} ops_before={} ops_after={} shrink_execs={}", v1.class, r.seed, r.idx,
            ops_of(&case).len(), ops_of(&min_case).len(), execs);
        println!("  detail: {}", v1.detail);
        violation_lines.push(format!("VIOLATION property={} replay={}", c.property(), path));
        exit = 1;
    }
    if by_class.len() > 4 {
        println!("({} further violation classes not minimised: {:?})", by_class.len() - 4, by_class.keys().skip(4).collect::<Vec<_>>());
    }

    // known findings
    for f in &findings {
        if f.property != cli.property {
            continue;
        }
        if f.status == "known" {
            let n = known_hits.get(&f.class).map(|x| x.0).unwrap_or(0);
            println!("KNOWN-FINDING: property={} class={} reproduced_in_runs={} {}", f.property, f.class, n, f.what);
        }
    }

    let wall = start.elapsed().as_secs_f64();
    // evidence
    let infos: Vec<CheckInfo> = mine.iter().map(|c| c.info()).collect();
    let mut samples = Vec::new();
    for c in &mine {
        // two sample cases per scenario: the first run and the first nontrivial one
        let mut picked = 0;
        for r in recs.iter().filter(|r| mine[r.check_i].name() == c.name()) {
            if picked == 0 || (r.outcome.nontrivial && picked < 2) {
                let case = c.generate(r.seed, cli.thorough);
                samples.push(jobj! {"check" => c.name(), "seed" => r.seed, "nontrivial" => r.outcome.nontrivial, "case" => truncate_case(&case, 40)});
                picked += 1;
            }
            if picked >= 2 {
                break;
            }
        }
    }
    let evaluations = recs.len() as u64;
    let cov = jobj! {
        "evaluations" => evaluations,
        "distinct_nontrivial" => nontrivial_sigs.len() as u64,
        "rule" => infos.iter().zip(mine.iter()).map(|(i, c)| format!("[{}] {}", c.name(), i.rule)).collect::<Vec<_>>().join(" || "),
        "samples" => Json::Arr(samples),
        "interleaving_signatures" => sigs.len() as u64,
        "runs_per_check" => Json::Obj(per_check.iter().map(|(k, v)| (k.to_string(), Json::from(*v))).collect()),
        "runs_per_hour" => if wall > 0.0 { (evaluations as f64 / wall * 3600.0) as u64 } else { 0 },
        "virtual_seconds_covered" => vtime_ms / 1000,
        "steps_executed" => steps,
        "faults_and_probes" => Json::Obj(counters.iter().map(|(k, v)| (k.clone(), Json::from(*v))).collect()),
        "known_finding_hits" => Json::Obj(known_hits.iter().map(|(k, v)| (k.clone(), Json::from(v.0))).collect()),
        "components_real" => Json::Arr(dedup(infos.iter().flat_map(|i| i.components_real.clone()).collect()).into_iter().map(Json::from).collect()),
        "components_stubbed" => Json::Arr(dedup(infos.iter().flat_map(|i| i.components_stubbed.clone()).collect()).into_iter().map(Json::from).collect()),
        "bounds" => infos.iter().map(|i| i.bounds.clone()).collect::<Vec<_>>().join(" || "),
        "threads" => cli.threads,
        "harness_errors" => harness_errors.len() as u64,
    };
    let ev = jobj! {
        "property_id" => cli.property.clone(),
        "tier" => if cli.thorough { "thorough" } else { "quick" },
        "seed" => cli.seed,
        "level" => "exploration",
        "coverage" => cov,
        "assumptions" => Json::Arr(dedup(infos.iter().flat_map(|i| i.assumptions.clone()).collect()).into_iter().map(Json::from).collect()),
        "wall_s" => wall,
        "violations" => n_viol as i64,
    };
    let ev_path = cli.evidence.clone().unwrap_or_else(|| format!("{}/evidence/{}.json", VERIF_DIR, cli.property));
    if let Some(dir) = std::path::Path::new(&ev_path).parent() {
        let _ = std::fs::create_dir_all(dir);
    }
    // several binaries may serve one property: merge instead of overwrite when asked to
    if let Err(e) = write_or_merge_evidence(&ev_path, ev) {
        eprintln!("cannot write evidence {}: {}", ev_path, e);
        return 2;
    }

    println!("runs={} distinct_signatures={} distinct_nontrivial={} vtime_s={} wall_s={:.1} runs_per_hour={}", evaluations, sigs.len(),
        nontrivial_sigs.len(), vtime_ms / 1000, wall, if wall > 0.0 { (evaluations as f64 / wall * 3600.0) as u64 } else { 0 });
    for (k, v) in &counters {
        println!("  {:<44} {}", k, v);
    }
    for l in &violation_lines {
        println!("{}", l);
    }
    if !harness_errors.is_empty() {
        for e in harness_errors.iter().take(10) {
            eprintln!("HARNESS-ERROR: {}", e);
        }
        if exit == 0 {
            return 2;
        }
    }
    exit
}

fn dedup(v: Vec<String>) -> Vec<String> {
    let mut seen = BTreeSet::new();
    v.into_iter().filter(|x| seen.insert(x.clone())).collect()
}

fn truncate_case(case: &Json, max_ops: usize) -> Json {
    let mut c = case.clone();
    let ops = ops_of(case);
    if ops.len() > max_ops {
        let mut t: Vec<Json> = ops[..max_ops].to_vec();
        t.push(jarr!["...", (ops.len() - max_ops) as u64, "more ops"]);
        c.set("ops", Json::Arr(t));
    }
    c
}

/// Evidence for one property may be produced by more than one simulator binary (e.g. tier R and
/// tier D). `VERIF_EVIDENCE_MERGE=1` makes a later binary fold its numbers into the file written by
/// an earlier one in the same check invocation; otherwise the file is overwritten.
fn write_or_merge_evidence(path: &str, ev: Json) -> std::io::Result<()> {
    let merge = std::env::var("VERIF_EVIDENCE_MERGE").map(|v| v == "1").unwrap_or(false);
    let mut out = ev.clone();
    if merge {
        if let Some(old) = std::fs::read_to_string(path).ok().and_then(|t| Json::parse(&t).ok()) {
            out = merge_evidence(&old, &ev);
        }
    }
    std::fs::write(path, out.to_pretty())
}

fn merge_evidence(a: &Json, b: &Json) -> Json {
    let mut out = a.clone();
    let add = |x: &Json, y: &Json, k: &str| -> i64 { x.i(k, 0) + y.i(k, 0) };
    let (ca, cb) = (a.get("coverage").cloned().unwrap_or(Json::Obj(vec![])), b.get("coverage").cloned().unwrap_or(Json::Obj(vec![])));
    let mut c = ca.clone();
    for k in ["evaluations", "distinct_nontrivial", "interleaving_signatures", "virtual_seconds_covered", "steps_executed", "harness_errors"] {
        c.set(k, Json::Int(add(&ca, &cb, k)));
    }
    c.set("rule", Json::Str(format!("{} || {}", ca.s("rule"), cb.s("rule"))));
    c.set("bounds", Json::Str(format!("{} || {}", ca.s("bounds"), cb.s("bounds"))));
    for k in ["samples", "components_real", "components_stubbed"] {
        let mut v = ca.get(k).map(|x| x.arr().to_vec()).unwrap_or_default();
        for x in cb.get(k).map(|x| x.arr().to_vec()).unwrap_or_default() {
            if !v.contains(&x) {
                v.push(x);
            }
        }
        c.set(k, Json::Arr(v));
    }
    for k in ["runs_per_check", "faults_and_probes", "known_finding_hits"] {
        let mut m: Vec<(String, Json)> = match ca.get(k) {
            Some(Json::Obj(v)) => v.clone(),
            _ => vec![],
        };
        if let Some(Json::Obj(v)) = cb.get(k) {
            for (kk, vv) in v {
                if let Some(e) = m.iter_mut().find(|(x, _)| x == kk) {
                    e.1 = Json::Int(e.1.as_i64() + vv.as_i64());
                } else {
                    m.push((kk.clone(), vv.clone()));
                }
            }
        }
        c.set(k, Json::Obj(m));
    }
    let wall = match (a.get("wall_s"), b.get("wall_s")) {
        (Some(Json::Float(x)), Some(Json::Float(y))) => x + y,
        _ => 0.0,
    };
    let ev = c.i("evaluations", 0) as f64;
    c.set("runs_per_hour", Json::Int(if wall > 0.0 { (ev / wall * 3600.0) as i64 } else { 0 }));
    out.set("coverage", c);
    out.set("wall_s", Json::Float(wall));
    out.set("violations", Json::Int(a.i("violations", 0) + b.i("violations", 0)));
    let mut asum = a.get("assumptions").map(|x| x.arr().to_vec()).unwrap_or_default();
    for x in b.get("assumptions").map(|x| x.arr().to_vec()).unwrap_or_default() {
        if !asum.contains(&x) {
            asum.push(x);
        }
    }
    out.set("assumptions", Json::Arr(asum));
    out
}

fn replay_file(checks: &[&dyn Check], path: &str, findings: &[Finding], cli: &Cli) -> i32 {
    let text = match std::fs::read_to_string(path) {
        Ok(t) => t,
        Err(e) => {
            eprintln!("cannot read {}: {}", path, e);
            return 2;
        }
    };
    let doc = match Json::parse(&text) {
        Ok(d) => d,
        Err(e) => {
            eprintln!("cannot parse {}: {}", path, e);
            return 2;
        }
    };
    let prop = doc.s("property").to_string();
    let Some(check) = find_check(checks, &prop, doc.s("check")) else {
        eprintln!("this binary has no check {} / {}", prop, doc.s("check"));
        return 3;
    };
    let mut tol = Tolerate::default();
    for c in &cli.assume_fixed {
        tol.classes.insert(c.clone());
    }
    let _ = findings; // a replay always shows the raw behaviour: nothing is tolerated
    let Some(case) = doc.get("case") else {
        eprintln!("replay file has no case");
        return 2;
    };
    if prop == NONTERMINATION_IS_VIOLATION {
        // the same rule as in the batch: a decoder case that does not come back is the violation
        let limit_s: u64 = std::env::var("VERIF_RUN_TIMEOUT_S").ok().and_then(|v| v.parse().ok()).unwrap_or(60);
        let (prop, path) = (prop.clone(), path.to_string());
        std::thread::spawn(move || {
            std::thread::sleep(std::time::Duration::from_secs(limit_s));
            println!("violation class={}/termination/decoder-does-not-return", prop);
            println!("  detail: the decoder calls of this case did not return within {} s of wall-clock time", limit_s);
            println!("VIOLATION property={} replay={}", prop, path);
            std::process::exit(1);
        });
    }
    let o = guarded_execute(check, case, &tol);
    println!("replay property={} check={} log_hash={:016x} (recorded {})", prop, check.name(), o.log_hash, doc.s("log_hash"));
    if let Some(e) = &o.harness_error {
        eprintln!("HARNESS-ERROR: {}", e);
        return 2;
    }
    match o.violation {
        Some(v) => {
            println!("violation class={}", v.class);
            println!("  detail: {}", v.detail);
            if !doc.s("class").is_empty() && doc.s("class") != v.class {
                println!("  (recorded class was {})", doc.s("class"));
            }
            println!("VIOLATION property={} replay={}", prop, path);
            1
        }
        None => {
            println!("no violation on replay");
            0
        }
    }
}
