//! The one PRNG every simulated choice is drawn from (xoshiro256** seeded through splitmix64).
//! No dependency on process state: one integer in, one exactly repeatable stream out.

#[derive(Clone, Debug)]
pub struct Rng {
    s: [u64; 4],
}

pub fn splitmix(x: &mut u64) -> u64 {
    *x = x.wrapping_add(0x9E37_79B9_7F4A_7C15);
    let mut z = *x;
    z = (z ^ (z >> 30)).wrapping_mul(0xBF58_476D_1CE4_E5B9);
    z = (z ^ (z >> 27)).wrapping_mul(0x94D0_49BB_1331_11EB);
    z ^ (z >> 31)
}

/// FNV-1a, used to fold strings (property ids, tier names) into seeds and to hash event logs.
pub fn fnv1a(data: &[u8]) -> u64 {
    let mut h: u64 = 0xcbf2_9ce4_8422_2325;
    for b in data {
        h ^= *b as u64;
        h = h.wrapping_mul(0x0000_0100_0000_01B3);
    }
    h
}

/// Seed of run `i` of a batch: a pure function of (VERIF_SEED, property, tier tag, i).
pub fn derive_seed(base: u64, property: &str, tag: &str, i: u64) -> u64 {
    let mut x = base ^ fnv1a(property.as_bytes()).rotate_left(17) ^ fnv1a(tag.as_bytes()).rotate_left(41);
    let _ = splitmix(&mut x);
    x ^= i.wrapping_mul(0xD6E8_FEB8_6659_FD93);
    splitmix(&mut x)
}

impl Rng {
    pub fn new(seed: u64) -> Rng {
        let mut x = seed;
        let s = [splitmix(&mut x), splitmix(&mut x), splitmix(&mut x), splitmix(&mut x)];
        Rng { s }
    }
    pub fn next_u64(&mut self) -> u64 {
        let r = self.s[1].wrapping_mul(5).rotate_left(7).wrapping_mul(9);
        let t = self.s[1] << 17;
        self.s[2] ^= self.s[0];
        self.s[3] ^= self.s[1];
        self.s[1] ^= self.s[2];
        self.s[0] ^= self.s[3];
        self.s[2] ^= t;
        self.s[3] = self.s[3].rotate_left(45);
        r
    }
    pub fn next_u32(&mut self) -> u32 {
        (self.next_u64() >> 32) as u32
    }
    /// Uniform in 0..n (n > 0).
    pub fn below(&mut self, n: u64) -> u64 {
        debug_assert!(n > 0);
        // multiply-shift; bias is irrelevant for simulation purposes
        ((self.next_u64() as u128 * n as u128) >> 64) as u64
    }
    pub fn usize_below(&mut self, n: usize) -> usize {
        self.below(n as u64) as usize
    }
    /// Uniform in lo..=hi.
    pub fn range(&mut self, lo: u64, hi: u64) -> u64 {
        lo + self.below(hi - lo + 1)
    }
    pub fn chance(&mut self, num: u64, den: u64) -> bool {
        self.below(den) < num
    }
    pub fn coin(&mut self) -> bool {
        self.next_u64() & 1 == 1
    }
    pub fn pick<'a, T>(&mut self, v: &'a [T]) -> &'a T {
        &v[self.usize_below(v.len())]
    }
    pub fn shuffle<T>(&mut self, v: &mut [T]) {
        for i in (1..v.len()).rev() {
            let j = self.usize_below(i + 1);
            v.swap(i, j);
        }
    }
    /// Index drawn according to integer weights.
    pub fn weighted(&mut self, w: &[u32]) -> usize {
        let total: u64 = w.iter().map(|x| *x as u64).sum();
        let mut r = self.below(total.max(1));
        for (i, x) in w.iter().enumerate() {
            if r < *x as u64 {
                return i;
            }
            r -= *x as u64;
        }
        w.len() - 1
    }
    /// A child generator whose stream is independent of later draws from `self`.
    pub fn fork(&mut self) -> Rng {
        Rng::new(self.next_u64())
    }
}

/// Incremental hasher for event logs (order sensitive).
#[derive(Clone, Copy, Debug)]
pub struct LogHash(pub u64);

impl Default for LogHash {
    fn default() -> Self {
        LogHash(0xcbf2_9ce4_8422_2325)
    }
}

impl LogHash {
    pub fn add_bytes(&mut self, b: &[u8]) {
        for x in b {
            self.0 ^= *x as u64;
            self.0 = self.0.wrapping_mul(0x0000_0100_0000_01B3);
        }
        self.0 ^= 0xff;
        self.0 = self.0.wrapping_mul(0x0000_0100_0000_01B3);
    }
    pub fn add_str(&mut self, s: &str) {
        self.add_bytes(s.as_bytes());
    }
    pub fn add_u64(&mut self, v: u64) {
        self.add_bytes(&v.to_le_bytes());
    }
}
