//! Minimal JSON value, parser and emitter (no dependencies; object key order preserved so that
//! every file written by the machinery is byte-for-byte reproducible).

use std::fmt::Write as _;

#[derive(Clone, Debug, PartialEq)]
pub enum Json {
    Null,
    Bool(bool),
    Int(i64),
    Float(f64),
    Str(String),
    Arr(Vec<Json>),
    Obj(Vec<(String, Json)>),
}

impl From<i64> for Json {
    fn from(v: i64) -> Json {
        Json::Int(v)
    }
}
impl From<u64> for Json {
    fn from(v: u64) -> Json {
        Json::Int(v as i64)
    }
}
impl From<u32> for Json {
    fn from(v: u32) -> Json {
        Json::Int(v as i64)
    }
}
impl From<usize> for Json {
    fn from(v: usize) -> Json {
        Json::Int(v as i64)
    }
}
impl From<bool> for Json {
    fn from(v: bool) -> Json {
        Json::Bool(v)
    }
}
impl From<&str> for Json {
    fn from(v: &str) -> Json {
        Json::Str(v.to_string())
    }
}
impl From<String> for Json {
    fn from(v: String) -> Json {
        Json::Str(v)
    }
}
impl From<f64> for Json {
    fn from(v: f64) -> Json {
        Json::Float(v)
    }
}
impl<T: Into<Json>> From<Vec<T>> for Json {
    fn from(v: Vec<T>) -> Json {
        Json::Arr(v.into_iter().map(|x| x.into()).collect())
    }
}

/// `jarr!["tag", 1, 2]` builds a JSON array from heterogeneous items.
#[macro_export]
macro_rules! jarr {
    ($($x:expr),* $(,)?) => { $crate::json::Json::Arr(vec![$($crate::json::Json::from($x)),*]) };
}
/// `jobj!{"k" => v, ...}` builds a JSON object preserving key order.
#[macro_export]
macro_rules! jobj {
    ($($k:expr => $v:expr),* $(,)?) => { $crate::json::Json::Obj(vec![$(($k.to_string(), $crate::json::Json::from($v))),*]) };
}

impl Json {
    pub fn get(&self, key: &str) -> Option<&Json> {
        match self {
            Json::Obj(v) => v.iter().find(|(k, _)| k == key).map(|(_, v)| v),
            _ => None,
        }
    }
    pub fn get_mut(&mut self, key: &str) -> Option<&mut Json> {
        match self {
            Json::Obj(v) => v.iter_mut().find(|(k, _)| k == key).map(|(_, v)| v),
            _ => None,
        }
    }
    pub fn set(&mut self, key: &str, val: Json) {
        if let Json::Obj(v) = self {
            if let Some(e) = v.iter_mut().find(|(k, _)| k == key) {
                e.1 = val;
            } else {
                v.push((key.to_string(), val));
            }
        }
    }
    pub fn at(&self, i: usize) -> &Json {
        match self {
            Json::Arr(v) => v.get(i).unwrap_or(&Json::Null),
            _ => &Json::Null,
        }
    }
    pub fn arr(&self) -> &[Json] {
        match self {
            Json::Arr(v) => v,
            _ => &[],
        }
    }
    pub fn as_i64(&self) -> i64 {
        match self {
            Json::Int(v) => *v,
            Json::Float(f) => *f as i64,
            Json::Bool(b) => *b as i64,
            _ => 0,
        }
    }
    pub fn as_u64(&self) -> u64 {
        self.as_i64() as u64
    }
    pub fn as_usize(&self) -> usize {
        self.as_i64() as usize
    }
    pub fn as_u32(&self) -> u32 {
        self.as_i64() as u32
    }
    pub fn as_u8(&self) -> u8 {
        self.as_i64() as u8
    }
    pub fn as_bool(&self) -> bool {
        match self {
            Json::Bool(b) => *b,
            Json::Int(v) => *v != 0,
            _ => false,
        }
    }
    pub fn as_str(&self) -> &str {
        match self {
            Json::Str(s) => s,
            _ => "",
        }
    }
    /// Integer field of an object with a default.
    pub fn i(&self, key: &str, default: i64) -> i64 {
        self.get(key).map(|v| v.as_i64()).unwrap_or(default)
    }
    pub fn s(&self, key: &str) -> &str {
        self.get(key).map(|v| v.as_str()).unwrap_or("")
    }

    pub fn to_compact(&self) -> String {
        let mut s = String::new();
        self.write(&mut s, None, 0);
        s
    }
    pub fn to_pretty(&self) -> String {
        let mut s = String::new();
        self.write(&mut s, Some(1), 0);
        s.push('\n');
        s
    }

    fn write(&self, out: &mut String, indent: Option<usize>, depth: usize) {
        match self {
            Json::Null => out.push_str("null"),
            Json::Bool(b) => out.push_str(if *b { "true" } else { "false" }),
            Json::Int(v) => {
                let _ = write!(out, "{}", v);
            }
            Json::Float(f) => {
                if f.is_finite() {
                    let _ = write!(out, "{:.3}", f);
                } else {
                    out.push_str("0.0");
                }
            }
            Json::Str(s) => write_str(out, s),
            Json::Arr(v) => {
                // arrays of scalars stay on one line even in pretty mode (op lists stay readable)
                let scalar = v.iter().all(|x| !matches!(x, Json::Arr(_) | Json::Obj(_)));
                out.push('[');
                for (i, x) in v.iter().enumerate() {
                    if i > 0 {
                        out.push(',');
                    }
                    if let (Some(n), false) = (indent, scalar) {
                        out.push('\n');
                        for _ in 0..(depth + 1) * n {
                            out.push(' ');
                        }
                    }
                    x.write(out, indent, depth + 1);
                }
                if let (Some(n), false) = (indent, scalar) {
                    if !v.is_empty() {
                        out.push('\n');
                        for _ in 0..depth * n {
                            out.push(' ');
                        }
                    }
                }
                out.push(']');
            }
            Json::Obj(v) => {
                out.push('{');
                for (i, (k, x)) in v.iter().enumerate() {
                    if i > 0 {
                        out.push(',');
                    }
                    if let Some(n) = indent {
                        out.push('\n');
                        for _ in 0..(depth + 1) * n {
                            out.push(' ');
                        }
                    }
                    write_str(out, k);
                    out.push(':');
                    if indent.is_some() {
                        out.push(' ');
                    }
                    x.write(out, indent, depth + 1);
                }
                if let Some(n) = indent {
                    if !v.is_empty() {
                        out.push('\n');
                        for _ in 0..depth * n {
                            out.push(' ');
                        }
                    }
                }
                out.push('}');
            }
        }
    }

    pub fn parse(src: &str) -> Result<Json, String> {
        let mut p = Parser { b: src.as_bytes(), i: 0 };
        p.ws();
        let v = p.value()?;
        p.ws();
        if p.i != p.b.len() {
            return Err(format!("trailing data at byte {}", p.i));
        }
        Ok(v)
    }
}

fn write_str(out: &mut String, s: &str) {
    out.push('"');
    for c in s.chars() {
        match c {
            '"' => out.push_str("\\\""),
            '\\' => out.push_str("\\\\"),
            '\n' => out.push_str("\\n"),
            '\r' => out.push_str("\\r"),
            '\t' => out.push_str("\\t"),
            c if (c as u32) < 0x20 => {
                let _ = write!(out, "\\u{:04x}", c as u32);
            }
            c => out.push(c),
        }
    }
    out.push('"');
}

struct Parser<'a> {
    b: &'a [u8],
    i: usize,
}

impl<'a> Parser<'a> {
    fn ws(&mut self) {
        while self.i < self.b.len() && matches!(self.b[self.i], b' ' | b'\n' | b'\r' | b'\t') {
            self.i += 1;
        }
    }
    fn value(&mut self) -> Result<Json, String> {
        if self.i >= self.b.len() {
            return Err("unexpected end".into());
        }
        match self.b[self.i] {
            b'n' => self.lit("null", Json::Null),
            b't' => self.lit("true", Json::Bool(true)),
            b'f' => self.lit("false", Json::Bool(false)),
            b'"' => Ok(Json::Str(self.string()?)),
            b'[' => {
                self.i += 1;
                let mut v = Vec::new();
                self.ws();
                if self.peek() == Some(b']') {
                    self.i += 1;
                    return Ok(Json::Arr(v));
                }
                loop {
                    self.ws();
                    v.push(self.value()?);
                    self.ws();
                    match self.peek() {
                        Some(b',') => self.i += 1,
                        Some(b']') => {
                            self.i += 1;
                            return Ok(Json::Arr(v));
                        }
                        _ => return Err(format!("expected , or ] at byte {}", self.i)),
                    }
                }
            }
            b'{' => {
                self.i += 1;
                let mut v = Vec::new();
                self.ws();
                if self.peek() == Some(b'}') {
                    self.i += 1;
                    return Ok(Json::Obj(v));
                }
                loop {
                    self.ws();
                    let k = self.string()?;
                    self.ws();
                    if self.peek() != Some(b':') {
                        return Err(format!("expected : at byte {}", self.i));
                    }
                    self.i += 1;
                    self.ws();
                    let x = self.value()?;
                    v.push((k, x));
                    self.ws();
                    match self.peek() {
                        Some(b',') => self.i += 1,
                        Some(b'}') => {
                            self.i += 1;
                            return Ok(Json::Obj(v));
                        }
                        _ => return Err(format!("expected , or }} at byte {}", self.i)),
                    }
                }
            }
            _ => self.number(),
        }
    }
    fn peek(&self) -> Option<u8> {
        self.b.get(self.i).copied()
    }
    fn lit(&mut self, s: &str, v: Json) -> Result<Json, String> {
        if self.b[self.i..].starts_with(s.as_bytes()) {
            self.i += s.len();
            Ok(v)
        } else {
            Err(format!("bad literal at byte {}", self.i))
        }
    }
    fn number(&mut self) -> Result<Json, String> {
        let st = self.i;
        let mut float = false;
        while self.i < self.b.len() {
            match self.b[self.i] {
                b'0'..=b'9' | b'-' | b'+' => self.i += 1,
                b'.' | b'e' | b'E' => {
                    float = true;
                    self.i += 1
                }
                _ => break,
            }
        }
        let s = std::str::from_utf8(&self.b[st..self.i]).map_err(|e| e.to_string())?;
        if s.is_empty() {
            return Err(format!("unexpected byte at {}", st));
        }
        if float {
            s.parse::<f64>().map(Json::Float).map_err(|e| e.to_string())
        } else {
            s.parse::<i64>().map(Json::Int).map_err(|e| e.to_string())
        }
    }
    fn string(&mut self) -> Result<String, String> {
        if self.peek() != Some(b'"') {
            return Err(format!("expected string at byte {}", self.i));
        }
        self.i += 1;
        let mut out: Vec<u8> = Vec::new();
        while self.i < self.b.len() {
            let c = self.b[self.i];
            self.i += 1;
            match c {
                b'"' => return String::from_utf8(out).map_err(|e| e.to_string()),
                b'\\' => {
                    let e = *self.b.get(self.i).ok_or("bad escape")?;
                    self.i += 1;
                    match e {
                        b'n' => out.push(b'\n'),
                        b'r' => out.push(b'\r'),
                        b't' => out.push(b'\t'),
                        b'b' => out.push(8),
                        b'f' => out.push(12),
                        b'u' => {
                            let h = std::str::from_utf8(self.b.get(self.i..self.i + 4).ok_or("bad \\u")?)
                                .map_err(|e| e.to_string())?;
                            let cp = u32::from_str_radix(h, 16).map_err(|e| e.to_string())?;
                            self.i += 4;
                            let ch = char::from_u32(cp).unwrap_or('?');
                            let mut buf = [0u8; 4];
                            out.extend_from_slice(ch.encode_utf8(&mut buf).as_bytes());
                        }
                        other => out.push(other),
                    }
                }
                c => out.push(c),
            }
        }
        Err("unterminated string".into())
    }
}

#[cfg(test)]
mod tests {
    use super::*;
    #[test]
    fn roundtrip() {
        let j = jobj! {"a" => 1i64, "b" => jarr!["x", 2i64, true], "c" => jobj!{"d" => "q\"\n"}};
        let s = j.to_pretty();
        assert_eq!(Json::parse(&s).unwrap(), j);
        assert_eq!(Json::parse(&j.to_compact()).unwrap(), j);
    }
}
