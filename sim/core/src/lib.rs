//! Kernel shared by every tier of the simulator: PRNG, JSON traces, batch runner, shrinker,
//! violation classes, known-findings matcher, evidence writer.
//!
//! Contract: a run is a pure function of a case (trace) file; a case is a pure function of
//! VERIF_SEED and the code.

pub mod json;
pub mod rng;
pub mod runner;

pub use json::Json;
pub use rng::{derive_seed, fnv1a, LogHash, Rng};
pub use runner::*;
