//! Tier R — RIB histories against the real `table::Table`.
//!
//! Peers are event sources with per-peer FIFO merged by the seeded generator; session crash
//! (`drop`), graceful restart (`restale` + new session + `drop_stale`), LLGR (`restale_llgr`,
//! `drop_no_llgr`, `drop_llgr_stale`), next-hop flaps and deferral start/end are operations.
//! One executor, three oracles:
//!   C06  folding the change stream (plain and add-path consumers) reproduces the RIB; dest ids
//!   C15  counters / prefix-limit counter equal a recount; limits signalled
//!   C02  ranking is maximal under the stated decision order; content equals the model

use crate::vals::*;
use rustybgp_packet::bgp::Nexthop;
use rustybgp_packet::{Attribute, Family, Nlri};
use rustybgp_table as table;
use std::collections::{BTreeMap, BTreeSet};
use std::net::{IpAddr, Ipv4Addr, Ipv6Addr};
use std::sync::atomic::{AtomicU64, Ordering};
use std::sync::Arc;
use vcore::*;

pub struct RibHistories {
    pub prop: &'static str,
}

const FAMS: [Family; 3] = [Family::IPV4, Family::IPV6, Family::L2VPN_EVPN];

fn peer_addr(i: usize) -> IpAddr {
    ip4(10, 0, 0, i as u8 + 1)
}

fn role_of(i: u64) -> table::PeerRole {
    match i {
        0 => table::PeerRole::Ebgp,
        1 => table::PeerRole::Ibgp,
        2 => table::PeerRole::IbgpRrClient,
        3 => table::PeerRole::RsClient,
        _ => table::PeerRole::ConfedEbgp,
    }
}

fn prefix_nlri(fam: usize, idx: u64) -> Nlri {
    match fam {
        0 => Pfx::v4(0x0a01_0000 | ((idx as u32) << 8), 24).nlri(),
        1 => Pfx::v6((0x2001_0db8u128 << 96) | ((idx as u128) << 80), 48).nlri(),
        _ => Nlri::Evpn(rustybgp_packet::evpn::EvpnNlri::MacIpAdvertisement(rustybgp_packet::evpn::MacIpAdvertisement {
            rd: rustybgp_packet::rd::RouteDistinguisher::TwoOctetAs { admin: 65000, assigned: 1 },
            esi: rustybgp_packet::evpn::Esi::ZERO,
            etag: 0,
            mac: [0, 0, 0x5e, 0, 1, idx as u8],
            ip: None,
            label1: 100,
            label2: None,
        })),
    }
}

fn nexthop_of(fam: usize, idx: u64) -> Nexthop {
    if fam == 1 {
        Nexthop::V6(Ipv6Addr::new(0x2001, 0xdb8, 0xffff, 0, 0, 0, 0, idx as u16 + 1))
    } else {
        Nexthop::V4(Ipv4Addr::new(192, 0, 2, idx as u8 + 1))
    }
}

const LLGR_STALE: u32 = 0xffff_0006;
const NO_LLGR: u32 = 0xffff_0007;

/// Attribute description drawn by the generator (small colliding domains).
#[derive(Clone, Debug, PartialEq)]
struct ASpec {
    lp: i64,                  // -1 absent
    asp: Vec<(u8, u32, u32)>, // (segment type, count, asn)
    org: u8,
    oid: u32, // 0 absent
    cl: u32,
    com: u8,  // bit0 LLGR_STALE, bit1 NO_LLGR
    mm: i64,  // -1 absent (EVPN MAC mobility sequence)
}

impl ASpec {
    fn to_json(&self) -> Json {
        jobj! {
            "lp" => self.lp, "asp" => Json::Arr(self.asp.iter().map(|(t, n, a)| jarr![*t as u64, *n, *a]).collect()),
            "org" => self.org as u64, "oid" => self.oid, "cl" => self.cl, "com" => self.com as u64, "mm" => self.mm
        }
    }
    fn from_json(j: &Json) -> ASpec {
        ASpec {
            lp: j.i("lp", -1),
            asp: j.get("asp").map(|a| a.arr().iter().map(|s| (s.at(0).as_u8(), s.at(1).as_u32(), s.at(2).as_u32())).collect()).unwrap_or_default(),
            org: j.i("org", 0) as u8,
            oid: j.i("oid", 0) as u32,
            cl: j.i("cl", 0) as u32,
            com: j.i("com", 0) as u8,
            mm: j.i("mm", -1),
        }
    }
    fn build(&self) -> Arc<Vec<Attribute>> {
        let mut v = vec![attr_origin(self.org)];
        let segs: Vec<(u8, Vec<u32>)> = self.asp.iter().map(|(t, n, a)| (*t, vec![*a; *n as usize])).collect();
        v.push(attr_as_path(&segs));
        if self.lp >= 0 {
            v.push(attr_local_pref(self.lp as u32));
        }
        let mut com = Vec::new();
        if self.com & 1 != 0 {
            com.push(LLGR_STALE);
        }
        if self.com & 2 != 0 {
            com.push(NO_LLGR);
        }
        if !com.is_empty() {
            v.push(attr_communities(&com));
        }
        if self.oid != 0 {
            v.push(attr_originator(self.oid));
        }
        if self.cl > 0 {
            v.push(attr_cluster_list(&(0..self.cl).map(|i| 0x0a0a_0a00 + i).collect::<Vec<_>>()));
        }
        if self.mm >= 0 {
            let mut ec = vec![0x06, 0x00, 0x00, 0x00];
            ec.extend_from_slice(&(self.mm as u32).to_be_bytes());
            v.push(Attribute::new_with_bin(Attribute::EXTENDED_COMMUNITY, ec).unwrap());
        }
        Arc::new(v)
    }
}

fn gen_aspec(rng: &mut Rng, fam: usize, long_paths: bool) -> ASpec {
    let lp = *rng.pick(&[-1i64, -1, 50, 100, 100, 200]);
    let n_seg = rng.weighted(&[1, 6, 3, 1]);
    let mut asp = Vec::new();
    for _ in 0..n_seg {
        let t = *rng.pick(&[2u8, 2, 2, 1, 3, 4]);
        let n = if long_paths && rng.chance(1, 3) { *rng.pick(&[200u32, 255, 256, 300]) } else { rng.range(0, 3) as u32 };
        let n = if t == 1 || t == 4 { n.clamp(1, 3) } else { n };
        asp.push((t, n, *rng.pick(&[65001u32, 65002, 65010, 4_200_000_000])));
    }
    ASpec {
        lp,
        asp,
        org: rng.below(3) as u8,
        oid: if rng.chance(1, 4) { *rng.pick(&[0x0101_0101u32, 0x0202_0202, 0x0a00_0001]) } else { 0 },
        cl: if rng.chance(1, 4) { rng.range(1, 2) as u32 } else { 0 },
        com: *rng.pick(&[0u8, 0, 0, 0, 1, 2]),
        mm: if fam == 2 { *rng.pick(&[-1i64, -1, 0, 1, 2]) } else { -1 },
    }
}

// ---- model ------------------------------------------------------------------------------------

#[derive(Clone, Debug)]
struct MPath {
    peer: usize,
    pid: u32,
    generation: u32,
    spec: ASpec,
    nh: u64,
    filtered: bool,
}

#[derive(Default)]
struct Model {
    // (fam, prefix idx) -> paths
    rib: BTreeMap<(usize, u64), Vec<MPath>>,
    generation: BTreeMap<(usize, usize), u32>,
    stale: BTreeSet<(usize, usize, u32)>,
    llgr: BTreeSet<(usize, usize, u32)>,
    invalid_nh: BTreeSet<(usize, u64)>, // (fam-kind v6?, idx) -> we key by (fam==1, idx)
    deferring: BTreeSet<usize>,
    signalled: BTreeSet<(usize, usize, u32)>,
    /// sessions (peer, family, generation) that have issued at least one insert/remove
    active: BTreeSet<(usize, usize, u32)>,
    /// (peer, family) pairs whose history contains stale marking or a stale/LLGR purge
    cross: BTreeSet<(usize, usize)>,
}

impl Model {
    fn generation_of(&self, peer: usize, fam: usize) -> u32 {
        *self.generation.get(&(peer, fam)).unwrap_or(&0)
    }
    fn nh_invalid(&self, fam: usize, nh: u64) -> bool {
        self.invalid_nh.contains(&((fam == 1) as usize, nh))
    }
    fn eligible(&self, fam: usize, p: &MPath) -> bool {
        !p.filtered && !self.nh_invalid(fam, p.nh)
    }
    fn recount_prefixes(&self, peer: usize, fam: usize) -> u64 {
        self.rib.iter().filter(|((f, _), v)| *f == fam && v.iter().any(|p| p.peer == peer)).count() as u64
    }
}

// ---- reference decision order (from the statement of C02) ---------------------------------------

fn hop_count(attrs: &[Attribute]) -> usize {
    let Some(a) = attrs.iter().find(|a| a.code() == Attribute::AS_PATH) else {
        return 0;
    };
    let b = a.binary().map(|b| b.as_slice()).unwrap_or(&[]);
    let mut i = 0;
    let mut n = 0usize;
    while i + 2 <= b.len() {
        let (t, l) = (b[i], b[i + 1] as usize);
        match t {
            1 => n += 1,
            2 => n += l,
            _ => {}
        }
        i += 2 + 4 * l;
    }
    n
}

fn has_comm(attrs: &[Attribute], c: u32) -> bool {
    attrs
        .iter()
        .find(|a| a.code() == Attribute::COMMUNITY)
        .and_then(|a| a.binary())
        .is_some_and(|b| b.chunks(4).any(|x| x == c.to_be_bytes()))
}

#[derive(Clone, Debug, PartialEq, Eq, PartialOrd, Ord)]
struct RankKey {
    mm: (u8, std::cmp::Reverse<u32>), // EVPN type-2 only: (0 = has mobility, 1 = none), higher seq first
    llgr_stale: bool,
    lp: std::cmp::Reverse<u32>,
    hops: usize,
    origin: u8,
    not_ebgp: bool,
    gr_stale: bool,
    cluster: usize,
    rid: u32,
}

fn rank_key(p: &table::Path, evpn_t2: bool) -> RankKey {
    let attrs: &[Attribute] = &p.attr;
    let val = |code: u8| attrs.iter().find(|a| a.code() == code).and_then(|a| a.value());
    let mm = if evpn_t2 {
        match rustybgp_packet::evpn::mac_mobility(attrs) {
            Some((seq, _)) => (0u8, std::cmp::Reverse(seq)),
            None => (1u8, std::cmp::Reverse(0)),
        }
    } else {
        (0u8, std::cmp::Reverse(0))
    };
    RankKey {
        mm,
        llgr_stale: p.source.is_llgr_stale() || has_comm(attrs, LLGR_STALE),
        lp: std::cmp::Reverse(val(Attribute::LOCAL_PREF).unwrap_or(100)),
        hops: hop_count(attrs),
        origin: val(Attribute::ORIGIN).map(|v| v as u8).unwrap_or(2),
        not_ebgp: !matches!(p.source.role, table::PeerRole::Ebgp | table::PeerRole::RsClient),
        gr_stale: p.source.is_stale(),
        cluster: attrs.iter().find(|a| a.code() == Attribute::CLUSTER_LIST).and_then(|a| a.binary()).map(|b| b.len() / 4).unwrap_or(0),
        rid: val(Attribute::ORIGINATOR_ID).unwrap_or(p.source.router_id),
    }
}

/// Which decision step first separates two keys (for the violation class).
fn first_diff(a: &RankKey, b: &RankKey) -> &'static str {
    if a.mm != b.mm {
        "mac-mobility"
    } else if a.llgr_stale != b.llgr_stale {
        "llgr-stale"
    } else if a.lp != b.lp {
        "local-pref"
    } else if a.hops != b.hops {
        "as-path-length"
    } else if a.origin != b.origin {
        "origin"
    } else if a.not_ebgp != b.not_ebgp {
        "ebgp-over-ibgp"
    } else if a.gr_stale != b.gr_stale {
        "gr-stale"
    } else if a.cluster != b.cluster {
        "cluster-list"
    } else {
        "router-id"
    }
}

// ---- consumers (C06) --------------------------------------------------------------------------

type PathId = (usize, u32, Vec<Attribute>, Option<Nexthop>); // (source ptr, local path id, attrs, nexthop)

fn path_id(p: &table::Path) -> PathId {
    (Arc::as_ptr(&p.source) as usize, p.local_path_id, (*p.attr).clone(), p.nexthop)
}

#[derive(Default)]
struct Consumers {
    plain: BTreeMap<(usize, String), PathId>,
    addpath: BTreeMap<(usize, String), Vec<PathId>>,
    dest_id: BTreeMap<(usize, String), u32>,
}

fn net_key(n: &Nlri) -> String {
    format!("{:?}", n)
}

// ---------------------------------------------------------------------------------------------

struct World {
    t: table::Table,
    peers: Vec<(table::PeerRole, u32, u32)>,
    sources: BTreeMap<(usize, usize, u32), Arc<table::Source>>,
    counters: BTreeMap<(usize, usize, u32), Arc<AtomicU64>>,
    limits: BTreeMap<(usize, usize), u32>,
}

impl World {
    fn source(&mut self, peer: usize, fam: usize, generation: u32) -> Arc<table::Source> {
        let (role, asn, rid) = self.peers[peer];
        self.sources
            .entry((peer, fam, generation))
            .or_insert_with(|| {
                let local_asn = if matches!(role, table::PeerRole::Ibgp | table::PeerRole::IbgpRrClient) { asn } else { 65000 };
                Arc::new(table::Source::new(peer_addr(peer), ip4(10, 0, 0, 254), asn, local_asn, Ipv4Addr::from(rid), role))
            })
            .clone()
    }
    fn counter(&mut self, peer: usize, fam: usize, generation: u32) -> Option<(u32, Arc<AtomicU64>)> {
        let max = *self.limits.get(&(peer, fam))?;
        Some((max, self.counters.entry((peer, fam, generation)).or_insert_with(|| Arc::new(AtomicU64::new(0))).clone()))
    }
}

impl Check for RibHistories {
    fn property(&self) -> &'static str {
        self.prop
    }
    fn tier(&self) -> &'static str {
        "R"
    }
    fn name(&self) -> &'static str {
        "rib-histories"
    }

    fn generate(&self, seed: u64, thorough: bool) -> Json {
        let mut rng = Rng::new(seed);
        // swarm: a third of the runs is "tie-heavy": few prefixes, peers of one role with distinct
        // router ids, and one attribute set per prefix reused by most inserts, so that paths tie down
        // to the last steps of the decision process and positions inside the list matter
        let tie_heavy = rng.chance(1, 3);
        let n_peers = if tie_heavy { rng.range(3, 4) as usize } else { rng.range(2, 4) as usize };
        let n_pfx = if tie_heavy { rng.range(1, 2) } else { rng.range(2, if thorough { 8 } else { 5 }) };
        let n_nh = rng.range(1, 3);
        let fams: Vec<usize> = match rng.below(4) {
            0 => vec![0],
            1 => vec![0, 1],
            2 => vec![0, 2],
            _ => vec![0, 1, 2],
        };
        let long_paths = rng.chance(1, 8);
        // swarm: which op kinds are enabled in this run
        let en_filter = rng.chance(2, 3);
        let en_nh = rng.chance(1, 2);
        let en_gr = rng.chance(2, 3);
        let en_llgr = en_gr && rng.chance(1, 2);
        let en_addpath = rng.chance(1, 2);
        let en_limit = rng.chance(1, 3);
        let en_defer = rng.chance(1, 5);
        let peers: Vec<Json> = (0..n_peers)
            .map(|i| {
                let role = if tie_heavy { 0 } else { rng.below(5) };
                let asn = if role == 1 || role == 2 { 65000u64 } else { 65001 + i as u64 };
                let rid = if tie_heavy { 0x0101_0101u64 * (i as u64 + 1) } else { *rng.pick(&[0x0101_0101u64, 0x0202_0202, 0x0303_0303, 0x0101_0101 + i as u64]) };
                jarr![role, asn, rid]
            })
            .collect();
        let mut limits = Vec::new();
        if en_limit {
            for p in 0..n_peers {
                for f in &fams {
                    if rng.chance(1, 2) {
                        limits.push(jarr![p, *f, rng.range(0, 3)]);
                    }
                }
            }
        }
        let defer: Vec<Json> = if en_defer { fams.iter().filter(|_| rng.coin()).map(|f| Json::from(*f)).collect() } else { vec![] };
        let n_ops = rng.range(3, if thorough { 70 } else { 40 });
        let mut ops = Vec::new();
        let mut base_specs: std::collections::BTreeMap<(usize, u64), Json> = std::collections::BTreeMap::new();
        let w = [
            40,                              // ins
            12,                              // rm
            4,                               // drop
            if en_gr { 5 } else { 0 },       // restale
            if en_gr { 4 } else { 0 },       // drop_stale
            if en_llgr { 3 } else { 0 },     // restale_llgr (+drop_no_llgr)
            0,                               // drop_no_llgr alone: not reachable in the daemon (always paired with restale_llgr while the peer is down)
            if en_llgr { 3 } else { 0 },     // drop_llgr_stale
            if en_nh { 8 } else { 0 },       // nh flip
            if !defer.is_empty() { 3 } else { 0 }, // end_deferral
        ];
        for _ in 0..n_ops {
            let peer = rng.usize_below(n_peers);
            let fam = *rng.pick(&fams);
            match rng.weighted(&w) {
                0 => {
                    let pid = if en_addpath { rng.below(3) } else { 0 };
                    let pfx = rng.below(n_pfx);
                    let fresh = gen_aspec(&mut rng, fam, long_paths).to_json();
                    let spec = if tie_heavy {
                        let base = base_specs.entry((fam, pfx)).or_insert(fresh.clone()).clone();
                        if rng.chance(4, 5) { base } else { fresh }
                    } else {
                        fresh
                    };
                    let filtered = en_filter && rng.chance(1, 5);
                    ops.push(jarr!["ins", peer, fam, pfx, pid, rng.below(n_nh), spec, filtered]);
                }
                1 => ops.push(jarr!["rm", peer, fam, rng.below(n_pfx), if en_addpath { rng.below(3) } else { 0 }]),
                2 => ops.push(jarr!["drop", peer, fam]),
                3 => ops.push(jarr!["restale", peer, fam]),
                4 => ops.push(jarr!["drop_stale", peer, fam]),
                5 => {
                    ops.push(jarr!["restale_llgr", peer, fam]);
                    ops.push(jarr!["drop_no_llgr", peer, fam]);
                }
                6 => ops.push(jarr!["drop_no_llgr", peer, fam]),
                7 => ops.push(jarr!["drop_llgr_stale", peer, fam]),
                8 => ops.push(jarr!["nh", (fam == 1) as u64, rng.below(n_nh), rng.coin()]),
                _ => ops.push(jarr!["end_deferral", fam]),
            }
        }
        jobj! {"peers" => Json::Arr(peers), "limits" => Json::Arr(limits), "defer" => Json::Arr(defer), "ops" => Json::Arr(ops)}
    }

    fn execute(&self, case: &Json, tol: &Tolerate) -> Outcome {
        let prop = self.prop;
        let mut out = Outcome::default();
        let mut log = LogHash::default();
        let mut sig = LogHash::default();
        let peers: Vec<(table::PeerRole, u32, u32)> =
            case.get("peers").map(|p| p.arr().iter().map(|x| (role_of(x.at(0).as_u64()), x.at(1).as_u32(), x.at(2).as_u32())).collect()).unwrap_or_default();
        if peers.is_empty() {
            return out;
        }
        let mut w = World { t: table::Table::new(0), peers, sources: BTreeMap::new(), counters: BTreeMap::new(), limits: BTreeMap::new() };
        for l in case.get("limits").map(|l| l.arr()).unwrap_or(&[]) {
            w.limits.insert((l.at(0).as_usize() % w.peers.len(), l.at(1).as_usize() % 3, ), l.at(2).as_u32());
        }
        let mut m = Model::default();
        let mut cons = Consumers::default();
        for f in case.get("defer").map(|l| l.arr()).unwrap_or(&[]) {
            let f = f.as_usize() % 3;
            w.t.start_deferral(FAMS[f]);
            m.deferring.insert(f);
        }
        let np = w.peers.len();

        'ops: for (opi, op) in case.get("ops").map(|o| o.arr()).unwrap_or(&[]).iter().enumerate() {
            let tag = op.at(0).as_str().to_string();
            out.steps += 1;
            log.add_str(&tag);
            let mut changes: Vec<table::NlriChange> = Vec::new();
            let mut touched_fams: BTreeSet<usize> = BTreeSet::new();
            macro_rules! fail {
                ($class:expr, $($arg:tt)*) => {{
                    let v = Violation::new(format!("{}/{}", prop, $class), format!("op {} {}: {}", opi, op.to_compact(), format!($($arg)*)));
                    if out.violate(tol, v) { break 'ops; }
                }};
            }
            match tag.as_str() {
                "ins" => {
                    let (peer, fam, pfx, pid, nh) = (op.at(1).as_usize() % np, op.at(2).as_usize() % 3, op.at(3).as_u64(), op.at(4).as_u32(), op.at(5).as_u64());
                    let spec = ASpec::from_json(op.at(6));
                    let filtered = op.at(7).as_bool();
                    let generation = m.generation_of(peer, fam);
                    m.active.insert((peer, fam, generation));
                    let src = w.source(peer, fam, generation);
                    let lim = w.counter(peer, fam, generation);
                    let limref = lim.as_ref().map(|(mx, c)| (*mx, c));
                    let invalid = m.nh_invalid(fam, nh);
                    touched_fams.insert(fam);
                    let res = w.t.insert(src, FAMS[fam], prefix_nlri(fam, pfx), pid, Some(nexthop_of(fam, nh)), spec.build(), None, filtered, invalid, limref, 0);
                    match res {
                        table::InsertResult::PrefixLimitExceeded => {
                            out.hit("probe.prefix-limit-exceeded");
                            out.nontrivial = true;
                            m.signalled.insert((peer, fam, generation));
                            if !m.rib.contains_key(&(fam, pfx)) {
                                out.hit("probe.limit-exceeded-on-brand-new-prefix");
                            }
                            // the daemon answers with Cease/max-prefix and tears the session down
                            let (ch, _) = w.t.drop(peer_addr(peer), FAMS[fam]);
                            changes.extend(ch);
                            for ((f, _), v) in m.rib.iter_mut() {
                                if *f == fam {
                                    v.retain(|p| p.peer != peer);
                                }
                            }
                            m.rib.retain(|_, v| !v.is_empty());
                            // (paths of the peer in other families stay: per-family op)
                            *m.generation.entry((peer, fam)).or_insert(0) += 1;
                        }
                        r => {
                            if let table::InsertResult::Changed(c) = r {
                                changes.push(c);
                            }
                            let e = m.rib.entry((fam, pfx)).or_default();
                            if let Some(x) = e.iter_mut().find(|x| x.peer == peer && x.pid == pid) {
                                if m.stale.contains(&(peer, fam, x.generation)) {
                                    out.hit("probe.fresh-path-replaced-stale-one");
                                }
                                *x = MPath { peer, pid, generation, spec, nh, filtered };
                            } else {
                                e.push(MPath { peer, pid, generation, spec, nh, filtered });
                            }
                            out.hit("op.insert");
                        }
                    }
                }
                "rm" => {
                    let (peer, fam, pfx, pid) = (op.at(1).as_usize() % np, op.at(2).as_usize() % 3, op.at(3).as_u64(), op.at(4).as_u32());
                    let generation = m.generation_of(peer, fam);
                    m.active.insert((peer, fam, generation));
                    let src = w.source(peer, fam, generation);
                    let lim = w.counter(peer, fam, generation);
                    touched_fams.insert(fam);
                    let (c, _) = w.t.remove(src, FAMS[fam], prefix_nlri(fam, pfx), pid, lim.as_ref().map(|(_, c)| c));
                    changes.extend(c);
                    if let Some(e) = m.rib.get_mut(&(fam, pfx)) {
                        if let Some(i) = e.iter().position(|x| x.peer == peer && x.pid == pid) {
                            if e[i].generation != generation {
                                out.hit("probe.new-session-withdrew-stale-path");
                            }
                            e.remove(i);
                            out.hit("op.remove.existing");
                        }
                        if e.is_empty() {
                            m.rib.remove(&(fam, pfx));
                            out.hit("probe.destination-freed");
                        }
                    }
                }
                "drop" => {
                    let (peer, fam) = (op.at(1).as_usize() % np, op.at(2).as_usize() % 3);
                    touched_fams.insert(fam);
                    let (ch, _) = w.t.drop(peer_addr(peer), FAMS[fam]);
                    changes.extend(ch);
                    for ((f, _), v) in m.rib.iter_mut() {
                        if *f == fam {
                            v.retain(|p| p.peer != peer);
                        }
                    }
                    m.rib.retain(|_, v| !v.is_empty());
                    *m.generation.entry((peer, fam)).or_insert(0) += 1;
                    out.hit("fault.session-crash(drop)");
                }
                "restale" => {
                    let (peer, fam) = (op.at(1).as_usize() % np, op.at(2).as_usize() % 3);
                    m.cross.insert((peer, fam));
                    touched_fams.insert(fam);
                    changes.extend(w.t.restale(peer_addr(peer), FAMS[fam]));
                    // every Source of that peer with a path in this family is marked
                    for ((f, _), v) in m.rib.iter() {
                        if *f == fam {
                            for p in v.iter().filter(|p| p.peer == peer) {
                                m.stale.insert((peer, fam, p.generation));
                            }
                        }
                    }
                    *m.generation.entry((peer, fam)).or_insert(0) += 1;
                    out.hit("fault.graceful-restart(restale)");
                }
                "drop_stale" => {
                    let (peer, fam) = (op.at(1).as_usize() % np, op.at(2).as_usize() % 3);
                    m.cross.insert((peer, fam));
                    touched_fams.insert(fam);
                    let generation = m.generation_of(peer, fam);
                    let lim = w.counter(peer, fam, generation);
                    let _ = lim; // the daemon passes no counter to drop_stale (table_manager.rs drop_stale)
                    let (ch, _) = w.t.drop_stale(peer_addr(peer), FAMS[fam], None);
                    changes.extend(ch);
                    let stale = m.stale.clone();
                    let mut removed = 0;
                    for ((f, _), v) in m.rib.iter_mut() {
                        if *f == fam {
                            let before = v.len();
                            v.retain(|p| !(p.peer == peer && stale.contains(&(peer, fam, p.generation))));
                            removed += before - v.len();
                        }
                    }
                    m.rib.retain(|_, v| !v.is_empty());
                    if removed > 0 {
                        out.hit("probe.stale-purge-removed-paths");
                    }
                }
                "restale_llgr" => {
                    let (peer, fam) = (op.at(1).as_usize() % np, op.at(2).as_usize() % 3);
                    m.cross.insert((peer, fam));
                    touched_fams.insert(fam);
                    changes.extend(w.t.restale_llgr(peer_addr(peer), FAMS[fam]));
                    for ((f, _), v) in m.rib.iter() {
                        if *f == fam {
                            for p in v.iter().filter(|p| p.peer == peer) {
                                m.llgr.insert((peer, fam, p.generation));
                            }
                        }
                    }
                    *m.generation.entry((peer, fam)).or_insert(0) += 1;
                    out.hit("fault.llgr-period-start(restale_llgr)");
                }
                "drop_no_llgr" => {
                    let (peer, fam) = (op.at(1).as_usize() % np, op.at(2).as_usize() % 3);
                    m.cross.insert((peer, fam));
                    touched_fams.insert(fam);
                    let (ch, _) = w.t.drop_no_llgr(peer_addr(peer), FAMS[fam], None);
                    changes.extend(ch);
                    for ((f, _), v) in m.rib.iter_mut() {
                        if *f == fam {
                            v.retain(|p| !(p.peer == peer && p.spec.com & 2 != 0));
                        }
                    }
                    m.rib.retain(|_, v| !v.is_empty());
                }
                "drop_llgr_stale" => {
                    let (peer, fam) = (op.at(1).as_usize() % np, op.at(2).as_usize() % 3);
                    m.cross.insert((peer, fam));
                    touched_fams.insert(fam);
                    let (ch, _) = w.t.drop_llgr_stale(peer_addr(peer), FAMS[fam], None);
                    changes.extend(ch);
                    let llgr = m.llgr.clone();
                    for ((f, _), v) in m.rib.iter_mut() {
                        if *f == fam {
                            v.retain(|p| !(p.peer == peer && llgr.contains(&(peer, fam, p.generation))));
                        }
                    }
                    m.rib.retain(|_, v| !v.is_empty());
                }
                "nh" => {
                    let (v6, idx, reachable) = (op.at(1).as_usize() & 1, op.at(2).as_u64(), op.at(3).as_bool());
                    let addr = nexthop_of(v6, idx).addr();
                    changes.extend(w.t.update_nexthop_validity(addr, reachable));
                    if reachable {
                        m.invalid_nh.remove(&(v6, idx));
                    } else {
                        m.invalid_nh.insert((v6, idx));
                    }
                    touched_fams.extend([0, 1, 2]);
                    out.hit("fault.nexthop-flap");
                }
                "end_deferral" => {
                    let fam = op.at(1).as_usize() % 3;
                    touched_fams.insert(fam);
                    let was = m.deferring.remove(&fam);
                    let ch = w.t.end_deferral(FAMS[fam]);
                    if was {
                        out.hit("probe.deferral-ended");
                        out.nontrivial = true;
                        if prop == "C06" {
                            // exactly one notification per prefix that has an eligible path, none for others
                            let mut seen: BTreeMap<String, u32> = BTreeMap::new();
                            for c in &ch {
                                *seen.entry(net_key(&c.net)).or_insert(0) += 1;
                            }
                            let expect: BTreeSet<String> = m
                                .rib
                                .iter()
                                .filter(|((f, _), v)| *f == fam && v.iter().any(|p| m.eligible(fam, p)))
                                .map(|((f, i), _)| net_key(&prefix_nlri(*f, *i)))
                                .collect();
                            let got: BTreeSet<String> = seen.keys().cloned().collect();
                            if seen.values().any(|n| *n != 1) {
                                fail!("deferral/prefix-announced-more-than-once", "{:?}", seen);
                            }
                            if got != expect {
                                fail!("deferral/held-back-prefix-not-announced", "expected {:?} got {:?}", expect, got);
                            }
                        }
                    }
                    changes.extend(ch);
                }
                _ => {}
            }

            // ---- feed consumers -----------------------------------------------------------------
            for c in &changes {
                let fam = FAMS.iter().position(|f| *f == c.family).unwrap_or(0);
                let k = (fam, net_key(&c.net));
                log.add_str(&k.1);
                log.add_u64(c.best_changed as u64 + 2 * c.any_changed as u64);
                log.add_u64(c.current_paths.len() as u64);
                sig.add_u64(c.best_changed as u64 + 2 * c.any_changed as u64 + 4 * (c.current_paths.len() as u64).min(3));
                if c.best_changed {
                    match c.new_best() {
                        Some(p) => {
                            cons.plain.insert(k.clone(), path_id(p));
                        }
                        None => {
                            cons.plain.remove(&k);
                        }
                    }
                }
                if c.any_changed {
                    if c.current_paths.is_empty() {
                        cons.addpath.remove(&k);
                    } else {
                        cons.addpath.insert(k.clone(), c.current_paths.iter().map(path_id).collect());
                    }
                }
                if !c.best_changed && c.any_changed {
                    out.hit("probe.any-changed-without-best-changed");
                }
                // dest ids
                if prop == "C06" {
                    if let Some(old) = cons.dest_id.get(&k) {
                        if *old != c.dest_id {
                            // allowed only if the destination died in between (tracked below)
                            fail!("dest-id/changed-while-prefix-alive", "{} had id {} now {}", k.1, old, c.dest_id);
                        }
                    }
                    cons.dest_id.insert(k.clone(), c.dest_id);
                }
            }
            // forget ids of destinations that no longer exist
            {
                let live: BTreeSet<(usize, String)> = m.rib.keys().map(|(f, i)| (*f, net_key(&prefix_nlri(*f, *i)))).collect();
                let before = cons.dest_id.len();
                cons.dest_id.retain(|k, _| live.contains(k));
                if cons.dest_id.len() < before {
                    out.hit("probe.dest-id-released");
                }
            }

            // ---- oracles ------------------------------------------------------------------------
            for fam in 0..3 {
                let family = FAMS[fam];
                let loc = w.t.collect_loc_rib_paths(&family);
                let all: Vec<table::DestinationEntry> = w.t.destinations(table::TableQuery::Global, family, vec![], true).collect();

                if prop == "C06" && !m.deferring.contains(&fam) {
                    let mut ids: BTreeMap<u32, String> = BTreeMap::new();
                    let mut seen_plain: BTreeSet<(usize, String)> = BTreeSet::new();
                    for c in &loc {
                        let k = (fam, net_key(&c.net));
                        if let Some(prev) = ids.insert(c.dest_id, k.1.clone()) {
                            fail!("dest-id/two-live-prefixes-share-an-id", "{} and {} both have id {}", prev, k.1, c.dest_id);
                        }
                        let want: Vec<PathId> = c.current_paths.iter().map(path_id).collect();
                        seen_plain.insert(k.clone());
                        match cons.plain.get(&k) {
                            Some(b) if Some(b) == want.first() => {}
                            other => {
                                let why = if other.is_none() { "consumer-has-no-best" } else { "consumer-has-wrong-best" };
                                out.nontrivial = true;
                                fail!(format!("fold/plain/{}/after-{}", why, tag), "prefix {}: RIB best {:?} consumer {:?}", k.1, want.first().map(|p| (p.0, p.1)), other.map(|p| (p.0, p.1)));
                                match want.first() {
                                    Some(b) => cons.plain.insert(k.clone(), b.clone()),
                                    None => cons.plain.remove(&k),
                                };
                            }
                        }
                        match cons.addpath.get(&k) {
                            Some(l) if *l == want => {}
                            other => {
                                out.nontrivial = true;
                                fail!(format!("fold/addpath/list-differs/after-{}", tag), "prefix {}: RIB list {:?} consumer {:?}", k.1,
                                    want.iter().map(|p| (p.0, p.1)).collect::<Vec<_>>(), other.map(|l| l.iter().map(|p| (p.0, p.1)).collect::<Vec<_>>()));
                                cons.addpath.insert(k.clone(), want.clone());
                            }
                        }
                    }
                    // consumer must not hold prefixes the RIB no longer exports
                    let stale_plain: Vec<(usize, String)> = cons.plain.keys().filter(|k| k.0 == fam && !seen_plain.contains(*k)).cloned().collect();
                    for k in stale_plain {
                        out.nontrivial = true;
                        fail!(format!("fold/plain/consumer-keeps-withdrawn-prefix/after-{}", tag), "prefix {} has no eligible path in the RIB", k.1);
                        cons.plain.remove(&k);
                    }
                    let stale_ap: Vec<(usize, String)> = cons.addpath.keys().filter(|k| k.0 == fam && !seen_plain.contains(*k)).cloned().collect();
                    for k in stale_ap {
                        out.nontrivial = true;
                        fail!(format!("fold/addpath/consumer-keeps-withdrawn-prefix/after-{}", tag), "prefix {} has no eligible path in the RIB", k.1);
                        cons.addpath.remove(&k);
                    }
                }

                if prop == "C15" {
                    let st = w.t.state(family);
                    let n_dest = all.len();
                    let n_path: usize = all.iter().map(|d| d.paths.len()).sum();
                    let n_acc: usize = all.iter().map(|d| d.paths.iter().filter(|p| !p.filtered).count()).sum();
                    if st.num_destination != n_dest {
                        out.nontrivial = true;
                        fail!("state/num-destination-differs-from-recount", "state {} recount {} (family {})", st.num_destination, n_dest, fam);
                    }
                    if st.num_path != n_path || st.num_accepted != n_acc {
                        fail!("state/path-counts-differ-from-recount", "state paths {} accepted {} recount {} {}", st.num_path, st.num_accepted, n_path, n_acc);
                    }
                    for peer in 0..np {
                        let addr = peer_addr(peer);
                        let recv = all.iter().filter(|d| d.paths.iter().any(|p| p.source.remote_addr == addr)).count() as u64;
                        let acc_paths = all.iter().map(|d| d.paths.iter().filter(|p| p.source.remote_addr == addr && !p.filtered).count()).sum::<usize>() as u64;
                        let acc_pfx = all.iter().filter(|d| d.paths.iter().any(|p| p.source.remote_addr == addr && !p.filtered)).count() as u64;
                        let s = w.t.peer_stats(&addr).and_then(|mut it| it.find(|(f, _)| *f == family).map(|(_, s)| s.clone())).unwrap_or_default();
                        if s.received > (1 << 62) || s.accepted > (1 << 62) {
                            fail!("peer-stats/underflow", "peer {} family {} received {} accepted {}", peer, fam, s.received, s.accepted);
                        } else if s.received != recv {
                            out.nontrivial = true;
                            fail!(format!("peer-stats/received-differs-from-recount/after-{}", tag), "peer {} family {}: counter {} recount {}", peer, fam, s.received, recv);
                        } else if s.accepted != acc_paths && s.accepted != acc_pfx {
                            out.nontrivial = true;
                            fail!(format!("peer-stats/accepted-differs-from-recount/after-{}", tag), "peer {} family {}: counter {} recount {} paths / {} prefixes", peer, fam, s.accepted, acc_paths, acc_pfx);
                        }
                        // per-session prefix-limit counter
                        let generation = m.generation_of(peer, fam);
                        if let Some(max) = w.limits.get(&(peer, fam)).copied().filter(|_| m.active.contains(&(peer, fam, generation))) {
                            // the counter belongs to the session: recount the prefixes this session announced
                            let recv = m.rib.iter().filter(|((f, _), v)| *f == fam && v.iter().any(|p| p.peer == peer && p.generation == generation)).count() as u64;
                            let ctr = w.counters.get(&(peer, fam, generation)).cloned();
                            let cnt = ctr.as_ref().map(|c| c.load(Ordering::Relaxed)).unwrap_or(0);
                            // cause tag: does this peer/family carry routes or purges from an earlier session?
                            let cause = if m.cross.contains(&(peer, fam)) { "cross-session" } else { "same-session" };
                            if cnt > (1 << 62) {
                                out.nontrivial = true;
                                fail!(format!("limit-counter/underflow/{}", cause), "after {}: peer {} family {}: counter {}", tag, peer, fam, cnt);
                            } else if cnt != recv {
                                out.nontrivial = true;
                                fail!(format!("limit-counter/differs-from-recount/{}", cause), "after {}: peer {} family {}: counter {} recount {}", tag, peer, fam, cnt, recv);
                            }
                            if recv > max as u64 && !m.signalled.contains(&(peer, fam, generation)) {
                                out.nontrivial = true;
                                fail!(format!("limit/exceeded-without-signal/{}", cause), "peer {} family {}: {} prefixes, max {}", peer, fam, recv, max);
                                m.signalled.insert((peer, fam, generation));
                            }
                            // tolerated: resynchronise the real counter so that the search continues
                            if let Some(c) = ctr {
                                if c.load(Ordering::Relaxed) != recv {
                                    c.store(recv, Ordering::Relaxed);
                                }
                            }
                        }
                    }
                }

                if prop == "C02" {
                    // content: RIB == model
                    let mut model_paths: BTreeMap<String, Vec<(IpAddr, u32, bool, bool)>> = BTreeMap::new();
                    for ((f, i), v) in m.rib.iter().filter(|((f, _), _)| *f == fam) {
                        let mut l: Vec<_> = v.iter().map(|p| (peer_addr(p.peer), p.pid, p.filtered, m.stale.contains(&(p.peer, fam, p.generation)))).collect();
                        l.sort();
                        model_paths.insert(net_key(&prefix_nlri(*f, *i)), l);
                    }
                    let mut rib_paths: BTreeMap<String, Vec<(IpAddr, u32, bool, bool)>> = BTreeMap::new();
                    for d in &all {
                        let mut l: Vec<_> = d.paths.iter().map(|p| (p.source.remote_addr, p.remote_path_id, p.filtered, p.stale)).collect();
                        l.sort();
                        rib_paths.insert(net_key(&d.net), l);
                    }
                    if model_paths != rib_paths {
                        fail!(format!("content/rib-differs-from-model/after-{}", tag), "family {}: model {:?} rib {:?}", fam, model_paths, rib_paths);
                        break 'ops;
                    }
                    // eligibility + ranking
                    let loc_map: BTreeMap<String, &table::NlriChange> = loc.iter().map(|c| (net_key(&c.net), c)).collect();
                    for ((f, i), v) in m.rib.iter().filter(|((f, _), _)| *f == fam) {
                        let k = net_key(&prefix_nlri(*f, *i));
                        let evpn = fam == 2;
                        let want_n = v.iter().filter(|p| m.eligible(fam, p)).count();
                        let got: &[table::Path] = loc_map.get(&k).map(|c| c.current_paths.as_slice()).unwrap_or(&[]);
                        if got.len() != want_n {
                            out.nontrivial = true;
                            fail!(format!("eligible/count-differs/after-{}", tag), "prefix {}: {} eligible by model, {} listed", k, want_n, got.len());
                            continue;
                        }
                        for p in got {
                            let nh_bad = p.nexthop.map(|n| {
                                let a = n.addr();
                                (0..4).any(|x| nexthop_of(fam, x).addr() == a && m.nh_invalid(fam, x))
                            }).unwrap_or(false);
                            if nh_bad {
                                fail!("eligible/unreachable-nexthop-listed", "prefix {}", k);
                            }
                        }
                        if got.len() > 1 {
                            out.nontrivial = true;
                        }
                        let keys: Vec<RankKey> = got.iter().map(|p| rank_key(p, evpn)).collect();
                        for x in 1..keys.len() {
                            if keys[x - 1] > keys[x] {
                                let step = first_diff(&keys[x - 1], &keys[x]);
                                let pos = if x == 1 { "best" } else { "rank" };
                                fail!(format!("order/{}-beaten-on-{}", pos, step), "prefix {} after {}: entry {} {:?} is beaten by entry {} {:?}", k, tag, x - 1, keys[x - 1], x, keys[x]);
                                break;
                            }
                        }
                        for x in 1..keys.len() {
                            sig.add_str(first_diff(&keys[x - 1], &keys[x]));
                        }
                        // limited list is a prefix of the ranking
                        if got.len() >= 2 {
                            let lim = w.t.collect_loc_rib_paths_limited(&family, got.len() - 1);
                            if let Some(c) = lim.iter().find(|c| net_key(&c.net) == k) {
                                let a: Vec<PathId> = c.current_paths.iter().map(path_id).collect();
                                let b: Vec<PathId> = got[..got.len() - 1].iter().map(path_id).collect();
                                if a != b {
                                    fail!("order/limited-list-not-a-prefix", "prefix {}", k);
                                }
                            }
                        }
                        // ECMP set = leading run equal on every step before router-id (reference order)
                        if let Some(c) = loc_map.get(&k) {
                            let ecmp = c.ecmp_paths();
                            let mut want = 0;
                            for kk in &keys {
                                let mut a = kk.clone();
                                a.rid = 0;
                                let mut b = keys[0].clone();
                                b.rid = 0;
                                if a == b {
                                    want += 1;
                                } else {
                                    break;
                                }
                            }
                            // for EVPN type-2 the statement only requires the ECMP list to be a prefix of the ranking
                            if evpn {
                                let a: Vec<PathId> = ecmp.iter().map(|p| path_id(p)).collect();
                                let b: Vec<PathId> = got[..ecmp.len().min(got.len())].iter().map(path_id).collect();
                                if a != b {
                                    fail!("ecmp/not-a-prefix-of-ranking", "prefix {}", k);
                                }
                            } else if ecmp.len() != want {
                                let step = if want < keys.len() && ecmp.len() > want { first_diff(&keys[0], &keys[want]) } else { "shorter" };
                                fail!(format!("ecmp/run-differs-on-{}", step), "prefix {}: ecmp_paths has {} entries, reference leading run has {}", k, ecmp.len(), want);
                            } else if want > 1 {
                                out.hit("probe.ecmp-run-longer-than-one");
                            }
                        }
                    }
                }
            }
            let _ = touched_fams;
            if m.rib.values().any(|v| v.len() >= 2) {
                out.nontrivial = true;
            }
        }
        out.signature = sig.0;
        out.log_hash = log.0;
        out
    }

    fn simplify(&self, case: &Json) -> Vec<Json> {
        let mut out = Vec::new();
        // drop limits / deferral
        for key in ["limits", "defer"] {
            if case.get(key).map(|l| !l.arr().is_empty()).unwrap_or(false) {
                let mut c = case.clone();
                c.set(key, Json::Arr(vec![]));
                out.push(c);
            }
        }
        // simplify attribute specs of inserts one at a time
        let ops = case.get("ops").map(|o| o.arr().to_vec()).unwrap_or_default();
        let plain = ASpec { lp: -1, asp: vec![], org: 0, oid: 0, cl: 0, com: 0, mm: -1 };
        for (i, op) in ops.iter().enumerate() {
            if op.at(0).as_str() == "ins" {
                let spec = ASpec::from_json(op.at(6));
                let mut cands = Vec::new();
                if spec != plain {
                    cands.push(plain.clone());
                }
                for field in 0..6 {
                    let mut s = spec.clone();
                    match field {
                        0 => s.lp = -1,
                        1 => s.asp = vec![],
                        2 => s.org = 0,
                        3 => s.oid = 0,
                        4 => s.cl = 0,
                        _ => s.com = 0,
                    }
                    if s != spec {
                        cands.push(s);
                    }
                }
                for s in cands {
                    let mut o = op.arr().to_vec();
                    o[6] = s.to_json();
                    let mut nops = ops.clone();
                    nops[i] = Json::Arr(o);
                    let mut c = case.clone();
                    c.set("ops", Json::Arr(nops));
                    out.push(c);
                }
            }
        }
        out
    }

    fn info(&self) -> CheckInfo {
        let rule = match self.prop {
            "C06" => "histories over 2-8 prefixes x 1-3 families, 2-4 peers (incl. restarted sessions of one peer: new Source, same address), path ids 0-2; ops insert/replace/remove/drop/restale/drop_stale/restale_llgr/drop_no_llgr/drop_llgr_stale/next-hop flip/end-deferral drawn by a seeded merge; oracle after every op: plain consumer (applies only best_changed) and add-path consumer (applies only any_changed) equal collect_loc_rib_paths; dest ids pairwise distinct and stable; end_deferral announces each held-back prefix once. non-trivial = a prefix held >=2 paths or a deferral ended; distinct = hash of the (best_changed, any_changed, #paths) sequence",
            "C15" => "same histories with per-(peer,family) prefix limits 0-3 and fresh per-session counters; after every op state()/peer_stats()/limit counter are compared with a recount from destinations(enable_filtered=true); non-trivial = limit hit or >=2 paths on a prefix",
            _ => "same histories with attribute values from small colliding domains (LOCAL_PREF absent/50/100/200, AS_PATH shapes incl. AS_SET/confed/empty/255-256-300-hop segments, ORIGIN, roles, ORIGINATOR_ID/router-id, CLUSTER_LIST, LLGR_STALE/NO_LLGR, EVPN type-2 MAC mobility); after every op: RIB content equals the model, eligible list excludes filtered/unreachable, list non-decreasing under the statement's decision order, limited list is a prefix, ecmp_paths equals the leading run; non-trivial = >=2 eligible paths compared",
        };
        CheckInfo {
            rule: rule.into(),
            components_real: vec!["table::Table::{insert,remove,drop,drop_stale,restale,restale_llgr,drop_no_llgr,drop_llgr_stale,update_nexthop_validity,start_deferral,end_deferral,state,peer_stats,destinations,collect_loc_rib_paths(_limited)}".into(), "table::NlriChange::{new_best,ecmp_paths}".into(), "impl Ord for RibEntry, IdAllocator".into(), "packet::Attribute::as_path_length".into()],
            components_stubbed: vec!["peers reduced to event sources; TableManager sharding and the session driver are exercised in tiers S and D".into()],
            assumptions: vec!["per-session prefix counters are recreated at every session start as PeerSession::new does and are compared with a recount of the prefixes announced by that session (paths retained from an earlier session of the peer are not in it); drop_stale/drop_no_llgr/drop_llgr_stale get no counter, as in table_manager.rs".into(), "accepted counter may count unfiltered paths or prefixes (the code documents paths)".into()],
            bounds: "<=70 ops, <=4 peers, <=8 prefixes/family, <=3 families, path ids 0-2".into(),
        }
    }
}
