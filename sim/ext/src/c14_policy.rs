//! C14 — routing policy evaluates as the reference semantics say, never panics on a route, and a
//! referenced set / statement / policy cannot be deleted or changed underneath its users.
//! Tier R: the real `table::PolicyTable` is driven by histories of add / merge / replace / delete
//! operations on defined sets, statements, policies and the two global assignments, interleaved
//! with route evaluations through `table::apply_import` / `table::apply_export`.  The oracle is a
//! value-semantics reference model: every statement carries a deep copy of the sets it was built
//! from, every policy a deep copy of its statements, every assignment a deep copy of its policies,
//! and an independent evaluator walks that copy.
//!
//! What is judged
//!   * eval:   disposition, attributes and next hop of the real evaluation equal the reference.
//!   * in-use: an operation that changes or deletes an object the model says is referenced must fail.
//!   * panic:  (runner) no panic under /repo for any route the wire decoder or the API can build,
//!             including AS_PATHs with empty segments, unknown segment types and a dangling byte.
//! The model follows the real result code for everything else (an unexpected Err only bumps a probe).

use crate::vals::*;
use rustybgp_packet::bgp::Nexthop;
use rustybgp_packet::{Attribute, Family};
use rustybgp_table as table;
use std::collections::BTreeMap;
use std::net::IpAddr;
use std::sync::Arc;
use table::{
    Actions, AsPrependAction, CommunityAction, CommunityActionType, Comparison, ConditionConfig, DefinedSetConfig, Disposition, ExtCommunityAction,
    LargeCommunityAction, LocalPrefAction, MatchOption, MedAction, MedActionType, NexthopAction, OriginAction, PolicyDirection, PolicyTable, PrefixConfig,
    RouteType,
};
use vcore::*;

pub struct PolicyHistories;

// ---- model ----------------------------------------------------------------------------------

const K_PREFIX: u8 = 0;
const K_NEIGH: u8 = 1;
const K_ASPATH: u8 = 2;
const K_COMM: u8 = 3;
const K_EXT: u8 = 4;
const K_LARGE: u8 = 5;
const KIND_TAGS: [&str; 6] = ["pset", "nset", "aset", "cset", "eset", "lset"];

#[derive(Clone, PartialEq, Debug)]
enum SetVal {
    Prefix(Vec<(Pfx, u8, u8)>),
    Nets(Vec<Pfx>),
    Strs(Vec<String>),
}

#[derive(Clone, PartialEq, Debug)]
enum MCond {
    Set { kind: u8, name: String, opt: u8, val: SetVal },
    PathLen(u8, u32),
    Nexthop(Vec<IpAddr>),
    LpEq(u32),
    MedEq(u32),
    Origin(u8),
    RouteType(u8),
    CommCount(u8, u32),
    Afi(Vec<u8>),
    /// RPKI origin validation state of the route: 0 not found, 1 valid, 2 invalid
    Rpki(u8),
}

impl MCond {
    fn kind_id(&self) -> u8 {
        match self {
            MCond::Set { kind, .. } => *kind,
            MCond::PathLen(..) => 10,
            MCond::Nexthop(..) => 11,
            MCond::LpEq(..) => 12,
            MCond::MedEq(..) => 13,
            MCond::Origin(..) => 14,
            MCond::RouteType(..) => 15,
            MCond::CommCount(..) => 16,
            MCond::Afi(..) => 17,
            MCond::Rpki(..) => 18,
        }
    }
}

#[derive(Clone, PartialEq, Debug)]
enum NhAct {
    Addr(IpAddr),
    SelfAddr,
    Peer,
    Unchanged,
}

#[derive(Clone, PartialEq, Debug, Default)]
struct MActions {
    nh: Option<NhAct>,
    comm: Option<(u8, Vec<u32>)>,
    lp: Option<u32>,
    med: Option<(u8, i64)>,
    pre: Option<(u32, u32, bool)>,
    ext: Option<(u8, Vec<[u8; 8]>)>,
    large: Option<(u8, Vec<(u32, u32, u32)>)>,
    origin: Option<u8>,
}

#[derive(Clone, PartialEq, Debug)]
struct MStmt {
    name: String,
    conds: Vec<MCond>,
    disp: Option<u8>, // 1 accept, 2 reject
    act: MActions,
}

#[derive(Clone, PartialEq, Debug)]
struct MPol {
    name: String,
    stmts: Vec<MStmt>,
}

#[derive(Clone, PartialEq, Debug)]
struct MAssign {
    default: u8,
    pols: Vec<MPol>,
}

#[derive(Default)]
struct Model {
    sets: BTreeMap<(u8, String), SetVal>,
    stmts: BTreeMap<String, MStmt>,
    pols: BTreeMap<String, MPol>,
    assigns: [Option<MAssign>; 2],
}

impl Model {
    fn all_stmt_copies(&self) -> impl Iterator<Item = &MStmt> {
        self.stmts
            .values()
            .chain(self.pols.values().flat_map(|p| p.stmts.iter()))
            .chain(self.assigns.iter().flatten().flat_map(|a| a.pols.iter().flat_map(|p| p.stmts.iter())))
    }
    fn set_in_use(&self, kind: u8, name: &str) -> bool {
        self.all_stmt_copies().any(|s| s.conds.iter().any(|c| matches!(c, MCond::Set{kind: k, name: n, ..} if *k == kind && n == name)))
    }
    fn stmt_in_use(&self, name: &str) -> bool {
        self.pols.values().chain(self.assigns.iter().flatten().flat_map(|a| a.pols.iter())).any(|p| p.stmts.iter().any(|s| s.name == name))
    }
    fn pol_in_use(&self, name: &str) -> bool {
        self.assigns.iter().flatten().any(|a| a.pols.iter().any(|p| p.name == name))
    }
}

// ---- routes ---------------------------------------------------------------------------------

#[derive(Clone, PartialEq, Debug, Default)]
struct RAttrs {
    origin: Option<u32>,
    path: Option<Vec<(u8, Vec<u32>)>>,
    comm: Option<Vec<u32>>,
    ext: Option<Vec<[u8; 8]>>,
    large: Option<Vec<(u32, u32, u32)>>,
    med: Option<u32>,
    lp: Option<u32>,
}

struct Route {
    pfx: Pfx,
    a: RAttrs,
    tail: bool,
    nh: Option<IpAddr>,
}

impl Route {
    fn weird(&self) -> bool {
        self.tail || self.a.path.as_ref().is_some_and(|p| p.iter().any(|(t, v)| v.is_empty() || v.len() > 255 || !(1..=4).contains(t)))
    }
}

fn route_from_json(j: &Json) -> Route {
    let opt_u32 = |k: &str| j.get(k).and_then(|v| if matches!(v, Json::Null) { None } else { Some(v.as_u32()) });
    let path = j.get("path").and_then(|v| if matches!(v, Json::Null) { None } else { Some(as_path_segments_from_json(v)) });
    let comm = j.get("comm").and_then(|v| if matches!(v, Json::Null) { None } else { Some(v.arr().iter().map(|x| x.as_u32()).collect()) });
    let ext = j.get("ext").and_then(|v| {
        if matches!(v, Json::Null) {
            None
        } else {
            Some(v.arr().iter().map(|e| bytes8(e)).collect())
        }
    });
    let large = j.get("large").and_then(|v| {
        if matches!(v, Json::Null) {
            None
        } else {
            Some(v.arr().iter().map(|e| (e.at(0).as_u32(), e.at(1).as_u32(), e.at(2).as_u32())).collect())
        }
    });
    Route {
        pfx: Pfx::parse(j.s("p")),
        a: RAttrs { origin: opt_u32("o"), path, comm, ext, large, med: opt_u32("med"), lp: opt_u32("lp") },
        tail: j.i("tail", 0) != 0,
        nh: j.get("nh").and_then(|v| v.as_str().parse().ok()),
    }
}

fn bytes8(e: &Json) -> [u8; 8] {
    let mut b = [0u8; 8];
    for (i, x) in e.arr().iter().take(8).enumerate() {
        b[i] = x.as_u8();
    }
    b
}

fn raw_as_path(segs: &[(u8, Vec<u32>)], tail: bool) -> Attribute {
    // what attr_from_api does: type, count as u8, numbers
    let mut b = Vec::new();
    for (t, asns) in segs {
        b.push(*t);
        b.push(asns.len() as u8);
        for a in asns {
            b.extend_from_slice(&a.to_be_bytes());
        }
    }
    if tail {
        b.push(2);
    }
    Attribute::new_with_bin(Attribute::AS_PATH, b).unwrap()
}

fn real_attrs(r: &Route) -> Arc<Vec<Attribute>> {
    let mut v = Vec::new();
    if let Some(o) = r.a.origin {
        v.push(Attribute::new_with_value(Attribute::ORIGIN, o).unwrap());
    }
    if let Some(p) = &r.a.path {
        v.push(raw_as_path(p, r.tail));
    }
    if let Some(m) = r.a.med {
        v.push(attr_med(m));
    }
    if let Some(l) = r.a.lp {
        v.push(attr_local_pref(l));
    }
    if let Some(c) = &r.a.comm {
        v.push(attr_communities(c));
    }
    if let Some(e) = &r.a.ext {
        let mut b = Vec::new();
        for x in e {
            b.extend_from_slice(x);
        }
        v.push(Attribute::new_with_bin(Attribute::EXTENDED_COMMUNITY, b).unwrap());
    }
    if let Some(l) = &r.a.large {
        let mut b = Vec::new();
        for (x, y, z) in l {
            b.extend_from_slice(&x.to_be_bytes());
            b.extend_from_slice(&y.to_be_bytes());
            b.extend_from_slice(&z.to_be_bytes());
        }
        v.push(Attribute::new_with_bin(Attribute::LARGE_COMMUNITY, b).unwrap());
    }
    Arc::new(v)
}

/// Read the real attribute vector back into the abstract form; `Err` names what cannot be read.
fn read_back(attrs: &[Attribute]) -> Result<RAttrs, String> {
    let mut a = RAttrs::default();
    let mut seen = std::collections::BTreeSet::new();
    for at in attrs {
        if !seen.insert(at.code()) {
            return Err(format!("attribute code {} appears twice", at.code()));
        }
        match at.code() {
            Attribute::ORIGIN => a.origin = at.value(),
            Attribute::MULTI_EXIT_DESC => a.med = at.value(),
            Attribute::LOCAL_PREF => a.lp = at.value(),
            Attribute::AS_PATH => {
                let b = at.binary().ok_or("AS_PATH without binary")?;
                let mut segs = Vec::new();
                let mut i = 0;
                while i < b.len() {
                    if i + 2 > b.len() {
                        return Err("AS_PATH dangling byte".into());
                    }
                    let (t, n) = (b[i], b[i + 1] as usize);
                    i += 2;
                    if i + 4 * n > b.len() {
                        return Err("AS_PATH segment overruns".into());
                    }
                    segs.push((t, (0..n).map(|k| u32::from_be_bytes([b[i + 4 * k], b[i + 4 * k + 1], b[i + 4 * k + 2], b[i + 4 * k + 3]])).collect()));
                    i += 4 * n;
                }
                a.path = Some(segs);
            }
            Attribute::COMMUNITY => {
                let b = at.binary().ok_or("COMMUNITY without binary")?;
                if b.len() % 4 != 0 {
                    return Err("COMMUNITY length not a multiple of 4".into());
                }
                a.comm = Some(b.chunks(4).map(|c| u32::from_be_bytes([c[0], c[1], c[2], c[3]])).collect());
            }
            Attribute::EXTENDED_COMMUNITY => {
                let b = at.binary().ok_or("EXT_COMMUNITY without binary")?;
                if b.len() % 8 != 0 {
                    return Err("EXT_COMMUNITY length not a multiple of 8".into());
                }
                a.ext = Some(b.chunks(8).map(|c| c.try_into().unwrap()).collect());
            }
            Attribute::LARGE_COMMUNITY => {
                let b = at.binary().ok_or("LARGE_COMMUNITY without binary")?;
                if b.len() % 12 != 0 {
                    return Err("LARGE_COMMUNITY length not a multiple of 12".into());
                }
                a.large = Some(
                    b.chunks(12)
                        .map(|c| (u32::from_be_bytes([c[0], c[1], c[2], c[3]]), u32::from_be_bytes([c[4], c[5], c[6], c[7]]), u32::from_be_bytes([c[8], c[9], c[10], c[11]])))
                        .collect(),
                );
            }
            c => return Err(format!("unexpected attribute code {}", c)),
        }
    }
    Ok(a)
}

/// Merge adjacent sequence segments of the same type: how an AS path reads, not how it is chunked.
fn norm_path(p: &Option<Vec<(u8, Vec<u32>)>>) -> Option<Vec<(u8, Vec<u32>)>> {
    p.as_ref().map(|segs| {
        let mut out: Vec<(u8, Vec<u32>)> = Vec::new();
        for (t, v) in segs {
            if let Some(last) = out.last_mut() {
                if last.0 == *t && (*t == 2 || *t == 3) {
                    last.1.extend_from_slice(v);
                    continue;
                }
            }
            out.push((*t, v.clone()));
        }
        out
    })
}

// ---- evaluation contexts --------------------------------------------------------------------

struct SrcDesc {
    remote: IpAddr,
    local: IpAddr,
    remote_as: u32,
    local_as: u32,
    is_local: bool,
}

fn sources() -> Vec<(SrcDesc, Arc<table::Source>)> {
    let mk = |remote: &str, local: &str, ras: u32, las: u32, role: table::PeerRole| {
        let (r, l): (IpAddr, IpAddr) = (remote.parse().unwrap(), local.parse().unwrap());
        (SrcDesc { remote: r, local: l, remote_as: ras, local_as: las, is_local: false }, Arc::new(table::Source::new(r, l, ras, las, "10.0.0.9".parse().unwrap(), role)))
    };
    let l = table::Source::local();
    vec![
        mk("10.0.0.1", "10.0.0.254", 65001, 65000, table::PeerRole::Ebgp),
        mk("10.0.0.2", "10.0.0.254", 65000, 65000, table::PeerRole::Ibgp),
        (SrcDesc { remote: l.remote_addr, local: l.local_addr, remote_as: l.remote_asn, local_as: l.local_asn, is_local: true }, l),
        mk("2001:db8::1", "2001:db8::fe", 65002, 65000, table::PeerRole::Ebgp),
    ]
}

/// Export destinations: (peer address, local address, towards a confederation member)
fn dests() -> Vec<(IpAddr, IpAddr, bool)> {
    vec![
        ("10.0.0.3".parse().unwrap(), "10.0.0.254".parse().unwrap(), false),
        ("10.0.0.1".parse().unwrap(), "10.0.0.254".parse().unwrap(), false),
        ("10.0.0.4".parse().unwrap(), "10.0.0.254".parse().unwrap(), true),
        ("2001:db8::3".parse().unwrap(), "2001:db8::fe".parse().unwrap(), false),
    ]
}

struct Ctx<'a> {
    /// origin validation of the route as it stands (attributes may have been changed by earlier
    /// statements): the table's own `validate`, which C12 decides
    rpki: &'a dyn Fn(&RAttrs) -> Option<u8>,
    src: &'a SrcDesc,
    peer_addr: IpAddr,
    local_addr: IpAddr,
    is_confed: bool,
    original_nh: Option<IpAddr>,
}

// ---- reference evaluator --------------------------------------------------------------------

fn parse_single(p: &str) -> Option<(u8, u32, u32)> {
    // returns (form, lo, hi): form 0 include, 1 leftmost, 2 origin, 3 only
    let (left_anchor, rest) = if let Some(r) = p.strip_prefix('^') { (true, r) } else { (false, p.strip_prefix('_')?) };
    let (right_anchor, body) = if let Some(r) = rest.strip_suffix('$') { (true, r) } else { (false, rest.strip_suffix('_')?) };
    let (lo, hi) = match body.split_once('-') {
        Some((a, b)) => (a.parse().ok()?, b.parse().ok()?),
        None => {
            let v: u32 = body.parse().ok()?;
            (v, v)
        }
    };
    let form = match (left_anchor, right_anchor) {
        (false, false) => 0,
        (true, false) => 1,
        (false, true) => 2,
        (true, true) => 3,
    };
    Some((form, lo, hi))
}

/// The AS_PATH the way as-path patterns are written against it (GoBGP's string form): segments
/// separated by a blank, AS_SEQUENCE `a b`, AS_SET `{a,b}`, AS_CONFED_SEQUENCE `(a b)`,
/// AS_CONFED_SET `[a,b]`.
fn aspath_string(path: &[(u8, Vec<u32>)]) -> String {
    path.iter()
        .map(|(t, v)| {
            let n: Vec<String> = v.iter().map(|a| a.to_string()).collect();
            match t {
                1 => format!("{{{}}}", n.join(",")),
                3 => format!("({})", n.join(" ")),
                4 => format!("[{}]", n.join(",")),
                _ => n.join(" "),
            }
        })
        .collect::<Vec<_>>()
        .join(" ")
}

fn aspath_pattern_matches(p: &str, path: &[(u8, Vec<u32>)]) -> bool {
    let Some((form, lo, hi)) = parse_single(p) else {
        // a general pattern: a regular expression over the string form, `_` standing for a boundary
        return match regex::Regex::new(&p.replace('_', "(^|[,{}() ]|$)")) {
            Ok(r) => r.is_match(&aspath_string(path)),
            Err(_) => false,
        };
    };
    let inr = |a: u32| a >= lo && a <= hi;
    match form {
        0 => path.iter().any(|(_, v)| v.iter().any(|a| inr(*a))),
        1 => path.first().and_then(|(_, v)| v.first()).is_some_and(|a| inr(*a)),
        2 => path.last().and_then(|(_, v)| v.last()).is_some_and(|a| inr(*a)),
        _ => path.len() == 1 && path[0].1.len() == 1 && inr(path[0].1[0]),
    }
}

fn comm_pattern_value(p: &str) -> Option<u32> {
    if let Ok(v) = p.parse::<u32>() {
        return Some(v);
    }
    if let Some((a, b)) = p.split_once(':') {
        if let (Ok(a), Ok(b)) = (a.parse::<u32>(), b.parse::<u32>()) {
            if a <= 0xffff && b <= 0xffff {
                return Some(a << 16 | b);
            }
        }
    }
    Some(match p.to_lowercase().as_str() {
        "graceful-shutdown" => 0xffff_0000,
        "accept-own" => 0xffff_0001,
        "llgr-stale" => 0xffff_0006,
        "no-llgr" => 0xffff_0007,
        "blackhole" => 0xffff_029a,
        "no-export" => 0xffff_ff01,
        "no-advertise" => 0xffff_ff02,
        "no-export-subconfed" => 0xffff_ff03,
        "no-peer" => 0xffff_ff04,
        _ => return None,
    })
}

fn ext_string(c: &[u8; 8]) -> Option<String> {
    match (c[0], c[1]) {
        (0, 2) => Some(format!("rt:{}:{}", u16::from_be_bytes([c[2], c[3]]), u32::from_be_bytes([c[4], c[5], c[6], c[7]]))),
        (0, 3) => Some(format!("soo:{}:{}", u16::from_be_bytes([c[2], c[3]]), u32::from_be_bytes([c[4], c[5], c[6], c[7]]))),
        _ => None,
    }
}

fn unanchor(p: &str) -> &str {
    p.strip_prefix('^').unwrap_or(p).strip_suffix('$').unwrap_or(p.strip_prefix('^').unwrap_or(p))
}

/// ANY / ALL / INVERT over "which patterns of the set does the route satisfy".
fn set_option(opt: u8, n_patterns: usize, matched: &[bool]) -> bool {
    debug_assert_eq!(n_patterns, matched.len());
    match opt {
        0 => matched.iter().any(|m| *m),
        1 => matched.iter().all(|m| *m),
        _ => !matched.iter().any(|m| *m),
    }
}

fn cmp(c: u8, l: u32, v: u32) -> bool {
    match c {
        0 => l == v,
        1 => l >= v,
        _ => l <= v,
    }
}

fn cond_holds(c: &MCond, pfx: &Pfx, a: &RAttrs, nh: Option<IpAddr>, ctx: &Ctx) -> bool {
    match c {
        MCond::Set { kind, opt, val, .. } => match (*kind, val) {
            (K_PREFIX, SetVal::Prefix(ents)) => {
                let m = ents.iter().any(|(e, lo, hi)| e.covers(pfx) && *lo <= pfx.len && pfx.len <= *hi);
                if *opt == 0 { m } else { !m }
            }
            (K_NEIGH, SetVal::Nets(nets)) => {
                let peer = match ctx.peer_addr {
                    IpAddr::V4(x) => Pfx::v4(u32::from(x), 32),
                    IpAddr::V6(x) => Pfx::v6(u128::from(x), 128),
                };
                let m = nets.iter().any(|n| n.covers(&peer));
                if *opt == 2 { !m } else { m }
            }
            (K_ASPATH, SetVal::Strs(pats)) => {
                let matched: Vec<bool> = pats.iter().map(|p| a.path.as_ref().is_some_and(|path| aspath_pattern_matches(p, path))).collect();
                set_option(*opt, pats.len(), &matched)
            }
            (K_COMM, SetVal::Strs(pats)) => {
                let have = a.comm.clone().unwrap_or_default();
                let matched: Vec<bool> = pats.iter().map(|p| comm_pattern_value(p).is_some_and(|v| have.contains(&v))).collect();
                set_option(*opt, pats.len(), &matched)
            }
            (K_EXT, SetVal::Strs(pats)) => {
                let have: Vec<String> = a.ext.clone().unwrap_or_default().iter().filter_map(ext_string).collect();
                let matched: Vec<bool> = pats.iter().map(|p| have.iter().any(|h| h == unanchor(p))).collect();
                set_option(*opt, pats.len(), &matched)
            }
            (K_LARGE, SetVal::Strs(pats)) => {
                let have: Vec<String> = a.large.clone().unwrap_or_default().iter().map(|(x, y, z)| format!("{}:{}:{}", x, y, z)).collect();
                let matched: Vec<bool> = pats.iter().map(|p| have.iter().any(|h| h == unanchor(p))).collect();
                set_option(*opt, pats.len(), &matched)
            }
            _ => false,
        },
        MCond::PathLen(c, v) => match &a.path {
            Some(p) => {
                let l: u32 = p.iter().map(|(t, v)| match t { 1 => 1, 2 => v.len() as u32, _ => 0 }).sum();
                cmp(*c, l, *v)
            }
            None => false,
        },
        MCond::Nexthop(list) => nh.is_some_and(|n| list.contains(&n)),
        MCond::LpEq(v) => a.lp == Some(*v),
        MCond::MedEq(v) => a.med == Some(*v),
        MCond::Origin(v) => a.origin == Some(*v as u32),
        MCond::RouteType(rt) => match rt {
            2 => ctx.src.is_local,
            0 => !ctx.src.is_local && ctx.src.remote_as == ctx.src.local_as,
            _ => !ctx.src.is_local && ctx.src.remote_as != ctx.src.local_as,
        },
        MCond::CommCount(c, v) => cmp(*c, a.comm.as_ref().map(|x| x.len()).unwrap_or(0) as u32, *v),
        MCond::Afi(f) => f.contains(&(pfx.v6 as u8)),
        MCond::Rpki(st) => (ctx.rpki)(a) == Some(*st),
    }
}

fn list_action<T: Clone + PartialEq>(cur: &mut Option<Vec<T>>, ty: u8, vals: &[T]) {
    let existing = cur.clone().unwrap_or_default();
    let new: Vec<T> = match ty {
        0 => existing.into_iter().chain(vals.iter().cloned()).collect(),
        1 => existing.into_iter().filter(|c| !vals.contains(c)).collect(),
        _ => vals.to_vec(),
    };
    *cur = if new.is_empty() { None } else { Some(new) };
}

fn apply_actions(act: &MActions, a: &mut RAttrs, nh: &mut Option<IpAddr>, ctx: &Ctx) {
    if let Some(n) = &act.nh {
        match n {
            NhAct::Addr(x) => *nh = Some(*x),
            NhAct::SelfAddr => *nh = Some(ctx.local_addr),
            NhAct::Peer => *nh = Some(ctx.peer_addr),
            NhAct::Unchanged => {
                if let Some(o) = ctx.original_nh {
                    *nh = Some(o);
                }
            }
        }
    }
    if let Some((ty, vals)) = &act.comm {
        list_action(&mut a.comm, *ty, vals);
    }
    if let Some(v) = act.lp {
        a.lp = Some(v);
    }
    if let Some((ty, v)) = &act.med {
        let cur = a.med.unwrap_or(0) as i64;
        let n = if *ty == 0 { cur + *v } else { *v };
        a.med = Some(n.clamp(0, u32::MAX as i64) as u32);
    }
    if let Some((asn, repeat, leftmost)) = act.pre {
        if repeat > 0 {
            let mut path = a.path.clone().unwrap_or_default();
            let asn = if leftmost { path.first().and_then(|(_, v)| v.first().copied()).unwrap_or(asn) } else { asn };
            let t = if ctx.is_confed { 3 } else { 2 };
            // RFC 4271 5.1.2 b / RFC 5065 4.1 c: into the leading segment if it is of the right kind
            // and has room (255), into a new segment otherwise, one AS number at a time
            for _ in 0..repeat {
                match path.first_mut() {
                    Some((ft, v)) if *ft == t && v.len() < 255 => v.insert(0, asn),
                    _ => path.insert(0, (t, vec![asn])),
                }
            }
            a.path = Some(path);
        }
    }
    if let Some((ty, vals)) = &act.ext {
        list_action(&mut a.ext, *ty, vals);
    }
    if let Some((ty, vals)) = &act.large {
        list_action(&mut a.large, *ty, vals);
    }
    if let Some(o) = act.origin {
        a.origin = Some(o as u32);
    }
}

/// Returns the disposition: 0 pass (only when the default is pass), 1 accept, 2 reject.
fn ref_eval(asg: &MAssign, pfx: &Pfx, a: &mut RAttrs, nh: &mut Option<IpAddr>, ctx: &Ctx, out: &mut Outcome) -> u8 {
    for p in &asg.pols {
        for s in &p.stmts {
            if s.conds.iter().any(|c| matches!(c, MCond::Rpki(_))) {
                out.hit("eval.statement-with-rpki-condition");
            }
            if s.conds.iter().all(|c| cond_holds(c, pfx, a, *nh, ctx)) {
                out.hit("eval.statement-applied");
                apply_actions(&s.act, a, nh, ctx);
                if let Some(d) = s.disp {
                    return d;
                }
            }
        }
    }
    asg.default
}

// ---- JSON <-> configs -------------------------------------------------------------------------

fn match_opt(o: u8) -> MatchOption {
    match o {
        0 => MatchOption::Any,
        1 => MatchOption::All,
        _ => MatchOption::Invert,
    }
}
fn comparison(c: u8) -> Comparison {
    match c {
        0 => Comparison::Eq,
        1 => Comparison::Ge,
        _ => Comparison::Le,
    }
}
fn disposition(d: u8) -> Disposition {
    match d {
        1 => Disposition::Accept,
        2 => Disposition::Reject,
        _ => Disposition::Pass,
    }
}
fn disp_num(d: Disposition) -> u8 {
    match d {
        Disposition::Pass => 0,
        Disposition::Accept => 1,
        Disposition::Reject => 2,
    }
}
fn action_type(t: u8) -> CommunityActionType {
    match t {
        0 => CommunityActionType::Add,
        1 => CommunityActionType::Remove,
        _ => CommunityActionType::Replace,
    }
}

fn set_from_json(kind: u8, name: &str, elems: &Json) -> (DefinedSetConfig, SetVal) {
    let strs: Vec<String> = elems.arr().iter().filter(|e| matches!(e, Json::Str(_))).map(|e| e.as_str().to_string()).collect();
    let name = name.to_string();
    match kind {
        K_PREFIX => {
            let ents: Vec<(Pfx, u8, u8)> = elems.arr().iter().map(|e| (Pfx::from_json(e.at(0)), e.at(1).as_u8(), e.at(2).as_u8())).collect();
            (
                DefinedSetConfig::Prefix {
                    name,
                    prefixes: ents.iter().map(|(p, lo, hi)| PrefixConfig { ip_prefix: p.to_string(), mask_length_min: *lo, mask_length_max: *hi }).collect(),
                },
                SetVal::Prefix(ents),
            )
        }
        K_NEIGH => (DefinedSetConfig::Neighbor { name, neighbors: strs.clone() }, SetVal::Nets(strs.iter().map(|s| Pfx::parse(s)).collect())),
        K_ASPATH => (DefinedSetConfig::AsPath { name, patterns: strs.clone() }, SetVal::Strs(strs)),
        K_COMM => (DefinedSetConfig::Community { name, patterns: strs.clone() }, SetVal::Strs(strs)),
        K_EXT => (DefinedSetConfig::ExtCommunity { name, patterns: strs.clone() }, SetVal::Strs(strs)),
        _ => (DefinedSetConfig::LargeCommunity { name, patterns: strs.clone() }, SetVal::Strs(strs)),
    }
}

fn merge_set(old: &mut SetVal, new: SetVal) {
    match (old, new) {
        (SetVal::Prefix(a), SetVal::Prefix(b)) => a.extend(b),
        (SetVal::Nets(a), SetVal::Nets(b)) => a.extend(b),
        (SetVal::Strs(a), SetVal::Strs(b)) => a.extend(b),
        _ => {}
    }
}

fn remove_from_set(kind: u8, old: &mut SetVal, del: &SetVal) {
    match (old, del) {
        (SetVal::Prefix(a), SetVal::Prefix(b)) => a.retain(|e| !b.contains(e)),
        (SetVal::Nets(a), SetVal::Nets(b)) => a.retain(|e| !b.contains(e)),
        (SetVal::Strs(a), SetVal::Strs(b)) => {
            if kind == K_COMM {
                a.retain(|e| {
                    !b.iter().any(|d| match (comm_pattern_value(e), comm_pattern_value(d)) {
                        (Some(x), Some(y)) => x == y,
                        (None, None) => e == d,
                        _ => false,
                    })
                });
            } else if kind == K_ASPATH {
                // single-AS forms are compared by the numbers they name (`^065003$` is `^65003$`), but a
                // range is an entry of its own even when both ends are equal: the property does not
                // say that deleting `^65003$` takes `^65003-65003$` away too, and the table lists them
                // as two entries; general patterns are compared by their text
                let is_range = |p: &str| p.contains('-');
                a.retain(|e| {
                    !b.iter().any(|d| match (parse_single(e), parse_single(d)) {
                        (Some(x), Some(y)) => x == y && is_range(e) == is_range(d),
                        (None, None) => e == d,
                        _ => false,
                    })
                });
            } else {
                a.retain(|e| !b.contains(e));
            }
        }
        _ => {}
    }
}

fn kind_of_tag(t: &str) -> Option<u8> {
    KIND_TAGS.iter().position(|k| *k == t).map(|i| i as u8)
}

fn ips(j: &Json) -> Vec<IpAddr> {
    j.arr().iter().filter_map(|x| x.as_str().parse().ok()).collect()
}

fn cond_from_json(j: &Json, m: &Model, out: &mut Outcome) -> (ConditionConfig, MCond) {
    let tag = j.at(0).as_str();
    if let Some(kind) = kind_of_tag(tag) {
        let name = j.at(1).as_str().to_string();
        let opt = j.at(2).as_u8().min(2);
        let val = match m.sets.get(&(kind, name.clone())) {
            Some(v) => v.clone(),
            None => {
                out.hit("crud.statement-names-missing-set");
                match kind {
                    K_PREFIX => SetVal::Prefix(vec![]),
                    K_NEIGH => SetVal::Nets(vec![]),
                    _ => SetVal::Strs(vec![]),
                }
            }
        };
        let cfg = match kind {
            K_PREFIX => ConditionConfig::PrefixSet(name.clone(), match_opt(opt)),
            K_NEIGH => ConditionConfig::NeighborSet(name.clone(), match_opt(opt)),
            K_ASPATH => ConditionConfig::AsPathSet(name.clone(), match_opt(opt)),
            K_COMM => ConditionConfig::CommunitySet(name.clone(), match_opt(opt)),
            K_EXT => ConditionConfig::ExtCommunitySet(name.clone(), match_opt(opt)),
            _ => ConditionConfig::LargeCommunitySet(name.clone(), match_opt(opt)),
        };
        return (cfg, MCond::Set { kind, name, opt, val });
    }
    match tag {
        "plen" => (ConditionConfig::AsPathLength(comparison(j.at(1).as_u8()), j.at(2).as_u32()), MCond::PathLen(j.at(1).as_u8().min(2), j.at(2).as_u32())),
        "nh" => (ConditionConfig::Nexthop(ips(j.at(1))), MCond::Nexthop(ips(j.at(1)))),
        "lp" => (ConditionConfig::LocalPrefEq(j.at(1).as_u32()), MCond::LpEq(j.at(1).as_u32())),
        "med" => (ConditionConfig::MedEq(j.at(1).as_u32()), MCond::MedEq(j.at(1).as_u32())),
        "org" => (ConditionConfig::Origin(j.at(1).as_u8()), MCond::Origin(j.at(1).as_u8())),
        "rt" => {
            let r = j.at(1).as_u8().min(2);
            (ConditionConfig::RouteType(match r { 0 => RouteType::Internal, 1 => RouteType::External, _ => RouteType::Local }), MCond::RouteType(r))
        }
        "cc" => (ConditionConfig::CommunityCount(comparison(j.at(1).as_u8()), j.at(2).as_u32()), MCond::CommCount(j.at(1).as_u8().min(2), j.at(2).as_u32())),
        "rpki" => {
            let v = j.at(1).as_u8().min(2);
            let st = match v {
                1 => table::RpkiValidationState::Valid,
                2 => table::RpkiValidationState::Invalid,
                _ => table::RpkiValidationState::NotFound,
            };
            (ConditionConfig::Rpki(st), MCond::Rpki(v))
        }
        _ => {
            let f: Vec<u8> = j.at(1).arr().iter().map(|x| x.as_u8().min(1)).collect();
            (ConditionConfig::AfiSafiIn(f.iter().map(|x| if *x == 1 { Family::IPV6 } else { Family::IPV4 }).collect()), MCond::Afi(f))
        }
    }
}

fn actions_from_json(j: &Json) -> (Actions, MActions) {
    let mut r = Actions::default();
    let mut m = MActions::default();
    if let Some(n) = j.get("nh") {
        let (ra, ma) = match n.at(0).as_str() {
            "addr" => {
                let ip: IpAddr = n.at(1).as_str().parse().unwrap_or("192.0.2.99".parse().unwrap());
                (NexthopAction::Address(ip), NhAct::Addr(ip))
            }
            "self" => (NexthopAction::PeerSelf, NhAct::SelfAddr),
            "peer" => (NexthopAction::PeerAddress, NhAct::Peer),
            _ => (NexthopAction::Unchanged, NhAct::Unchanged),
        };
        r.nexthop = Some(ra);
        m.nh = Some(ma);
    }
    if let Some(c) = j.get("comm") {
        let vals: Vec<u32> = c.at(1).arr().iter().map(|x| x.as_u32()).collect();
        let t = c.at(0).as_u8().min(2);
        r.community = Some(CommunityAction { action_type: action_type(t), communities: vals.clone() });
        m.comm = Some((t, vals));
    }
    if let Some(v) = j.get("lp") {
        r.local_pref = Some(LocalPrefAction { value: v.as_u32() });
        m.lp = Some(v.as_u32());
    }
    if let Some(v) = j.get("med") {
        let t = v.at(0).as_u8().min(1);
        let val = v.at(1).as_i64();
        r.med = Some(MedAction { action_type: if t == 0 { MedActionType::Mod } else { MedActionType::Replace }, value: val });
        m.med = Some((t, val));
    }
    if let Some(v) = j.get("pre") {
        let (asn, rep, lm) = (v.at(0).as_u32(), v.at(1).as_u32().min(300), v.at(2).as_bool());
        r.as_prepend = Some(AsPrependAction { asn, repeat: rep, use_left_most: lm });
        m.pre = Some((asn, rep, lm));
    }
    if let Some(c) = j.get("ext") {
        let vals: Vec<[u8; 8]> = c.at(1).arr().iter().map(bytes8).collect();
        let t = c.at(0).as_u8().min(2);
        r.ext_community = Some(ExtCommunityAction { action_type: action_type(t), communities: vals.clone() });
        m.ext = Some((t, vals));
    }
    if let Some(c) = j.get("large") {
        let vals: Vec<(u32, u32, u32)> = c.at(1).arr().iter().map(|e| (e.at(0).as_u32(), e.at(1).as_u32(), e.at(2).as_u32())).collect();
        let t = c.at(0).as_u8().min(2);
        r.large_community = Some(LargeCommunityAction { action_type: action_type(t), communities: vals.clone() });
        m.large = Some((t, vals));
    }
    if let Some(v) = j.get("org") {
        r.origin = Some(OriginAction { origin: v.as_u8() });
        m.origin = Some(v.as_u8());
    }
    (r, m)
}

fn disp_from_json(j: &Json) -> Option<u8> {
    match j {
        Json::Null => None,
        v => match v.as_u8() {
            1 => Some(1),
            2 => Some(2),
            _ => None,
        },
    }
}

fn strs(j: &Json) -> Vec<String> {
    j.arr().iter().map(|x| x.as_str().to_string()).collect()
}

// ---- generator ------------------------------------------------------------------------------

const ASNS: [u32; 6] = [65001, 65002, 65003, 65004, 65005, 4_200_000_001];
const COMMS: [u32; 5] = [65000 << 16 | 100, 65000 << 16 | 200, 65001 << 16 | 100, 0xffff_ff01, 0xffff_029a];
const COMM_PATS: [&str; 7] = ["65000:100", "65000:200", "65001:100", "no-export", "BLACKHOLE", "4259840100", "4294967041"];

struct Gen {
    rng: Rng,
    trunk4: u32,
    trunk6: u128,
    sets: Vec<(u8, String)>,
    stmts: Vec<String>,
    pols: Vec<String>,
    // what the generator believes is referenced (approximate: it never sees results)
    used_sets: Vec<(u8, String)>,
    used_stmts: Vec<String>,
    used_pols: Vec<String>,
    stmt_kinds: BTreeMap<String, Vec<String>>,
}

impl Gen {
    fn pfx(&mut self, lo4: u8, hi4: u8) -> Pfx {
        if self.rng.chance(1, 5) {
            let (t, lo, hi) = (self.trunk6, 32 + lo4, (32 + hi4).min(64));
            trunk_pfx(&mut self.rng, true, t, lo, hi)
        } else {
            let t = self.trunk4 as u128;
            trunk_pfx(&mut self.rng, false, t, lo4, hi4)
        }
    }
    fn ext8(&mut self) -> [u8; 8] {
        let sub = *self.rng.pick(&[2u8, 2, 3]);
        let asn = *self.rng.pick(&[65000u16, 65001]);
        let local = *self.rng.pick(&[100u32, 200]);
        let t = if self.rng.chance(1, 8) { 6 } else { 0 };
        let mut b = [0u8; 8];
        b[0] = t;
        b[1] = sub;
        b[2..4].copy_from_slice(&asn.to_be_bytes());
        b[4..8].copy_from_slice(&local.to_be_bytes());
        b
    }
    fn large3(&mut self) -> (u32, u32, u32) {
        (*self.rng.pick(&[65000u32, 4_200_000_001]), self.rng.below(2) as u32 + 1, self.rng.below(2) as u32 + 1)
    }
    fn set_elems(&mut self, kind: u8) -> Json {
        let n = self.rng.range(1, 4);
        let mut v = Vec::new();
        for _ in 0..n {
            v.push(match kind {
                K_PREFIX => {
                    let p = if self.rng.chance(1, 12) { if self.rng.chance(1, 3) { Pfx::v6(0, 0) } else { Pfx::v4(0, 0) } } else { self.pfx(4, 24) };
                    let max = if p.v6 { 128 } else { 32 };
                    let (lo, hi) = match self.rng.below(4) {
                        0 => (p.len, p.len),
                        1 => (p.len, max),
                        2 => {
                            let lo = self.rng.range(p.len as u64, (p.len as u64 + 8).min(max as u64)) as u8;
                            (lo, self.rng.range(lo as u64, (lo as u64 + 8).min(max as u64)) as u8)
                        }
                        _ => (p.len, (p.len as u64 + self.rng.below(9)).min(max as u64) as u8),
                    };
                    jarr![p.to_json(), lo as u64, hi as u64]
                }
                K_NEIGH => Json::from(*self.rng.pick(&["10.0.0.1/32", "10.0.0.2/32", "10.0.0.0/30", "10.0.0.4/32", "2001:db8::/64", "10.0.0.3/32"])),
                K_ASPATH if self.rng.chance(1, 3) => {
                    // a general pattern (not one of the eight single-AS forms)
                    let a = *self.rng.pick(&ASNS[..5]);
                    let b = *self.rng.pick(&ASNS[..5]);
                    Json::from(match self.rng.below(7) {
                        0 => format!("{} {}", a, b),
                        1 => format!("^{} ", a),
                        2 => format!("_{}_{}_", a, b),
                        3 => format!("({}|{})$", a, b),
                        4 => "^$".to_string(),
                        5 => format!("{}.*{}", a, b),
                        _ => format!("\\{{.*{}", a),
                    })
                }
                K_ASPATH => {
                    let a = *self.rng.pick(&ASNS[..5]);
                    let b = a + self.rng.below(3) as u32;
                    let body = if self.rng.chance(1, 3) { format!("{}-{}", a, b) } else { a.to_string() };
                    let (l, r) = (*self.rng.pick(&["_", "^"]), *self.rng.pick(&["_", "$"]));
                    Json::from(format!("{}{}{}", l, body, r))
                }
                K_COMM => Json::from(*self.rng.pick(&COMM_PATS)),
                K_EXT => {
                    let e = self.ext8();
                    Json::from(format!("^{}$", ext_string(&[0, e[1], e[2], e[3], e[4], e[5], e[6], e[7]]).unwrap()))
                }
                _ => {
                    let (a, b, c) = self.large3();
                    Json::from(format!("^{}:{}:{}$", a, b, c))
                }
            });
        }
        Json::Arr(v)
    }
    fn set_name(&mut self, kind: u8) -> String {
        format!("{}{}", ["ps", "ns", "as", "cs", "es", "ls"][kind as usize], self.rng.below(if kind == K_PREFIX || kind == K_ASPATH || kind == K_COMM { 3 } else { 2 }))
    }
    fn known_set(&mut self, kind: u8) -> Option<String> {
        let c: Vec<&(u8, String)> = self.sets.iter().filter(|(k, _)| *k == kind).collect();
        if c.is_empty() { None } else { Some(c[self.rng.usize_below(c.len())].1.clone()) }
    }
    fn cond(&mut self) -> Json {
        match self.rng.weighted(&[30, 8, 14, 12, 5, 5, 6, 4, 3, 3, 3, 4, 4, 3, 4]) {
            14 => jarr!["rpki", self.rng.below(3)],
            k @ 0..=5 => {
                let kind = k as u8;
                let name = match self.known_set(kind) {
                    Some(n) if self.rng.chance(19, 20) => n,
                    // no set of that kind yet: fall back to a plain condition most of the time
                    None if self.rng.chance(9, 10) => return jarr!["org", self.rng.below(3)],
                    _ => self.set_name(kind),
                };
                let opt = match kind {
                    K_PREFIX | K_NEIGH => *self.rng.pick(&[0u64, 0, 2]),
                    _ => self.rng.below(3),
                };
                jarr![KIND_TAGS[kind as usize], name, opt]
            }
            6 => jarr!["plen", self.rng.below(3), self.rng.below(5)],
            7 => jarr!["nh", Json::Arr(vec![Json::from(*self.rng.pick(&["192.0.2.1", "192.0.2.2", "2001:db8::a"]))])],
            8 => jarr!["lp", *self.rng.pick(&[100u64, 200])],
            9 => jarr!["med", *self.rng.pick(&[0u64, 10])],
            10 => jarr!["org", self.rng.below(3)],
            11 => jarr!["rt", self.rng.below(3)],
            12 => jarr!["cc", self.rng.below(3), self.rng.below(4)],
            _ => jarr!["afi", Json::Arr(vec![Json::from(self.rng.below(2))])],
        }
    }
    fn actions(&mut self, allow_nh: bool) -> Json {
        let mut o: Vec<(String, Json)> = Vec::new();
        if self.rng.chance(1, 2) {
            let t = self.rng.below(3);
            let n = self.rng.range(1, 2);
            let vals: Vec<Json> = (0..n).map(|_| Json::from(*self.rng.pick(&COMMS))).collect();
            o.push(("comm".into(), jarr![t, Json::Arr(vals)]));
        }
        if self.rng.chance(1, 4) {
            o.push(("lp".into(), Json::from(*self.rng.pick(&[100u64, 200, 300]))));
        }
        if self.rng.chance(1, 4) {
            let t = self.rng.below(2);
            let v: i64 = *self.rng.pick(&[-20i64, -5, 0, 10, 4_294_967_295, 5_000_000_000]);
            let v = if t == 1 && self.rng.chance(3, 4) { v.max(0) } else { v };
            o.push(("med".into(), jarr![t, v]));
        }
        if self.rng.chance(1, 3) {
            let rep = *self.rng.pick(&[0u64, 1, 1, 2, 3, 254, 256]);
            let rep = if rep > 3 && !self.rng.chance(1, 6) { 2 } else { rep };
            o.push(("pre".into(), jarr![*self.rng.pick(&ASNS), rep, self.rng.chance(1, 3)]));
        }
        if self.rng.chance(1, 6) {
            let t = self.rng.below(3);
            let e = self.ext8();
            o.push(("ext".into(), jarr![t, Json::Arr(vec![Json::Arr(e.iter().map(|b| Json::from(*b as u64)).collect())])]));
        }
        if self.rng.chance(1, 6) {
            let t = self.rng.below(3);
            let (a, b, c) = self.large3();
            o.push(("large".into(), jarr![t, Json::Arr(vec![jarr![a, b, c]])]));
        }
        if self.rng.chance(1, 6) {
            o.push(("org".into(), Json::from(self.rng.below(3))));
        }
        if allow_nh && self.rng.chance(1, 5) {
            o.push((
                "nh".into(),
                match self.rng.below(4) {
                    0 => jarr!["addr", *self.rng.pick(&["192.0.2.1", "192.0.2.77", "2001:db8::a"])],
                    1 => jarr!["self"],
                    2 => jarr!["peer"],
                    _ => jarr!["unch"],
                },
            ));
        }
        Json::Obj(o)
    }
    fn route(&mut self) -> Json {
        let p = self.pfx(4, 30);
        let mut o: Vec<(String, Json)> = vec![("p".into(), p.to_json())];
        o.push(("o".into(), if self.rng.chance(9, 10) { Json::from(self.rng.below(3)) } else { Json::Null }));
        let weird = self.rng.chance(1, 10);
        if self.rng.chance(14, 15) {
            let nseg = self.rng.weighted(&[2, 10, 5, 2]);
            let mut segs: Vec<(u8, Vec<u32>)> = Vec::new();
            for _ in 0..nseg {
                let t = if weird && self.rng.chance(1, 4) { *self.rng.pick(&[0u8, 5, 255]) } else { *self.rng.pick(&[2u8, 2, 2, 2, 1, 3, 4]) };
                let n = if weird && self.rng.chance(1, 2) { 0 } else { self.rng.range(1, 3) };
                segs.push((t, (0..n).map(|_| *self.rng.pick(&ASNS)).collect()));
            }
            if weird && self.rng.chance(1, 12) && !segs.is_empty() {
                // what an API client can cause: 256 numbers wrap the one-byte count to 0
                segs[0].1 = vec![65001; 256];
            }
            o.push(("path".into(), as_path_segments_json(&segs)));
            if weird && self.rng.chance(1, 6) {
                o.push(("tail".into(), Json::from(1u64)));
            }
        } else {
            o.push(("path".into(), Json::Null));
        }
        if self.rng.chance(2, 3) {
            let n = self.rng.below(4);
            o.push(("comm".into(), Json::Arr((0..n).map(|_| Json::from(*self.rng.pick(&COMMS))).collect())));
        }
        if self.rng.chance(1, 4) {
            let n = self.rng.range(1, 2);
            let v: Vec<Json> = (0..n).map(|_| Json::Arr(self.ext8().iter().map(|b| Json::from(*b as u64)).collect())).collect();
            o.push(("ext".into(), Json::Arr(v)));
        }
        if self.rng.chance(1, 4) {
            let n = self.rng.range(1, 2);
            let v: Vec<Json> = (0..n)
                .map(|_| {
                    let (a, b, c) = self.large3();
                    jarr![a, b, c]
                })
                .collect();
            o.push(("large".into(), Json::Arr(v)));
        }
        if self.rng.chance(1, 2) {
            o.push(("med".into(), Json::from(*self.rng.pick(&[0u64, 10, 4_294_967_290]))));
        }
        if self.rng.chance(1, 2) {
            o.push(("lp".into(), Json::from(*self.rng.pick(&[100u64, 200]))));
        }
        if self.rng.chance(9, 10) {
            o.push(("nh".into(), Json::from(*self.rng.pick(&["192.0.2.1", "192.0.2.2", "2001:db8::a"]))));
        }
        Json::Obj(o)
    }
    fn op_set(&mut self, ops: &mut Vec<Json>, fault: bool) {
        let kind = self.rng.weighted(&[30, 8, 16, 14, 6, 6]) as u8;
        let name = if fault {
            let c: Vec<String> = self.used_sets.iter().filter(|(k, _)| *k == kind).map(|(_, n)| n.clone()).collect();
            if c.is_empty() { self.set_name(kind) } else { c[self.rng.usize_below(c.len())].clone() }
        } else {
            let mut n = self.set_name(kind);
            for _ in 0..3 {
                if !self.used_sets.contains(&(kind, n.clone())) {
                    break;
                }
                n = self.set_name(kind);
            }
            n
        };
        let mode = if self.rng.chance(1, 4) { "replace" } else { "add" };
        let elems = self.set_elems(kind);
        if !self.sets.contains(&(kind, name.clone())) {
            self.sets.push((kind, name.clone()));
        }
        ops.push(jarr!["set", KIND_TAGS[kind as usize], name, elems, mode]);
    }
    fn op_delset(&mut self, ops: &mut Vec<Json>, fault: bool) {
        let kind = self.rng.weighted(&[30, 8, 16, 14, 6, 6]) as u8;
        let pool: Vec<String> = if fault {
            self.used_sets.iter().filter(|(k, _)| *k == kind).map(|(_, n)| n.clone()).collect()
        } else {
            self.sets.iter().filter(|(k, n)| *k == kind && !self.used_sets.contains(&(*k, n.clone()))).map(|(_, n)| n.clone()).collect()
        };
        let name = if pool.is_empty() { self.set_name(kind) } else { pool[self.rng.usize_below(pool.len())].clone() };
        let all = self.rng.chance(1, 2);
        let elems = self.set_elems(kind);
        if all && !fault {
            self.sets.retain(|(k, n)| !(*k == kind && *n == name));
        }
        ops.push(jarr!["delset", KIND_TAGS[kind as usize], name, all, elems]);
    }
    fn op_stmt(&mut self, ops: &mut Vec<Json>, fault: bool) {
        let name = if fault && !self.used_stmts.is_empty() {
            self.used_stmts[self.rng.usize_below(self.used_stmts.len())].clone()
        } else {
            let free: Vec<String> = (0..5).map(|i| format!("st{}", i)).filter(|n| !self.used_stmts.contains(n)).collect();
            let fresh: Vec<String> = free.iter().filter(|n| !self.stmts.contains(n)).cloned().collect();
            if !fresh.is_empty() && self.rng.chance(3, 4) {
                fresh[self.rng.usize_below(fresh.len())].clone()
            } else if !free.is_empty() {
                free[self.rng.usize_below(free.len())].clone()
            } else {
                format!("st{}", self.rng.below(5))
            }
        };
        let nc = self.rng.weighted(&[2, 10, 5, 2]);
        let have = self.stmt_kinds.get(&name).cloned().unwrap_or_default();
        let mut conds: Vec<Json> = Vec::new();
        let mut kinds: Vec<String> = have.clone();
        for _ in 0..nc {
            let c = self.cond();
            let k = c.at(0).as_str().to_string();
            // one condition per kind, as the table demands (sometimes try a duplicate anyway)
            if kinds.contains(&k) && !self.rng.chance(1, 10) {
                continue;
            }
            if kind_of_tag(&k).is_some() {
                let key = (kind_of_tag(&k).unwrap(), c.at(1).as_str().to_string());
                if !self.used_sets.contains(&key) {
                    self.used_sets.push(key);
                }
            }
            kinds.push(k);
            conds.push(c);
        }
        let merging = self.stmts.contains(&name);
        let disp = match self.rng.weighted(&[5, 4, 4]) {
            0 => Json::Null,
            1 => Json::from(1u64),
            _ => Json::from(2u64),
        };
        let disp = if merging && self.rng.chance(2, 3) { Json::Null } else { disp };
        let acts = if merging && self.rng.chance(2, 3) { Json::Obj(vec![]) } else { self.actions(true) };
        if !merging {
            self.stmts.push(name.clone());
        }
        self.stmt_kinds.insert(name.clone(), kinds);
        ops.push(jarr!["stmt", name, Json::Arr(conds), disp, acts]);
    }
    fn op_delstmt(&mut self, ops: &mut Vec<Json>, fault: bool) {
        let pool: Vec<String> = if fault { self.used_stmts.clone() } else { self.stmts.iter().filter(|n| !self.used_stmts.contains(n)).cloned().collect() };
        let name = if pool.is_empty() { format!("st{}", self.rng.below(5)) } else { pool[self.rng.usize_below(pool.len())].clone() };
        let all = self.rng.chance(1, 2);
        let kinds = self.stmt_kinds.get(&name).cloned().unwrap_or_default();
        let mut conds: Vec<Json> = Vec::new();
        if !all && !kinds.is_empty() && self.rng.chance(2, 3) {
            let k = kinds[self.rng.usize_below(kinds.len())].clone();
            // removal is by kind: the set name / value given does not matter
            conds.push(match kind_of_tag(&k) {
                Some(kind) => jarr![k.as_str(), self.set_name(kind), 0u64],
                None => match k.as_str() {
                    "plen" | "cc" => jarr![k.as_str(), 0u64, 0u64],
                    "nh" | "afi" => jarr![k.as_str(), Json::Arr(vec![])],
                    _ => jarr![k.as_str(), 0u64],
                },
            });
            if let Some(v) = self.stmt_kinds.get_mut(&name) {
                v.retain(|x| *x != k);
            }
        }
        let disp = if !all && self.rng.chance(1, 4) { Json::from(1u64) } else { Json::Null };
        let acts = if all || self.rng.chance(1, 2) { Json::Obj(vec![]) } else { self.actions(true) };
        if all && !fault {
            self.stmts.retain(|n| *n != name);
            self.stmt_kinds.remove(&name);
        }
        ops.push(jarr!["delstmt", name, all, Json::Arr(conds), disp, acts]);
    }
    fn op_pol(&mut self, ops: &mut Vec<Json>, fault: bool) {
        let name = if fault && !self.used_pols.is_empty() {
            self.used_pols[self.rng.usize_below(self.used_pols.len())].clone()
        } else {
            let free: Vec<String> = (0..4).map(|i| format!("pl{}", i)).filter(|n| !self.used_pols.contains(n)).collect();
            if free.is_empty() { format!("pl{}", self.rng.below(4)) } else { free[self.rng.usize_below(free.len())].clone() }
        };
        let ks = self.stmts.clone();
        let ns = self.rng.range(1, 3);
        let st: Vec<String> = (0..ns).map(|_| self.pick_name(&ks, "st", 5)).collect();
        for s in &st {
            if !self.used_stmts.contains(s) {
                self.used_stmts.push(s.clone());
            }
        }
        if !self.pols.contains(&name) {
            self.pols.push(name.clone());
        }
        ops.push(jarr!["pol", name, Json::Arr(st.into_iter().map(Json::from).collect())]);
    }
    fn op_delpol(&mut self, ops: &mut Vec<Json>, fault: bool) {
        let pool: Vec<String> = if fault { self.used_pols.clone() } else { self.pols.iter().filter(|n| !self.used_pols.contains(n)).cloned().collect() };
        let name = if pool.is_empty() { format!("pl{}", self.rng.below(4)) } else { pool[self.rng.usize_below(pool.len())].clone() };
        let ks = self.stmts.clone();
        let all = self.rng.chance(1, 2);
        let st: Vec<Json> = if all { vec![] } else { vec![Json::from(self.pick_name(&ks, "st", 5))] };
        if all && !fault {
            self.pols.retain(|n| *n != name);
            // approximate: statements of the policy may be free again
            self.used_stmts.clear();
        }
        ops.push(jarr!["delpol", name, self.rng.coin(), all, Json::Arr(st)]);
    }
    fn op_assign(&mut self, ops: &mut Vec<Json>) {
        let known = self.pols.clone();
        let np = self.rng.range(1, 2);
        let ps: Vec<String> = (0..np).map(|_| self.pick_name(&known, "pl", 4)).collect();
        for p in &ps {
            if !self.used_pols.contains(p) {
                self.used_pols.push(p.clone());
            }
        }
        let mode = if self.rng.chance(1, 3) { "add" } else { "set" };
        // import assignments refuse statements with a next-hop action: prefer export a little
        let dir = self.rng.weighted(&[2, 3]) as u64;
        ops.push(jarr!["assign", dir, *self.rng.pick(&[1u64, 1, 2, 2, 0]), Json::Arr(ps.into_iter().map(Json::from).collect()), mode]);
    }
    fn pick_name(&mut self, known: &[String], prefix: &str, n: u64) -> String {
        if !known.is_empty() && self.rng.chance(9, 10) { known[self.rng.usize_below(known.len())].clone() } else { format!("{}{}", prefix, self.rng.below(n)) }
    }
}

impl Check for PolicyHistories {
    fn property(&self) -> &'static str {
        "C14"
    }
    fn tier(&self) -> &'static str {
        "R"
    }
    fn name(&self) -> &'static str {
        "policy-histories"
    }

    fn generate(&self, seed: u64, thorough: bool) -> Json {
        let mut rng = Rng::new(seed);
        let trunk4 = (rng.next_u64() as u32 & 0x00ff_ffff) | 0x0a00_0000;
        let trunk6 = ((0x2001_0db8u128) << 96) | (rng.next_u64() as u128) << 32;
        let mut g = Gen { rng, trunk4, trunk6, sets: vec![], stmts: vec![], pols: vec![], used_sets: vec![], used_stmts: vec![], used_pols: vec![], stmt_kinds: BTreeMap::new() };
        let n_ops = g.rng.range(10, if thorough { 80 } else { 45 });
        let mut ops: Vec<Json> = Vec::new();
        // swarm: some cases never mutate after the build-up, some are CRUD-heavy
        let crud_heavy = g.rng.chance(1, 3);
        // build-up: sets, statements, policies, one or two assignments
        for _ in 0..g.rng.range(2, 5) {
            g.op_set(&mut ops, false);
        }
        for _ in 0..g.rng.range(1, 4) {
            g.op_stmt(&mut ops, false);
        }
        for _ in 0..g.rng.range(1, 2) {
            g.op_pol(&mut ops, false);
        }
        g.op_assign(&mut ops);
        if g.rng.coin() {
            g.op_assign(&mut ops);
        }
        while ops.len() < n_ops as usize {
            // a fault is an attempt to change something that is referenced
            let fault = g.rng.chance(1, 3);
            let w: [u32; 9] = if crud_heavy { [8, 8, 8, 6, 6, 5, 6, 3, 50] } else { [3, 3, 3, 2, 2, 2, 3, 1, 81] };
            match g.rng.weighted(&w) {
                0 => g.op_set(&mut ops, fault),
                1 => g.op_delset(&mut ops, fault),
                2 => g.op_stmt(&mut ops, fault),
                3 => g.op_delstmt(&mut ops, fault),
                4 => g.op_pol(&mut ops, fault),
                5 => g.op_delpol(&mut ops, fault),
                6 => g.op_assign(&mut ops),
                7 => {
                    let known = g.pols.clone();
                    let all = g.rng.chance(1, 2);
                    let ps: Vec<Json> = if all { vec![] } else { vec![Json::from(g.pick_name(&known, "pl", 4))] };
                    g.used_pols.clear(); // approximate: later ops are free to target any policy
                    ops.push(jarr!["delassign", g.rng.below(2), Json::Arr(ps), all]);
                }
                _ => {
                    let r = g.route();
                    ops.push(jarr!["eval", r, g.rng.below(4), g.rng.below(4), *g.rng.pick(&["192.0.2.200", "192.0.2.1", ""])]);
                }
            }
        }
        jobj! {"ops" => Json::Arr(ops)}
    }

    fn execute(&self, case: &Json, tol: &Tolerate) -> Outcome {
        let mut out = Outcome::default();
        let mut log = LogHash::default();
        let mut sig = LogHash::default();
        let mut pt = PolicyTable::new();
        let mut m = Model::default();
        let srcs = sources();
        let dsts = dests();
        // VRPs for the "rpki" condition: enough to give the routes of the scenario all three states
        let mut rpki = table::RpkiTable::new();
        let cache: Arc<IpAddr> = Arc::new("192.0.2.53".parse().unwrap());
        for (p, maxlen, asn) in [("0.0.0.0/1", 22u8, 65004u32), ("10.0.0.0/8", 32, 65001), ("10.128.0.0/9", 20, 65005), ("2001:db8::/32", 48, 65002), ("2001:db8:8000::/33", 44, 4_200_000_001)] {
            if let Ok(n) = p.parse::<rustybgp_packet::IpNet>() {
                rpki.insert(n, Arc::new(table::Roa::new(maxlen, asn, cache.clone())));
            }
        }

        'ops: for (i, op) in case.get("ops").map(|o| o.arr()).unwrap_or(&[]).iter().enumerate() {
            let tag = op.at(0).as_str();
            out.steps += 1;
            log.add_str(tag);
            // (ok, in_use_reason): the real result and whether the model says the target is referenced
            let mut judged: Option<(bool, Option<String>)> = None;
            match tag {
                "set" => {
                    let Some(kind) = kind_of_tag(op.at(1).as_str()) else { continue };
                    let name = op.at(2).as_str().to_string();
                    let (cfg, val) = set_from_json(kind, &name, op.at(3));
                    let replace = op.at(4).as_str() == "replace";
                    let exists = m.sets.contains_key(&(kind, name.clone()));
                    let in_use = if exists && m.set_in_use(kind, &name) { Some(format!("{} {} is referenced by a statement", KIND_TAGS[kind as usize], name)) } else { None };
                    let r = if replace { pt.replace_defined_set(cfg) } else { pt.add_defined_set(cfg) };
                    if r.is_ok() {
                        let key = (kind, name);
                        if replace || !exists {
                            m.sets.insert(key, val);
                        } else if let Some(old) = m.sets.get_mut(&key) {
                            merge_set(old, val);
                            out.hit("crud.set-merged");
                        }
                    }
                    judged = Some((r.is_ok(), in_use));
                }
                "delset" => {
                    let Some(kind) = kind_of_tag(op.at(1).as_str()) else { continue };
                    let name = op.at(2).as_str().to_string();
                    let all = op.at(3).as_bool();
                    let (cfg, val) = set_from_json(kind, &name, op.at(4));
                    let exists = m.sets.contains_key(&(kind, name.clone()));
                    let in_use = if exists && m.set_in_use(kind, &name) { Some(format!("{} {} is referenced by a statement", KIND_TAGS[kind as usize], name)) } else { None };
                    let r = pt.delete_defined_set(cfg, all);
                    if r.is_ok() {
                        let key = (kind, name);
                        if all {
                            m.sets.remove(&key);
                        } else if let Some(old) = m.sets.get_mut(&key) {
                            remove_from_set(kind, old, &val);
                        }
                    }
                    judged = Some((r.is_ok(), in_use));
                }
                "stmt" => {
                    let name = op.at(1).as_str().to_string();
                    let mut cfgs = Vec::new();
                    let mut conds = Vec::new();
                    for c in op.at(2).arr() {
                        let (cfg, mc) = cond_from_json(c, &m, &mut out);
                        cfgs.push(cfg);
                        conds.push(mc);
                    }
                    let disp = disp_from_json(op.at(3));
                    let (ra, ma) = actions_from_json(op.at(4));
                    let exists = m.stmts.contains_key(&name);
                    let in_use = if exists && m.stmt_in_use(&name) { Some(format!("statement {} is referenced by a policy", name)) } else { None };
                    let r = pt.add_statement(&name, cfgs, disp.map(disposition), ra);
                    if r.is_ok() {
                        match m.stmts.get_mut(&name) {
                            None => {
                                m.stmts.insert(name.clone(), MStmt { name, conds, disp, act: ma });
                            }
                            Some(s) => {
                                out.hit("crud.statement-merged");
                                s.conds.extend(conds);
                                if disp.is_some() {
                                    s.disp = disp;
                                }
                                macro_rules! mrg {
                                    ($f:ident) => {
                                        if ma.$f.is_some() {
                                            s.act.$f = ma.$f.clone();
                                        }
                                    };
                                }
                                mrg!(nh);
                                mrg!(comm);
                                mrg!(lp);
                                mrg!(med);
                                mrg!(pre);
                                mrg!(ext);
                                mrg!(large);
                                mrg!(origin);
                            }
                        }
                    }
                    judged = Some((r.is_ok(), in_use));
                }
                "delstmt" => {
                    let name = op.at(1).as_str().to_string();
                    let all = op.at(2).as_bool();
                    let mut cfgs = Vec::new();
                    let mut kinds = Vec::new();
                    for c in op.at(3).arr() {
                        let (cfg, mc) = cond_from_json(c, &m, &mut out);
                        cfgs.push(cfg);
                        kinds.push(mc.kind_id());
                    }
                    let disp = disp_from_json(op.at(4));
                    let (ra, ma) = actions_from_json(op.at(5));
                    let exists = m.stmts.contains_key(&name);
                    let in_use = if exists && m.stmt_in_use(&name) { Some(format!("statement {} is referenced by a policy", name)) } else { None };
                    let r = pt.delete_statement(&name, all, cfgs, disp.map(disposition), ra);
                    if r.is_ok() {
                        if all {
                            m.stmts.remove(&name);
                        } else if let Some(s) = m.stmts.get_mut(&name) {
                            for k in kinds {
                                if let Some(p) = s.conds.iter().position(|c| c.kind_id() == k) {
                                    s.conds.remove(p);
                                }
                            }
                            if disp.is_some() {
                                s.disp = None;
                            }
                            macro_rules! rm {
                                ($f:ident) => {
                                    if ma.$f.is_some() {
                                        s.act.$f = None;
                                    }
                                };
                            }
                            rm!(nh);
                            rm!(comm);
                            rm!(lp);
                            rm!(med);
                            rm!(pre);
                            rm!(ext);
                            rm!(large);
                            rm!(origin);
                        }
                    }
                    judged = Some((r.is_ok(), in_use));
                }
                "pol" => {
                    let name = op.at(1).as_str().to_string();
                    let snames = strs(op.at(2));
                    let exists = m.pols.contains_key(&name);
                    let in_use = if exists && m.pol_in_use(&name) { Some(format!("policy {} is referenced by an assignment", name)) } else { None };
                    let r = pt.add_policy(&name, snames.clone());
                    if r.is_ok() {
                        let copies: Vec<MStmt> = snames.iter().filter_map(|s| m.stmts.get(s).cloned()).collect();
                        if copies.len() != snames.len() {
                            out.hit("crud.policy-names-missing-statement");
                        }
                        match m.pols.get_mut(&name) {
                            None => {
                                m.pols.insert(name.clone(), MPol { name, stmts: copies });
                            }
                            Some(p) => {
                                out.hit("crud.policy-merged");
                                p.stmts.extend(copies);
                            }
                        }
                    }
                    judged = Some((r.is_ok(), in_use));
                }
                "delpol" => {
                    let name = op.at(1).as_str().to_string();
                    let (preserve, all) = (op.at(2).as_bool(), op.at(3).as_bool());
                    let snames = strs(op.at(4));
                    let exists = m.pols.contains_key(&name);
                    let in_use = if exists && m.pol_in_use(&name) { Some(format!("policy {} is referenced by an assignment", name)) } else { None };
                    let r = pt.delete_policy(&name, preserve, all, snames.clone());
                    if r.is_ok() {
                        let removed: Vec<String> = if all {
                            m.pols.remove(&name).map(|p| p.stmts.into_iter().map(|s| s.name).collect()).unwrap_or_default()
                        } else if let Some(p) = m.pols.get_mut(&name) {
                            let rm: Vec<String> = p.stmts.iter().filter(|s| snames.contains(&s.name)).map(|s| s.name.clone()).collect();
                            p.stmts.retain(|s| !snames.contains(&s.name));
                            rm
                        } else {
                            vec![]
                        };
                        if !preserve {
                            for s in removed {
                                if !m.pols.values().any(|p| p.stmts.iter().any(|x| x.name == s)) {
                                    m.stmts.remove(&s);
                                }
                            }
                        }
                    }
                    judged = Some((r.is_ok(), in_use));
                }
                "assign" => {
                    let dir = (op.at(1).as_usize()).min(1);
                    let default = op.at(2).as_u8().min(2);
                    let pnames = strs(op.at(3));
                    let add = op.at(4).as_str() == "add";
                    let d = if dir == 0 { PolicyDirection::Import } else { PolicyDirection::Export };
                    let ok = if add { pt.add_assignment("global", d, disposition(default), pnames.clone()).is_ok() } else { pt.set_policy_assignment("global", d, disposition(default), pnames.clone()).is_ok() };
                    if ok {
                        let mut pols: Vec<MPol> = pnames.iter().filter_map(|p| m.pols.get(p).cloned()).collect();
                        if add {
                            if let Some(old) = &m.assigns[dir] {
                                pols.extend(old.pols.iter().cloned());
                            }
                        }
                        m.assigns[dir] = Some(MAssign { default, pols });
                        out.hit("crud.assignment-installed");
                    } else {
                        out.hit("crud.assignment-refused");
                    }
                }
                "delassign" => {
                    let dir = (op.at(1).as_usize()).min(1);
                    let pnames = strs(op.at(2));
                    let all = op.at(3).as_bool();
                    let d = if dir == 0 { PolicyDirection::Import } else { PolicyDirection::Export };
                    if pt.delete_policy_assignment(d, &pnames, all).is_ok() {
                        if all {
                            m.assigns[dir] = None;
                        } else if let Some(a) = m.assigns[dir].as_mut() {
                            a.pols.retain(|p| !pnames.contains(&p.name));
                        }
                    }
                }
                "eval" => {
                    let route = route_from_json(op.at(1));
                    let (sd, src) = &srcs[op.at(2).as_usize() % srcs.len()];
                    let (peer_addr, local_addr, is_confed) = dsts[op.at(3).as_usize() % dsts.len()];
                    let default_nh: Option<IpAddr> = op.at(4).as_str().parse().ok();
                    let weird = route.weird();
                    let attrs = real_attrs(&route);
                    let net = route.pfx.nlri();
                    let to_nh = |a: IpAddr| match a {
                        IpAddr::V4(x) => Nexthop::V4(x),
                        IpAddr::V6(x) => Nexthop::V6(x),
                    };
                    if weird {
                        out.hit("fault.as-path-only-an-api-client-can-build");
                    }
                    for dir in 0..2usize {
                        let Some(masg) = m.assigns[dir].clone() else { continue };
                        let Some((_, rasg)) = pt.iter_assignments(if dir == 0 { 1 } else { 2 }).next() else {
                            let v = Violation::new("C14/crud/assignment-lost", format!("op {}: the model holds a {} assignment but the table lists none", i, ["import", "export"][dir]));
                            if out.violate(tol, v) {
                                break 'ops;
                            }
                            continue;
                        };
                        // reference
                        let mut ea = route.a.clone();
                        let rpki_of = |a: &RAttrs| -> Option<u8> {
                            let r = Route { pfx: route.pfx.clone(), a: a.clone(), tail: route.tail, nh: route.nh };
                            rpki.validate(src, &net, &real_attrs(&r)).map(|v| match v.state {
                                table::RpkiValidationState::NotFound => 0,
                                table::RpkiValidationState::Valid => 1,
                                table::RpkiValidationState::Invalid => 2,
                            })
                        };
                        let (ctx, mut enh) = if dir == 0 {
                            (Ctx { rpki: &rpki_of, src: sd, peer_addr: sd.remote, local_addr: sd.local, is_confed: false, original_nh: route.nh }, route.nh)
                        } else {
                            (Ctx { rpki: &rpki_of, src: sd, peer_addr, local_addr, is_confed, original_nh: route.nh }, default_nh.or(route.nh))
                        };
                        // the daemon hands the VRP table to the evaluation only when the assignment says it needs it
                        let rpki_arg = if rasg.needs_rpki { Some(&rpki) } else { None };
                        let edisp = ref_eval(&masg, &route.pfx, &mut ea, &mut enh, &ctx, &mut out);
                        // real
                        let (gdisp, gattrs, gnh) = if dir == 0 {
                            let mut nh = route.nh.map(to_nh);
                            let (filtered, a2) = table::apply_import(rasg, rpki_arg, src, &net, &attrs, &mut nh);
                            (if filtered { 2 } else { 1 }, a2, nh)
                        } else {
                            let mut a2 = attrs.clone();
                            let mut nh = default_nh.or(route.nh).map(to_nh);
                            let d = table::apply_export(rasg, rpki_arg, src, &net, &mut a2, &mut nh, route.nh.map(to_nh), is_confed, local_addr, peer_addr);
                            (disp_num(d), a2, nh)
                        };
                        out.hit(["eval.import", "eval.export"][dir]);
                        log.add_u64(gdisp as u64);
                        if weird {
                            continue; // totality only
                        }
                        out.nontrivial = true;
                        let exp_d = if dir == 0 { if edisp == 2 { 2 } else { 1 } } else { edisp };
                        sig.add_u64((exp_d as u64) << 8 | gdisp as u64);
                        let side = ["import", "export"][dir];
                        let brief = |m: &MAssign| {
                            let mut t = format!("{:?}", m);
                            t.truncate(1200);
                            t
                        };
                        if exp_d != gdisp {
                            let cause = disposition_cause(&masg, &route, &ctx);
                            let v = Violation::new(
                                format!("C14/eval/{}", cause),
                                format!("op {} ({}): route {} {:?} nh {:?} src {}: reference disposition {} but the table says {}; assignment {}", i, side, route.pfx, route.a, route.nh, op.at(2).as_usize() % srcs.len(), exp_d, gdisp, brief(&masg)),
                            );
                            if out.violate(tol, v) {
                                break 'ops;
                            }
                            continue;
                        }
                        if gdisp == 2 {
                            continue;
                        }
                        match read_back(&gattrs) {
                            Err(e) => {
                                let v = Violation::new("C14/eval/attributes-unreadable", format!("op {} ({}): {}", i, side, e));
                                if out.violate(tol, v) {
                                    break 'ops;
                                }
                            }
                            Ok(mut ga) => {
                                ga.path = norm_path(&ga.path);
                                ea.path = norm_path(&ea.path);
                                let gnh_ip = gnh.map(|n| n.addr());
                                if ga != ea || gnh_ip != enh {
                                    let field = if ga.path != ea.path {
                                        "as-path"
                                    } else if ga.comm != ea.comm {
                                        "community"
                                    } else if ga.med != ea.med {
                                        "med"
                                    } else if ga.lp != ea.lp {
                                        "local-pref"
                                    } else if ga.origin != ea.origin {
                                        "origin"
                                    } else if ga.ext != ea.ext {
                                        "ext-community"
                                    } else if ga.large != ea.large {
                                        "large-community"
                                    } else {
                                        "nexthop"
                                    };
                                    let cause = disposition_cause(&masg, &route, &ctx);
                                    let v = Violation::new(
                                        format!("C14/eval/{}", cause),
                                        format!("op {} ({}): route {} in {:?} nh {:?}: {} differs: reference gives {:?} nh {:?} but the table gives {:?} nh {:?}; assignment {}", i, side, route.pfx, route.a, route.nh, field, ea, enh, ga, gnh_ip, brief(&masg)),
                                    );
                                    if out.violate(tol, v) {
                                        break 'ops;
                                    }
                                }
                            }
                        }
                    }
                }
                _ => {}
            }
            if let Some((ok, in_use)) = judged {
                log.add_u64(ok as u64);
                sig.add_u64(ok as u64 | (in_use.is_some() as u64) << 1);
                match (&in_use, ok) {
                    (Some(why), true) => {
                        let v = Violation::new(format!("C14/in-use/{}", tag), format!("op {} {}: accepted although {}", i, op.to_compact(), why));
                        if out.violate(tol, v) {
                            break 'ops;
                        }
                    }
                    (Some(_), false) => {
                        out.hit("fault.change-of-referenced-object-refused");
                        out.nontrivial = true;
                    }
                    (None, false) => out.hit(&format!("crud.refused.{}", tag)),
                    (None, true) => out.hit(&format!("crud.ok.{}", tag)),
                }
                // referenced objects must stay listed; any other difference means the model lost track
                let (missing, other) = names_differ(&pt, &m);
                if let Some(d) = missing {
                    let v = Violation::new("C14/in-use/referenced-object-missing", format!("after op {} {} (result ok={}): {}", i, op.to_compact(), ok, d));
                    out.violate(tol, v);
                    break 'ops;
                }
                if other.is_some() {
                    out.hit("model.desync-run-cut-short");
                    break 'ops;
                }
            }
        }
        out.signature = sig.0;
        out.log_hash = log.0;
        out
    }

    fn info(&self) -> CheckInfo {
        CheckInfo {
            rule: "history of add/merge/replace/delete on defined sets (6 kinds), statements, policies and the import/export assignments, mixed with evaluations of generated routes through apply_import/apply_export (conditions: the six set kinds, AS_PATH length, next hop, LOCAL_PREF, MED, ORIGIN, route type, community count, address family, and the RPKI validation state against a fixed VRP table that is handed to the evaluation only when the assignment says it needs it, as the daemon does); sets use nested, overlapping and same-prefix entries on a per-case trunk; non-trivial = a well-formed route was evaluated against a live assignment or a change to a referenced object was attempted; distinct = hash of (result, in-use) and (expected, got) sequences".into(),
            components_real: vec![
                "table::PolicyTable CRUD (add_defined_set, replace_defined_set, delete_defined_set, add_statement, delete_statement, add_policy, delete_policy, add_assignment, set_policy_assignment, delete_policy_assignment)".into(),
                "table::apply_import / apply_export (Condition::evalute, Statement::apply, Policy::apply, PolicyAssignment::apply)".into(),
                "packet::Attribute AS_PATH helpers (AsPathIter, as_path_length, as_path_prepend, as_path_prepend_confed)".into(),
            ],
            components_stubbed: vec!["RPKI condition not generated (validation itself is C12)".into(), "per-peer assignments live in the daemon crate and are not part of this tier".into()],
            assumptions: vec![
                "community / ext-community / large-community patterns are generated in exact forms only (A:B, decimal, well-known names, ^...$ literals), AS-path patterns in the eight single-AS forms, so the reference needs no regex engine".into(),
                "routes whose AS_PATH only an API client can build (empty segment, unknown segment type, dangling byte) are judged for totality only".into(),
                "same-type adjacent AS_SEQUENCE segments are compared after merging".into(),
            ],
            bounds: "<=70 ops, <=3 sets per kind, 5 statements, 4 policies, 4 sources, 4 destinations".into(),
        }
    }
}

/// Name the construct that decides a disposition mismatch, for a stable violation class.
fn disposition_cause(asg: &MAssign, route: &Route, ctx: &Ctx) -> String {
    // the first statement whose reference verdict is decisive: name the condition kinds involved
    let mut kinds: Vec<&'static str> = Vec::new();
    for p in &asg.pols {
        for s in &p.stmts {
            for c in &s.conds {
                let k = match c {
                    MCond::Set { kind, opt, val, .. } => match (*kind, *opt) {
                        (K_PREFIX, _) => {
                            if let SetVal::Prefix(e) = val {
                                let host = Pfx { v6: route.pfx.v6, bits: route.pfx.bits, len: if route.pfx.v6 { 128 } else { 32 } };
                                let covering: Vec<_> = e.iter().filter(|(p, _, _)| p.covers(&host)).collect();
                                if covering.len() > 1 { "prefix-set-nested" } else { "prefix-set" }
                            } else {
                                "prefix-set"
                            }
                        }
                        (K_NEIGH, _) => "neighbor-set",
                        (K_ASPATH, 1) => "as-path-set-all",
                        (K_ASPATH, _) => "as-path-set",
                        (K_COMM, _) => "community-set",
                        (K_EXT, _) => "ext-community-set",
                        _ => "large-community-set",
                    },
                    MCond::PathLen(..) => "as-path-length",
                    MCond::Nexthop(..) => "nexthop",
                    MCond::LpEq(..) => "local-pref",
                    MCond::MedEq(..) => "med",
                    MCond::Origin(..) => "origin",
                    MCond::RouteType(..) => "route-type",
                    MCond::CommCount(..) => "community-count",
                    MCond::Afi(..) => "afi-safi",
                    MCond::Rpki(..) => "rpki",
                };
                if !kinds.contains(&k) {
                    kinds.push(k);
                }
            }
        }
    }
    let _ = ctx;
    kinds.sort();
    // keep the class short: the rarest-looking kinds first
    for pri in ["prefix-set-nested", "as-path-set-all"] {
        if kinds.contains(&pri) {
            return pri.to_string();
        }
    }
    if kinds.len() == 1 { kinds[0].to_string() } else { "mixed".to_string() }
}

/// (a referenced object is no longer listed, the listings differ in some other way)
fn names_differ(pt: &PolicyTable, m: &Model) -> (Option<String>, Option<String>) {
    use table::DefinedSetRef as R;
    let mut real_sets: Vec<(u8, String)> = pt
        .iter_defined_sets()
        .map(|r| match r {
            R::Prefix(n, _) => (K_PREFIX, n.to_string()),
            R::Neighbor(n, _) => (K_NEIGH, n.to_string()),
            R::AsPath(n, _) => (K_ASPATH, n.to_string()),
            R::Community(n, _) => (K_COMM, n.to_string()),
            R::ExtCommunity(n, _) => (K_EXT, n.to_string()),
            R::LargeCommunity(n, _) => (K_LARGE, n.to_string()),
        })
        .collect();
    real_sets.sort();
    let mut rs: Vec<String> = pt.iter_statements(String::new()).map(|s| s.name.to_string()).collect();
    rs.sort();
    let mut rp: Vec<String> = pt.iter_policies(String::new()).map(|p| p.name.to_string()).collect();
    rp.sort();
    // referenced objects
    for s in m.all_stmt_copies() {
        for c in &s.conds {
            if let MCond::Set { kind, name, .. } = c {
                if !real_sets.contains(&(*kind, name.clone())) {
                    return (Some(format!("{} {} is referenced by statement {} but is no longer listed", KIND_TAGS[*kind as usize], name, s.name)), None);
                }
            }
        }
    }
    for p in m.pols.values().chain(m.assigns.iter().flatten().flat_map(|a| a.pols.iter())) {
        for s in &p.stmts {
            if !rs.contains(&s.name) {
                return (Some(format!("statement {} is referenced by policy {} but is no longer listed", s.name, p.name)), None);
            }
        }
    }
    for a in m.assigns.iter().flatten() {
        for p in &a.pols {
            if !rp.contains(&p.name) {
                return (Some(format!("policy {} is referenced by an assignment but is no longer listed", p.name)), None);
            }
        }
    }
    let model_sets: Vec<(u8, String)> = m.sets.keys().cloned().collect();
    if real_sets != model_sets {
        return (None, Some(format!("defined sets: table {:?} model {:?}", real_sets, model_sets)));
    }
    let ms: Vec<String> = m.stmts.keys().cloned().collect();
    if rs != ms {
        return (None, Some(format!("statements: table {:?} model {:?}", rs, ms)));
    }
    let mp: Vec<String> = m.pols.keys().cloned().collect();
    if rp != mp {
        return (None, Some(format!("policies: table {:?} model {:?}", rp, mp)));
    }
    (None, None)
}

