//! Tier W — wire decoders under stream faults (C03).
//!
//! The "network" of a stream reader is its byte transport: the simulator delivers valid traffic
//! (generated with the repository's own encoder, or hand-built for RTR/BFD) through a transport
//! that fragments arbitrarily, truncates + EOFs at any offset, flips bits, inserts/deletes bytes,
//! duplicates and splices frames, and rewrites *located* length fields to boundary values.  The
//! driver loop has the shape of `run_select` (`append chunk; loop { try_parse }`) and of tokio's
//! `Framed` for RTR.

use crate::vals::*;
use bytes::{BufMut, BytesMut};
use rustybgp_packet::bgp::{self, Nexthop};
use rustybgp_packet::{self as packet, Attribute, Capability, Family, Nlri, PathNlri};
use std::net::{IpAddr, Ipv4Addr, Ipv6Addr};
use std::sync::Arc;
use tokio_util::codec::Decoder;
use vcore::*;

pub const ALL_FAMILIES: [Family; 20] = [
    Family::IPV4,
    Family::IPV6,
    Family::IPV4_MC,
    Family::IPV6_MC,
    Family::IPV4_MPLS,
    Family::IPV6_MPLS,
    Family::LS,
    Family::IPV4_MUP,
    Family::IPV6_MUP,
    Family::IPV4_VPN,
    Family::IPV6_VPN,
    Family::IPV4_FLOWSPEC,
    Family::IPV6_FLOWSPEC,
    Family::IPV4_FLOWSPEC_VPN,
    Family::IPV6_FLOWSPEC_VPN,
    Family::IPV4_SRPOLICY,
    Family::IPV6_SRPOLICY,
    Family::L2VPN_EVPN,
    Family::RTC,
    Family::EMPTY,
];

/// Families for which the generator can build NLRI values through public constructors.
pub const GEN_FAMILIES: [Family; 12] = [
    Family::IPV4,
    Family::IPV6,
    Family::IPV4_MC,
    Family::IPV4_MPLS,
    Family::IPV6_MPLS,
    Family::IPV4_VPN,
    Family::IPV6_VPN,
    Family::L2VPN_EVPN,
    Family::RTC,
    Family::IPV4_SRPOLICY,
    Family::IPV4_FLOWSPEC,
    Family::IPV6_SRPOLICY,
];

pub fn fam_to_u(f: Family) -> u64 {
    ((f.afi() as u64) << 8) | f.safi() as u64
}
pub fn fam_from_u(v: u64) -> Family {
    Family::new((v >> 8) as u16, (v & 0xff) as u8)
}

fn rd(i: u64) -> packet::rd::RouteDistinguisher {
    match i % 3 {
        0 => packet::rd::RouteDistinguisher::TwoOctetAs { admin: 65000, assigned: i as u32 },
        1 => packet::rd::RouteDistinguisher::Ipv4 { admin: Ipv4Addr::new(10, 0, 0, 1), assigned: i as u16 },
        _ => packet::rd::RouteDistinguisher::FourOctetAs { admin: 4_200_000_000, assigned: i as u16 },
    }
}

fn labels(i: u64) -> packet::mpls::MplsLabelStack {
    packet::mpls::MplsLabelStack::new(vec![packet::mpls::MplsLabel::new(16 + (i as u32 % 1000))])
}

/// One NLRI of `family`, determined by `i` (so that op lists stay small integers).
pub fn nlri_of(family: Family, i: u64) -> Option<Nlri> {
    let v4 = bgp::Ipv4Net { addr: Ipv4Addr::new(10, (i >> 8) as u8, i as u8, 0), mask: 8 + (i % 25) as u8 };
    let v4 = bgp::Ipv4Net { addr: Ipv4Addr::from(mask_v4(u32::from(v4.addr), v4.mask)), mask: v4.mask };
    let v6m = 16 + (i % 113) as u8;
    let v6 = bgp::Ipv6Net { addr: Ipv6Addr::from(mask_v6((0x2001_0db8u128 << 96) | ((i as u128) << 64) | 0xffff_ffff, v6m)), mask: v6m };
    Some(match family {
        f if f == Family::IPV4 || f == Family::IPV4_MC => Nlri::V4(v4),
        f if f == Family::IPV6 || f == Family::IPV6_MC => Nlri::V6(v6),
        f if f == Family::IPV4_MPLS => Nlri::LabeledV4(packet::labeled::LabeledV4Nlri { labels: labels(i), prefix: v4 }),
        f if f == Family::IPV6_MPLS => Nlri::LabeledV6(packet::labeled::LabeledV6Nlri { labels: labels(i), prefix: v6 }),
        f if f == Family::IPV4_VPN => Nlri::VpnV4(packet::vpn::VpnV4Nlri { labels: labels(i), rd: rd(i), prefix: v4 }),
        f if f == Family::IPV6_VPN => Nlri::VpnV6(packet::vpn::VpnV6Nlri { labels: labels(i), rd: rd(i), prefix: v6 }),
        f if f == Family::RTC => Nlri::Rtc(packet::rtc::RtcNlri {
            match_type: match i % 3 {
                0 => packet::rtc::MatchType::Wildcard,
                1 => packet::rtc::MatchType::AsWildcard { origin_as: 65000 + i as u32 },
                _ => packet::rtc::MatchType::ExactMatch { origin_as: 65000, route_target: [0, 2, 0xfd, 0xe8, 0, 0, 0, i as u8] },
            },
        }),
        f if f == Family::IPV4_SRPOLICY => Nlri::SrPolicy(packet::sr_policy::SrPolicyNlri { distinguisher: i as u32, color: 100, endpoint: IpAddr::V4(Ipv4Addr::new(192, 0, 2, i as u8)) }),
        f if f == Family::IPV6_SRPOLICY => Nlri::SrPolicy(packet::sr_policy::SrPolicyNlri { distinguisher: i as u32, color: 100, endpoint: IpAddr::V6(v6.addr) }),
        f if f == Family::IPV4_FLOWSPEC => Nlri::FlowspecV4(packet::flowspec::FlowspecV4Nlri {
            components: vec![
                packet::flowspec::FlowspecV4Component::DstPrefix(v4),
                packet::flowspec::FlowspecV4Component::Protocol(vec![packet::flowspec::Op { bits: packet::flowspec::Op::END | packet::flowspec::Op::EQ, value: 6 + i % 2 }]),
            ],
        }),
        f if f == Family::L2VPN_EVPN => Nlri::Evpn(match i % 5 {
            0 => packet::evpn::EvpnNlri::EthernetAutoDiscovery(packet::evpn::EthernetAutoDiscoveryRoute { rd: rd(i), esi: packet::evpn::Esi::ZERO, etag: i as u32, label: 100 }),
            1 => packet::evpn::EvpnNlri::MacIpAdvertisement(packet::evpn::MacIpAdvertisement {
                rd: rd(i),
                esi: packet::evpn::Esi::ZERO,
                etag: 0,
                mac: [0, 0, 0x5e, 0, 1, i as u8],
                ip: if i % 2 == 0 { Some(IpAddr::V4(Ipv4Addr::new(10, 9, 9, i as u8))) } else { None },
                label1: 100,
                label2: if i % 3 == 0 { Some(200) } else { None },
            }),
            2 => packet::evpn::EvpnNlri::InclusiveMulticastEthernetTag(packet::evpn::InclusiveMulticastEthernetTag { rd: rd(i), etag: 0, originating_router_ip: IpAddr::V4(Ipv4Addr::new(10, 0, 0, i as u8)) }),
            3 => packet::evpn::EvpnNlri::EthernetSegment(packet::evpn::EthernetSegmentRoute { rd: rd(i), esi: packet::evpn::Esi::ZERO, originating_router_ip: IpAddr::V4(Ipv4Addr::new(10, 0, 0, i as u8)) }),
            _ => packet::evpn::EvpnNlri::EthernetIpPrefix(packet::evpn::EthernetIpPrefixRoute {
                rd: rd(i),
                esi: packet::evpn::Esi::ZERO,
                etag: 0,
                ip_prefix: IpAddr::V4(v4.addr),
                prefix_len: v4.mask,
                gateway_ip: IpAddr::V4(Ipv4Addr::UNSPECIFIED),
                label: 300,
            }),
        }),
        _ => return None,
    })
}

pub fn nexthop_for(family: Family, ext_nh: bool, i: u64) -> Option<Nexthop> {
    if family == Family::IPV4_FLOWSPEC {
        return None;
    }
    let v6 = match i % 3 {
        0 => Nexthop::V6(Ipv6Addr::new(0x2001, 0xdb8, 0xffff, 0, 0, 0, 0, 1)),
        _ => Nexthop::V6LinkLocal(Ipv6Addr::new(0x2001, 0xdb8, 0xffff, 0, 0, 0, 0, 1), Ipv6Addr::new(0xfe80, 0, 0, 0, 0, 0, 0, 1)),
    };
    if family.afi() == Family::AFI_IP6 || (ext_nh && i % 2 == 0 && family.afi() == Family::AFI_IP) {
        Some(v6)
    } else {
        Some(Nexthop::V4(Ipv4Addr::new(192, 0, 2, 1 + (i % 3) as u8)))
    }
}

/// Attribute list drawn from every attribute kind the daemon knows, within wire limits.
pub fn gen_attrs(rng: &mut Rng, big: bool) -> Vec<Attribute> {
    let mut v = vec![attr_origin(rng.below(3) as u8)];
    let n_seg = rng.range(0, 3);
    let mut segs = Vec::new();
    for _ in 0..n_seg {
        let t = *rng.pick(&[2u8, 2, 1, 3, 4]);
        let n = if big && rng.chance(1, 3) { rng.range(100, 255) } else { rng.range(1, 4) };
        segs.push((t, (0..n).map(|k| *rng.pick(&[65001u32, 64512, 4_200_000_000, 23456]) + (k as u32 % 3)).collect::<Vec<u32>>()));
    }
    v.push(attr_as_path(&segs));
    if rng.coin() {
        v.push(attr_med(rng.next_u32()));
    }
    if rng.coin() {
        v.push(attr_local_pref(rng.below(1000) as u32));
    }
    if rng.chance(1, 4) {
        v.push(Attribute::new_with_bin(Attribute::ATOMIC_AGGREGATE, vec![]).unwrap());
    }
    if rng.chance(1, 4) {
        let mut b = Vec::new();
        b.extend_from_slice(&(*rng.pick(&[65010u32, 4_200_000_001])).to_be_bytes());
        b.extend_from_slice(&[10, 0, 0, 1]);
        v.push(Attribute::new_with_bin(Attribute::AGGREGATOR, b).unwrap());
    }
    if rng.chance(1, 2) {
        let n = if big { rng.range(1, 400) } else { rng.range(1, 4) };
        v.push(attr_communities(&(0..n).map(|k| 0xfde8_0000 + k as u32).collect::<Vec<_>>()));
    }
    if rng.chance(1, 4) {
        v.push(attr_originator(0x0a00_0001));
        v.push(attr_cluster_list(&[0x0a00_00fe]));
    }
    if rng.chance(1, 3) {
        let n = rng.range(1, if big { 200 } else { 3 });
        let mut b = Vec::new();
        for k in 0..n {
            b.extend_from_slice(&[0x00, 0x02, 0xfd, 0xe8, 0, 0, (k >> 8) as u8, k as u8]);
        }
        v.push(Attribute::new_with_bin(Attribute::EXTENDED_COMMUNITY, b).unwrap());
    }
    if rng.chance(1, 4) {
        let n = rng.range(1, if big { 150 } else { 2 });
        let mut b = Vec::new();
        for k in 0..n {
            b.extend_from_slice(&65000u32.to_be_bytes());
            b.extend_from_slice(&(k as u32).to_be_bytes());
            b.extend_from_slice(&7u32.to_be_bytes());
        }
        v.push(Attribute::new_with_bin(Attribute::LARGE_COMMUNITY, b).unwrap());
    }
    if rng.chance(1, 6) {
        // unknown optional transitive / non-transitive attribute
        let flags = if rng.coin() { 0xc0 } else { 0x80 };
        v.push(Attribute::new_opaque(*rng.pick(&[99u8, 200, 254]), flags, (0..rng.range(0, 12)).map(|x| x as u8).collect()));
    }
    v.sort_by_key(|a| a.code());
    v
}

pub fn gen_caps(rng: &mut Rng, fams: &[Family]) -> Vec<Capability> {
    let mut caps: Vec<Capability> = fams.iter().map(|f| Capability::MultiProtocol(*f)).collect();
    if rng.coin() {
        let v: Vec<(Family, u8)> = fams.iter().filter_map(|f| if rng.coin() { Some((*f, rng.range(1, 3) as u8)) } else { None }).collect();
        if !v.is_empty() {
            caps.push(Capability::AddPath(v));
        }
    }
    if rng.chance(3, 4) {
        caps.push(Capability::FourOctetAsNumber(*rng.pick(&[65000u32, 4_200_000_000])));
    }
    if rng.coin() {
        caps.push(Capability::ExtendedMessage);
    }
    if rng.chance(1, 3) {
        let v: Vec<(Family, u16)> = fams.iter().filter(|f| f.afi() == Family::AFI_IP).map(|f| (*f, Family::AFI_IP6)).collect();
        if !v.is_empty() {
            caps.push(Capability::ExtendedNexthop(v));
        }
    }
    if rng.chance(1, 3) {
        caps.push(Capability::GracefulRestart { flags: rng.below(16) as u8, restart_time: rng.below(4096) as u16, families: fams.iter().map(|f| (*f, 0x80)).collect() });
    }
    if rng.chance(1, 4) {
        caps.push(Capability::LongLivedGracefulRestart(fams.iter().map(|f| (*f, 0, rng.below(1 << 24) as u32)).collect()));
    }
    if rng.chance(1, 4) {
        caps.push(Capability::RouteRefresh);
        caps.push(Capability::EnhancedRouteRefresh);
    }
    if rng.chance(1, 5) {
        caps.push(Capability::Fqdn { hostname: "r1".into(), domain: "example.net".into() });
    }
    if rng.chance(1, 5) {
        caps.push(Capability::Unknown { code: 250, bin: vec![1, 2, 3] });
    }
    caps
}

/// A message described compactly: kind, family, count, attribute seed.
pub fn build_message(rng: &mut Rng, fams: &[Family], ext_nh: bool) -> bgp::Message {
    match rng.weighted(&[2, 8, 3, 1, 1, 1, 1]) {
        0 => bgp::Message::Open(bgp::Open {
            as_number: *rng.pick(&[65001u32, 4_200_000_000]),
            holdtime: packet::HoldTime::new(*rng.pick(&[0u16, 3, 90, 65535])).unwrap(),
            router_id: rng.next_u32() | 1,
            capability: gen_caps(rng, fams),
        }),
        1 => {
            let f = *rng.pick(fams);
            let n = *rng.pick(&[1u64, 1, 2, 5, 40]);
            let base = rng.below(200);
            let pid = rng.below(3) as u32;
            let entries: Vec<PathNlri> = (0..n).filter_map(|k| nlri_of(f, base + k)).map(|nlri| PathNlri { path_id: pid, nlri }).collect();
            let big = rng.chance(1, 10);
            bgp::Message::Update(bgp::Update::Reach { family: f, entries, nexthop: nexthop_for(f, ext_nh, base), attr: Arc::new(gen_attrs(rng, big)) })
        }
        2 => {
            let f = *rng.pick(fams);
            let n = *rng.pick(&[1u64, 2, 30]);
            let base = rng.below(200);
            let entries: Vec<PathNlri> = (0..n).filter_map(|k| nlri_of(f, base + k)).map(|nlri| PathNlri { path_id: 0, nlri }).collect();
            bgp::Message::Update(bgp::Update::Unreach { family: f, entries })
        }
        3 => bgp::Message::eor(*rng.pick(fams)),
        4 => bgp::Message::Keepalive,
        5 => bgp::Message::RouteRefresh { family: *rng.pick(fams) },
        _ => bgp::Message::Notification(packet::Notification::from_notification(rng.range(1, 7) as u8, rng.below(12) as u8, (0..rng.below(6)).map(|x| x as u8).collect())),
    }
}

/// A well-framed UPDATE whose MP_REACH_NLRI / MP_UNREACH_NLRI body is written by hand for families
/// the constructors above do not cover (BGP-LS, MUP, flowspec-VPN, ...) or cover only in their
/// canonical shapes: type-length-value structures whose inner lengths are mostly right and sometimes
/// one short or one long, so that the per-family NLRI decoders see self-consistent frames with
/// inconsistent insides.
pub fn raw_update_frame(rng: &mut Rng, family: Family) -> Vec<u8> {
    fn tlv(t: u16, v: &[u8], skew: i64) -> Vec<u8> {
        let mut b = t.to_be_bytes().to_vec();
        b.extend_from_slice(&(((v.len() as i64 + skew).max(0)) as u16).to_be_bytes());
        b.extend_from_slice(v);
        b
    }
    let skew = |rng: &mut Rng| -> i64 { *rng.pick(&[0i64, 0, 0, 0, 0, -1, 1, -2, 3]) };
    let mut nlri: Vec<u8> = Vec::new();
    let n = rng.range(1, 3);
    for _ in 0..n {
        if family == Family::LS {
            // NLRI type 1 node, 2 link, 3 IPv4 prefix, 4 IPv6 prefix
            let t = rng.range(1, 4) as u16;
            let mut body = vec![rng.range(1, 7) as u8];
            body.extend_from_slice(&rng.next_u64().to_be_bytes());
            let node_desc = |rng: &mut Rng| -> Vec<u8> {
                let mut d = Vec::new();
                if rng.chance(4, 5) {
                    let s = skew(rng);
                    d.extend(tlv(512, &65001u32.to_be_bytes(), s));
                }
                if rng.chance(1, 2) {
                    let s = skew(rng);
                    d.extend(tlv(513, &1u32.to_be_bytes(), s));
                }
                if rng.chance(4, 5) {
                    let s = skew(rng);
                    let id: Vec<u8> = (0..*rng.pick(&[4usize, 6, 7, 8])).map(|k| k as u8 + 1).collect();
                    d.extend(tlv(515, &id, s));
                }
                d
            };
            let nd = node_desc(rng);
            let s = skew(rng);
            body.extend(tlv(256, &nd, s));
            if t == 2 {
                let rd = node_desc(rng);
                let s = skew(rng);
                body.extend(tlv(257, &rd, s));
                if rng.chance(1, 2) {
                    let s = skew(rng);
                    body.extend(tlv(258, &[0, 0, 0, 1, 0, 0, 0, 2], s));
                }
                if rng.chance(1, 2) {
                    let s = skew(rng);
                    body.extend(tlv(259, &[10, 0, 0, 1], s));
                }
                if rng.chance(1, 3) {
                    let s = skew(rng);
                    body.extend(tlv(261, &[0x20, 1, 0xd, 0xb8, 0, 0, 0, 0, 0, 0, 0, 0, 0, 0, 0, 1], s));
                }
            }
            if t >= 3 {
                if rng.chance(1, 3) {
                    let s = skew(rng);
                    body.extend(tlv(263, &[0, 2], s));
                }
                if rng.chance(1, 3) {
                    let s = skew(rng);
                    body.extend(tlv(264, &[1], s));
                }
                // IP reachability: prefix length + the octets it needs (or one fewer / one more)
                let plen = if t == 3 { *rng.pick(&[0u8, 8, 24, 25, 32, 33]) } else { *rng.pick(&[0u8, 48, 64, 127, 128, 129]) };
                let need = (plen as usize).div_ceil(8);
                let have = (need as i64 + *rng.pick(&[0i64, 0, 0, -1, 1])).max(0) as usize;
                let mut v = vec![plen];
                v.extend((0..have).map(|k| 10 + k as u8));
                let s = skew(rng);
                body.extend(tlv(265, &v, s));
            }
            let s = skew(rng);
            let mut rec = t.to_be_bytes().to_vec();
            rec.extend_from_slice(&(((body.len() as i64 + s).max(0)) as u16).to_be_bytes());
            rec.extend(body);
            nlri.extend(rec);
        } else {
            // length-prefixed blob with a small inner structure
            let l = rng.range(0, 40) as usize;
            let mut v: Vec<u8> = (0..l).map(|_| rng.next_u32() as u8).collect();
            if !v.is_empty() && rng.chance(2, 3) {
                v[0] = *rng.pick(&[1u8, 2, 3, 4, 5]);
            }
            let s = skew(rng);
            nlri.push(((v.len() as i64 * if rng.coin() { 8 } else { 1 } + s).clamp(0, 255)) as u8);
            nlri.extend(v);
        }
    }
    let reach = rng.chance(3, 4);
    let mut mp = Vec::new();
    mp.extend_from_slice(&family.afi().to_be_bytes());
    mp.push(family.safi());
    if reach {
        let nh: Vec<u8> = if rng.coin() { vec![192, 0, 2, 1] } else { vec![0x20, 1, 0xd, 0xb8, 0, 0, 0, 0, 0, 0, 0, 0, 0, 0, 0, 1] };
        mp.push(nh.len() as u8);
        mp.extend(nh);
        mp.push(0);
    }
    mp.extend(nlri);
    let mut attrs: Vec<u8> = vec![0x40, 1, 1, 0, 0x40, 2, 6, 2, 1, 0, 0, 0xfd, 0xe9];
    attrs.extend_from_slice(&[0x90, if reach { 14 } else { 15 }]);
    attrs.extend_from_slice(&(mp.len() as u16).to_be_bytes());
    attrs.extend(mp);
    let mut f = vec![0xffu8; 16];
    let total = 19 + 2 + 2 + attrs.len();
    f.extend_from_slice(&(total as u16).to_be_bytes());
    f.push(2);
    f.extend_from_slice(&[0, 0]);
    f.extend_from_slice(&(attrs.len() as u16).to_be_bytes());
    f.extend(attrs);
    f
}

// ---- transport faults ------------------------------------------------------------------------

/// Locate length fields of a BGP frame: (offset, width in bytes, description).
pub fn length_fields(frame: &[u8]) -> Vec<(usize, usize, &'static str)> {
    let mut v = vec![(16usize, 2usize, "header-length")];
    if frame.len() < 19 {
        return v;
    }
    match frame[18] {
        1 if frame.len() >= 29 => {
            v.push((28, 1, "open-optparam-length"));
            let mut i = 29;
            while i + 2 <= frame.len() {
                v.push((i + 1, 1, "open-param-length"));
                let plen = frame[i + 1] as usize;
                if frame[i] == 2 {
                    let mut j = i + 2;
                    while j + 2 <= (i + 2 + plen).min(frame.len()) {
                        v.push((j + 1, 1, "capability-length"));
                        j += 2 + frame[j + 1] as usize;
                    }
                }
                i += 2 + plen;
            }
        }
        2 if frame.len() >= 23 => {
            v.push((19, 2, "withdrawn-length"));
            let wl = u16::from_be_bytes([frame[19], frame[20]]) as usize;
            if 21 + wl + 2 <= frame.len() {
                v.push((21 + wl, 2, "attribute-block-length"));
                let al = u16::from_be_bytes([frame[21 + wl], frame[22 + wl]]) as usize;
                let mut i = 23 + wl;
                let end = (23 + wl + al).min(frame.len());
                while i + 3 <= end {
                    let ext = frame[i] & 0x10 != 0;
                    let (alen, hdr) = if ext && i + 4 <= end { (u16::from_be_bytes([frame[i + 2], frame[i + 3]]) as usize, 4) } else { (frame[i + 2] as usize, 3) };
                    v.push((i + 2, if ext { 2 } else { 1 }, "attribute-length"));
                    if frame[i + 1] == 14 && i + hdr + 4 <= end {
                        v.push((i + hdr + 3, 1, "mp-reach-nexthop-length"));
                        let nhl = frame[i + hdr + 3] as usize;
                        if i + hdr + 5 + nhl < end {
                            v.push((i + hdr + 5 + nhl, 1, "first-nlri-length"));
                        }
                    }
                    if frame[i + 1] == 2 && i + hdr + 2 <= end {
                        v.push((i + hdr + 1, 1, "as-path-segment-count"));
                    }
                    i += hdr + alen;
                }
                if end < frame.len() {
                    v.push((end, 1, "first-legacy-nlri-length"));
                }
            }
        }
        _ => {}
    }
    v
}

#[derive(Clone, Debug)]
pub enum Fault {
    BitFlip(usize, u8),
    Insert(usize, u8),
    Delete(usize),
    Truncate(usize),
    SetLen(usize, usize, u64), // offset, width, value
    DupFrame(usize),
    Splice(usize, usize), // take prefix of frame a up to offset, then frame b
}

pub fn fault_to_json(f: &Fault) -> Json {
    match f {
        Fault::BitFlip(o, b) => jarr!["flip", *o, *b as u64],
        Fault::Insert(o, b) => jarr!["ins", *o, *b as u64],
        Fault::Delete(o) => jarr!["del", *o],
        Fault::Truncate(o) => jarr!["trunc", *o],
        Fault::SetLen(o, w, v) => jarr!["setlen", *o, *w, *v],
        Fault::DupFrame(i) => jarr!["dup", *i],
        Fault::Splice(a, b) => jarr!["splice", *a, *b],
    }
}

pub fn fault_from_json(j: &Json) -> Option<Fault> {
    Some(match j.at(0).as_str() {
        "flip" => Fault::BitFlip(j.at(1).as_usize(), j.at(2).as_u8()),
        "ins" => Fault::Insert(j.at(1).as_usize(), j.at(2).as_u8()),
        "del" => Fault::Delete(j.at(1).as_usize()),
        "trunc" => Fault::Truncate(j.at(1).as_usize()),
        "setlen" => Fault::SetLen(j.at(1).as_usize(), j.at(2).as_usize(), j.at(3).as_u64()),
        "dup" => Fault::DupFrame(j.at(1).as_usize()),
        "splice" => Fault::Splice(j.at(1).as_usize(), j.at(2).as_usize()),
        _ => return None,
    })
}

pub fn apply_fault(stream: &mut Vec<u8>, f: &Fault) {
    if stream.is_empty() {
        return;
    }
    match f {
        Fault::BitFlip(o, b) => {
            let o = o % stream.len();
            stream[o] ^= 1 << (b % 8);
        }
        Fault::Insert(o, b) => {
            let o = o % (stream.len() + 1);
            stream.insert(o, *b);
        }
        Fault::Delete(o) => {
            let o = o % stream.len();
            stream.remove(o);
        }
        Fault::Truncate(o) => {
            let o = o % (stream.len() + 1);
            stream.truncate(o);
        }
        Fault::SetLen(o, w, v) => {
            if o + w <= stream.len() {
                if *w == 2 {
                    stream[*o] = (v >> 8) as u8;
                    stream[o + 1] = *v as u8;
                } else {
                    stream[*o] = *v as u8;
                }
            }
        }
        _ => {}
    }
}

pub fn hex(b: &[u8]) -> String {
    let mut s = String::with_capacity(b.len() * 2);
    for x in b {
        s.push_str(&format!("{:02x}", x));
    }
    s
}

pub fn unhex(s: &str) -> Vec<u8> {
    (0..s.len() / 2).filter_map(|i| u8::from_str_radix(&s[2 * i..2 * i + 2], 16).ok()).collect()
}

// ---- the BGP stream scenario ----------------------------------------------------------------

pub struct BgpStreams;

fn caps_json(c: &[u64]) -> Json {
    Json::Arr(c.iter().map(|x| Json::from(*x)).collect())
}

/// Session codec drawn by the generator: families, add-path rx, AS4, extended message, extended nexthop.
fn codec_from(case: &Json) -> (bgp::PeerCodec, Vec<Family>, bool) {
    let fams: Vec<Family> = case.get("fams").map(|f| f.arr().iter().map(|x| fam_from_u(x.as_u64())).collect()).unwrap_or_default();
    let ap = case.i("addpath", 0) as u8;
    let as4 = case.get("as4").map(|b| b.as_bool()).unwrap_or(true);
    let ext = case.get("ext_msg").map(|b| b.as_bool()).unwrap_or(false);
    let enh = case.get("ext_nh").map(|b| b.as_bool()).unwrap_or(false);
    let mk = |mode: u8| -> Vec<Capability> {
        let mut c: Vec<Capability> = fams.iter().map(|f| Capability::MultiProtocol(*f)).collect();
        if mode != 0 {
            c.push(Capability::AddPath(fams.iter().map(|f| (*f, mode)).collect()));
        }
        if as4 {
            c.push(Capability::FourOctetAsNumber(65000));
        }
        if ext {
            c.push(Capability::ExtendedMessage);
        }
        if enh {
            c.push(Capability::ExtendedNexthop(fams.iter().filter(|f| f.afi() == Family::AFI_IP).map(|f| (*f, Family::AFI_IP6)).collect()));
        }
        c
    };
    // receiver: rx add-path when ap has bit 0; sender the mirror image
    let recv = bgp::PeerCodec::negotiate(&mk(if ap != 0 { 1 } else { 0 }), &mk(if ap != 0 { 2 } else { 0 }));
    (recv, fams, enh)
}

fn sender_codec(case: &Json) -> bgp::PeerCodec {
    let fams: Vec<Family> = case.get("fams").map(|f| f.arr().iter().map(|x| fam_from_u(x.as_u64())).collect()).unwrap_or_default();
    let ap = case.i("addpath", 0) as u8;
    let as4 = case.get("as4").map(|b| b.as_bool()).unwrap_or(true);
    let ext = case.get("ext_msg").map(|b| b.as_bool()).unwrap_or(false);
    let enh = case.get("ext_nh").map(|b| b.as_bool()).unwrap_or(false);
    let mk = |mode: u8| -> Vec<Capability> {
        let mut c: Vec<Capability> = fams.iter().map(|f| Capability::MultiProtocol(*f)).collect();
        if mode != 0 {
            c.push(Capability::AddPath(fams.iter().map(|f| (*f, mode)).collect()));
        }
        if as4 {
            c.push(Capability::FourOctetAsNumber(65000));
        }
        if ext {
            c.push(Capability::ExtendedMessage);
        }
        if enh {
            c.push(Capability::ExtendedNexthop(fams.iter().filter(|f| f.afi() == Family::AFI_IP).map(|f| (*f, Family::AFI_IP6)).collect()));
        }
        c
    };
    bgp::PeerCodec::negotiate(&mk(if ap != 0 { 2 } else { 0 }), &mk(if ap != 0 { 1 } else { 0 }))
}

impl Check for BgpStreams {
    fn property(&self) -> &'static str {
        "C03"
    }
    fn tier(&self) -> &'static str {
        "W"
    }
    fn name(&self) -> &'static str {
        "bgp-stream"
    }
    fn weight(&self) -> u32 {
        6
    }

    fn generate(&self, seed: u64, _thorough: bool) -> Json {
        let mut rng = Rng::new(seed);
        // session codec
        let mut fams: Vec<Family> = GEN_FAMILIES.iter().filter(|_| rng.chance(1, 3)).copied().collect();
        if fams.is_empty() {
            fams.push(Family::IPV4);
        }
        let mut case = jobj! {
            "fams" => caps_json(&fams.iter().map(|f| fam_to_u(*f)).collect::<Vec<_>>()),
            "addpath" => if rng.chance(1, 3) { 1u64 } else { 0 }, "as4" => rng.chance(3, 4), "ext_msg" => rng.coin(), "ext_nh" => rng.chance(1, 4)
        };
        let mut snd = sender_codec(&case);
        let enh = case.get("ext_nh").map(|b| b.as_bool()).unwrap_or(false);
        // 1-3 valid messages -> frames
        let mut frames: Vec<Vec<u8>> = Vec::new();
        for _ in 0..rng.range(1, 3) {
            let m = build_message(&mut rng, &fams, enh);
            let mut buf = BytesMut::with_capacity(1 << 17);
            if snd.encode_to(&m, &mut buf).is_ok() {
                // split into frames by header length
                let mut i = 0;
                while i + 19 <= buf.len() {
                    let l = u16::from_be_bytes([buf[i + 16], buf[i + 17]]) as usize;
                    if l < 19 || i + l > buf.len() {
                        break;
                    }
                    frames.push(buf[i..i + l].to_vec());
                    i += l;
                }
            }
        }
        // hand-written NLRI bodies for the families the constructors do not reach
        if rng.chance(1, 3) {
            let f = *rng.pick(&[Family::LS, Family::LS, Family::LS, Family::IPV4_MUP, Family::IPV6_MUP, Family::IPV4_FLOWSPEC, Family::IPV6_FLOWSPEC, Family::IPV4_FLOWSPEC_VPN, Family::IPV6_FLOWSPEC_VPN, Family::IPV4_SRPOLICY, Family::L2VPN_EVPN, Family::RTC, Family::IPV4_VPN, Family::IPV6_MPLS]);
            if !fams.contains(&f) {
                fams.push(f);
                case.set("fams", caps_json(&fams.iter().map(|f| fam_to_u(*f)).collect::<Vec<_>>()));
            }
            let fr = raw_update_frame(&mut rng, f);
            if fr.len() <= 4096 {
                let at = rng.usize_below(frames.len() + 1);
                frames.insert(at, fr);
            }
        }
        if frames.is_empty() {
            let mut b = vec![0xffu8; 16];
            b.extend_from_slice(&[0, 19, 4]);
            frames.push(b);
        }
        // frame-level faults first (dup / splice), then byte-level faults addressed into the whole stream
        let mut ops: Vec<Json> = Vec::new();
        let n_faults = rng.weighted(&[2, 5, 3, 1]);
        for _ in 0..n_faults {
            let k = rng.usize_below(frames.len());
            let flen = frames[k].len();
            let base: usize = frames[..k].iter().map(|f| f.len()).sum();
            let f = match rng.weighted(&[3, 2, 2, 3, 8, 1, 1]) {
                0 => Fault::BitFlip(base + rng.usize_below(flen), rng.below(8) as u8),
                1 => Fault::Insert(base + rng.usize_below(flen + 1), rng.next_u32() as u8),
                2 => Fault::Delete(base + rng.usize_below(flen)),
                3 => Fault::Truncate(base + rng.usize_below(flen + 1)),
                4 => {
                    let lf = length_fields(&frames[k]);
                    let (o, w, _) = *rng.pick(&lf);
                    let cur = if w == 2 { u16::from_be_bytes([frames[k][o], frames[k][o + 1]]) as u64 } else { frames[k][o] as u64 };
                    let max = if w == 2 { 65535 } else { 255 };
                    let v = *rng.pick(&[0u64, 1, 18, cur.saturating_sub(1), cur + 1, cur + 2, max, max - 1, cur / 2, 4096, 4097]);
                    Fault::SetLen(base + o, w, v.min(max))
                }
                5 => Fault::DupFrame(k),
                _ => Fault::Splice(k, rng.usize_below(flen)),
            };
            ops.push(fault_to_json(&f));
        }
        // fragmentation plan: chunk sizes
        let mode = rng.below(4);
        let chunks: Vec<Json> = (0..64)
            .map(|_| {
                Json::from(match mode {
                    0 => 1u64 << 17,
                    1 => 1,
                    2 => rng.range(1, 40),
                    _ => *rng.pick(&[1u64, 2, 18, 19, 20, 23, 4096, 70000]),
                })
            })
            .collect();
        case.set("frames", Json::Arr(frames.iter().map(|f| Json::Str(hex(f))).collect()));
        case.set("chunks", Json::Arr(chunks));
        case.set("ebgp", Json::Bool(rng.coin()));
        case.set("ops", Json::Arr(ops));
        case
    }

    fn execute(&self, case: &Json, tol: &Tolerate) -> Outcome {
        let mut out = Outcome::default();
        let (mut codec, _fams, _) = codec_from(case);
        let frames: Vec<Vec<u8>> = case.get("frames").map(|f| f.arr().iter().map(|x| unhex(x.as_str())).collect()).unwrap_or_default();
        let faults: Vec<Fault> = case.get("ops").map(|o| o.arr().iter().filter_map(fault_from_json).collect()).unwrap_or_default();
        // frame-level faults
        let mut fr = frames.clone();
        for f in &faults {
            match f {
                Fault::DupFrame(k) if !fr.is_empty() => {
                    let k = k % fr.len();
                    let d = fr[k].clone();
                    fr.insert(k, d);
                    out.hit("fault.frame-duplicated");
                }
                Fault::Splice(k, o) if !fr.is_empty() => {
                    let k = k % fr.len();
                    let o = o % (fr[k].len() + 1);
                    fr[k].truncate(o);
                    out.hit("fault.frame-spliced");
                }
                _ => {}
            }
        }
        let mut stream: Vec<u8> = fr.concat();
        for f in &faults {
            match f {
                Fault::BitFlip(..) => out.hit("fault.bit-flip"),
                Fault::Insert(..) => out.hit("fault.byte-inserted"),
                Fault::Delete(..) => out.hit("fault.byte-deleted"),
                Fault::Truncate(..) => out.hit("fault.truncate+eof"),
                Fault::SetLen(..) => out.hit("fault.length-field-rewritten"),
                _ => {}
            }
            apply_fault(&mut stream, f);
        }
        out.nontrivial = !faults.is_empty();
        let chunks: Vec<usize> = case.get("chunks").map(|c| c.arr().iter().map(|x| x.as_usize().max(1)).collect()).unwrap_or_else(|| vec![1 << 17]);
        let is_ebgp = case.get("ebgp").map(|b| b.as_bool()).unwrap_or(true);
        let mut log = LogHash::default();
        let mut sig = LogHash::default();
        let mut rxbuf = BytesMut::with_capacity(1 << 17);
        let mut off = 0usize;
        let mut ci = 0usize;
        let max_len = codec.max_message_length();
        macro_rules! fail {
            ($class:expr, $($arg:tt)*) => {{
                let v = Violation::new(format!("C03/bgp/{}", $class), format!($($arg)*));
                if out.violate(tol, v) { out.log_hash = log.0; out.signature = sig.0; return out; }
            }};
        }
        'stream: while off < stream.len() {
            let n = chunks[ci % chunks.len()].min(stream.len() - off);
            ci += 1;
            rxbuf.reserve(1 << 17);
            rxbuf.put_slice(&stream[off..off + n]);
            off += n;
            out.steps += 1;
            let mut iters = 0usize;
            loop {
                iters += 1;
                if iters > stream.len() + 2 {
                    fail!("decoder-loop-does-not-terminate", "more than {} try_parse calls on a {}-byte stream", iters, stream.len());
                    break 'stream;
                }
                let before = rxbuf.len();
                let header_len = if before >= 19 { Some(u16::from_be_bytes([rxbuf[16], rxbuf[17]]) as usize) } else { None };
                match codec.try_parse(&mut rxbuf) {
                    Ok(Some(parsed)) => {
                        if rxbuf.len() >= before {
                            fail!("message-returned-without-consuming-input", "buffer {} -> {}", before, rxbuf.len());
                            break 'stream;
                        }
                        let kind = match &parsed {
                            bgp::ParsedMessage::Open(_) => "open",
                            bgp::ParsedMessage::Update(_) => "update",
                            bgp::ParsedMessage::Notification(_) => "notification",
                            bgp::ParsedMessage::Keepalive => "keepalive",
                            bgp::ParsedMessage::RouteRefresh { .. } => "route-refresh",
                        };
                        log.add_str(kind);
                        sig.add_str(kind);
                        out.hit(&format!("decoded.{}", kind));
                        // validate_message must be total on every parsed value
                        match packet::validate_message(parsed, is_ebgp) {
                            Ok(it) => {
                                let n = it.count();
                                log.add_u64(n as u64);
                                sig.add_u64(n as u64);
                            }
                            Err(_) => {
                                sig.add_str("validate-err");
                                out.hit("decoded.validate-rejected");
                                break 'stream;
                            }
                        }
                    }
                    Ok(None) => {
                        // need-more is only legitimate while the header's own length is not in the buffer yet
                        if let Some(hl) = header_len {
                            if (19..=max_len).contains(&hl) && before >= hl {
                                fail!("complete-frame-neither-consumed-nor-rejected", "buffer holds {} bytes, header length {}", before, hl);
                                break 'stream;
                            }
                        }
                        if rxbuf.len() != before {
                            fail!("need-more-but-buffer-changed", "{} -> {}", before, rxbuf.len());
                        }
                        sig.add_str("more");
                        break;
                    }
                    Err(n) => {
                        log.add_str("err");
                        sig.add_str("err");
                        sig.add_u64(n.notification_code() as u64 * 256 + n.notification_subcode() as u64);
                        out.hit("decoded.protocol-error");
                        break 'stream;
                    }
                }
            }
        }
        out.log_hash = log.0;
        out.signature = sig.0;
        out
    }

    fn info(&self) -> CheckInfo {
        CheckInfo {
            rule: "1-3 valid BGP messages (OPEN with capability lists, UPDATE reach/unreach/EOR in 12 constructible families with every attribute kind, NOTIFICATION, KEEPALIVE, ROUTE-REFRESH) encoded by the sender-side codec of a drawn session configuration (family set, add-path, 2/4-byte AS, extended message, extended next hop), then 0-3 transport faults (bit flip, byte insert/delete, truncate+EOF, duplicated/spliced frame, located length field set to 0/1/18/cur-1/cur+1/max/...) and a fragmentation plan (1 byte, random, boundary sizes, whole); fed to the receiver-side codec in a run_select-shaped loop. non-trivial = at least one fault applied; distinct = hash of the decode-result sequence".into(),
            components_real: vec!["packet::PeerCodec::{negotiate,encode_to,try_parse,parse_message}".into(), "packet::validate_message".into(), "all per-family NLRI decoders reachable from MP_REACH/MP_UNREACH".into()],
            components_stubbed: vec!["the byte transport (fragmentation / corruption / EOF are the simulated faults); the session driver itself runs in tier D".into()],
            assumptions: vec!["valid traffic comes from the repository's encoder: families without public constructors (LS, MUP, flowspec-v6/VPN) are reached only through mutated AFI/SAFI and attribute bytes".into(), "sampling with structure-aware faults, not coverage-guided fuzzing".into()],
            bounds: "<=3 messages, <=40 NLRI each, stream <= 64 KiB, <=3 faults".into(),
        }
    }
}

// ---- RTR under a Framed-shaped loop -----------------------------------------------------------

pub struct RtrStreams;

fn rtr_pdu(ver: u8, typ: u8, sess: u16, body: &[u8]) -> Vec<u8> {
    let mut v = vec![ver, typ];
    v.extend_from_slice(&sess.to_be_bytes());
    v.extend_from_slice(&((8 + body.len()) as u32).to_be_bytes());
    v.extend_from_slice(body);
    v
}

pub fn gen_rtr_pdu(rng: &mut Rng, ver: u8) -> Vec<u8> {
    match rng.weighted(&[1, 1, 6, 3, 2, 1, 1, 2, 1]) {
        0 => rtr_pdu(ver, 0, 7, &rng.next_u32().to_be_bytes()),
        1 => rtr_pdu(ver, 3, 7, &[]),
        2 => {
            let l = rng.range(8, 24) as u8;
            let mut b = vec![rng.below(2) as u8, l, rng.range(l as u64, 32) as u8, 0, 10, rng.below(255) as u8, 0, 0];
            b.extend_from_slice(&(65000 + rng.below(5) as u32).to_be_bytes());
            rtr_pdu(ver, 4, 0, &b)
        }
        3 => {
            let l = rng.range(16, 64) as u8;
            let mut b = vec![rng.below(2) as u8, l, rng.range(l as u64, 128) as u8, 0];
            b.extend_from_slice(&[0x20, 0x01, 0x0d, 0xb8, rng.below(255) as u8, 0, 0, 0, 0, 0, 0, 0, 0, 0, 0, 0]);
            b.extend_from_slice(&(65000 + rng.below(5) as u32).to_be_bytes());
            rtr_pdu(ver, 6, 0, &b)
        }
        4 => {
            let mut b = rng.next_u32().to_be_bytes().to_vec();
            if ver >= 1 {
                b.extend_from_slice(&[0, 0, 14, 16, 0, 0, 2, 88, 0, 0, 28, 32]);
            }
            rtr_pdu(ver, 7, 7, &b)
        }
        5 => rtr_pdu(ver, 8, 0, &[]),
        6 => {
            // error report: encapsulated PDU + text (RFC 8210 s5.11)
            let mut b = vec![0, 0, 0, 8, ver, 2, 0, 0, 0, 0, 0, 8];
            b.extend_from_slice(&[0, 0, 0, 3, b'b', b'a', b'd']);
            rtr_pdu(ver, 10, 2, &b)
        }
        7 => {
            // router key (type 9): a PDU type the client does not use
            let mut b = vec![0u8; 20];
            b.extend_from_slice(&65001u32.to_be_bytes());
            b.extend_from_slice(&[1, 2, 3, 4, 5, 6, 7, 8]);
            rtr_pdu(ver, 9, 0x0100, &b)
        }
        _ => rtr_pdu(ver, 11, 0, &[0, 0, 0, 0, 0, 0, 0xfd, 0xe9]), // ASPA (draft): unknown to this client
    }
}

impl Check for RtrStreams {
    fn property(&self) -> &'static str {
        "C03"
    }
    fn tier(&self) -> &'static str {
        "W"
    }
    fn name(&self) -> &'static str {
        "rtr-stream"
    }
    fn weight(&self) -> u32 {
        3
    }
    fn generate(&self, seed: u64, _thorough: bool) -> Json {
        let mut rng = Rng::new(seed);
        let ver = rng.below(2) as u8;
        let pdus: Vec<Vec<u8>> = (0..rng.range(1, 5)).map(|_| gen_rtr_pdu(&mut rng, ver)).collect();
        let total: usize = pdus.iter().map(|p| p.len()).sum();
        let mut ops = Vec::new();
        for _ in 0..rng.weighted(&[3, 4, 2]) {
            let k = rng.usize_below(pdus.len());
            let base: usize = pdus[..k].iter().map(|p| p.len()).sum();
            let f = match rng.weighted(&[2, 1, 1, 2, 6]) {
                0 => Fault::BitFlip(rng.usize_below(total), rng.below(8) as u8),
                1 => Fault::Insert(rng.usize_below(total + 1), rng.next_u32() as u8),
                2 => Fault::Delete(rng.usize_below(total)),
                3 => Fault::Truncate(rng.usize_below(total + 1)),
                _ => {
                    // the 32-bit length field, written as two 16-bit halves
                    let cur = pdus[k].len() as u64;
                    let v = *rng.pick(&[0u64, 1, 7, 8, cur - 1, cur + 1, 65535, cur / 2]);
                    ops.push(fault_to_json(&Fault::SetLen(base + 4, 2, if rng.chance(1, 6) { 0xffff } else { 0 })));
                    Fault::SetLen(base + 6, 2, v)
                }
            };
            ops.push(fault_to_json(&f));
        }
        let mode = rng.below(3);
        let chunks: Vec<Json> = (0..64).map(|_| Json::from(match mode { 0 => 1u64 << 16, 1 => 1, _ => rng.range(1, 24) })).collect();
        jobj! {"pdus" => Json::Arr(pdus.iter().map(|p| Json::Str(hex(p))).collect()), "chunks" => Json::Arr(chunks), "ops" => Json::Arr(ops)}
    }

    fn execute(&self, case: &Json, tol: &Tolerate) -> Outcome {
        let mut out = Outcome::default();
        let pdus: Vec<Vec<u8>> = case.get("pdus").map(|f| f.arr().iter().map(|x| unhex(x.as_str())).collect()).unwrap_or_default();
        let faults: Vec<Fault> = case.get("ops").map(|o| o.arr().iter().filter_map(fault_from_json).collect()).unwrap_or_default();
        let mut stream: Vec<u8> = pdus.concat();
        for f in &faults {
            apply_fault(&mut stream, f);
            out.hit("fault.applied");
        }
        let pristine = faults.is_empty();
        out.nontrivial = !pristine || pdus.iter().any(|p| p.len() > 1 && (p[1] == 9 || p[1] == 11));
        let chunks: Vec<usize> = case.get("chunks").map(|c| c.arr().iter().map(|x| x.as_usize().max(1)).collect()).unwrap_or_else(|| vec![1 << 16]);
        let mut codec = packet::rpki::RtrCodec::new();
        let mut buf = BytesMut::new();
        let mut log = LogHash::default();
        let mut sig = LogHash::default();
        let (mut off, mut ci) = (0usize, 0usize);
        let mut decoded = 0usize;
        let mut errored = false;
        macro_rules! fail {
            ($class:expr, $($arg:tt)*) => {{
                let v = Violation::new(format!("C03/rtr/{}", $class), format!($($arg)*));
                if out.violate(tol, v) { out.log_hash = log.0; out.signature = sig.0; return out; }
            }};
        }
        // Framed's read loop: decode until None, then read more; at EOF decode_eof
        'stream: while off < stream.len() {
            let n = chunks[ci % chunks.len()].min(stream.len() - off);
            ci += 1;
            buf.put_slice(&stream[off..off + n]);
            off += n;
            let mut iters = 0;
            loop {
                iters += 1;
                if iters > stream.len() + 2 {
                    fail!("decoder-yields-items-forever", "{} decode calls on a {}-byte stream without running out of input (Framed would spin)", iters, stream.len());
                    break 'stream;
                }
                let before = buf.len();
                match codec.decode(&mut buf) {
                    Ok(Some(_)) => {
                        decoded += 1;
                        sig.add_str("pdu");
                        if buf.len() >= before {
                            fail!("item-returned-without-consuming-input", "buffer {} -> {}: a length field of 0 makes Framed yield the same PDU forever", before, buf.len());
                            break 'stream;
                        }
                    }
                    Ok(None) => {
                        // a complete PDU by its own header must not be left sitting in the buffer
                        let before = buf.len(); // decode() may have skipped PDUs of unused types
                        if before >= 8 {
                            let l = u32::from_be_bytes([buf[4], buf[5], buf[6], buf[7]]) as usize;
                            if (8..=before).contains(&l) {
                                let known = matches!(buf[1], 0..=4 | 6..=8 | 10);
                                fail!(format!("complete-pdu-neither-consumed-nor-rejected/{}", if known { "known-type" } else { "unused-pdu-type" }),
                                    "buffer holds {} bytes, PDU type {} length {}: decode() says need-more forever (client stalls)", before, buf[1], l);
                                break 'stream;
                            }
                        }
                        sig.add_str("more");
                        break;
                    }
                    Err(_) => {
                        errored = true;
                        sig.add_str("err");
                        break 'stream;
                    }
                }
            }
        }
        // a pristine stream of conforming PDUs must be consumed completely (unused types skipped)
        if pristine && !errored && out.violation.is_none() {
            let unused = pdus.iter().filter(|p| p[1] == 9 || p[1] == 11).count();
            if !buf.is_empty() || decoded + unused != pdus.len() {
                fail!("conforming-stream-not-consumed", "{} PDUs sent ({} of unused types), {} decoded, {} bytes left", pdus.len(), unused, decoded, buf.len());
            }
        } else if pristine && errored {
            fail!("conforming-stream-rejected", "decoder returned an error on unmodified conforming PDUs");
        }
        log.add_u64(decoded as u64);
        out.log_hash = log.0 ^ sig.0;
        out.signature = sig.0;
        out
    }

    fn info(&self) -> CheckInfo {
        CheckInfo {
            rule: "1-5 RFC 6810/8210 PDUs of every type (incl. router-key type 9 and type 11, which the client does not use, error report with encapsulated PDU, v0 and v1 End-of-Data) with 0-2 faults (bit flip, insert/delete, truncate, 32-bit length field set to 0/1/7/8/len-1/len+1/65535/huge) under 1-byte / random / whole fragmentation, driven through RtrCodec::decode in the loop tokio's Framed runs; non-trivial = a fault was applied or an unused PDU type was in the stream".into(),
            components_real: vec!["packet::rpki::RtrCodec (Decoder), rpki::Message::from_bytes".into()],
            components_stubbed: vec!["Framed's poll loop is reproduced (decode until None, then append more input); the real Framed + RpkiClient run in tier D (C13)".into()],
            assumptions: vec![],
            bounds: "<=5 PDUs, <=2 faults".into(),
        }
    }
}

// ---- BFD datagrams --------------------------------------------------------------------------------

pub struct BfdDatagrams;

impl Check for BfdDatagrams {
    fn property(&self) -> &'static str {
        "C03"
    }
    fn tier(&self) -> &'static str {
        "W"
    }
    fn name(&self) -> &'static str {
        "bfd-datagram"
    }
    fn weight(&self) -> u32 {
        1
    }
    fn generate(&self, seed: u64, _thorough: bool) -> Json {
        let mut rng = Rng::new(seed);
        let mut p = vec![0x20 | rng.below(32) as u8, (rng.below(4) as u8) << 6 | (rng.below(64) as u8 & 0x3a), rng.range(1, 10) as u8, 24];
        for _ in 0..5 {
            p.extend_from_slice(&rng.next_u32().to_be_bytes());
        }
        let mut ops = Vec::new();
        for _ in 0..rng.weighted(&[2, 4, 2]) {
            let f = match rng.weighted(&[3, 1, 1, 2, 3]) {
                0 => Fault::BitFlip(rng.usize_below(24), rng.below(8) as u8),
                1 => Fault::Insert(rng.usize_below(25), rng.next_u32() as u8),
                2 => Fault::Delete(rng.usize_below(24)),
                3 => Fault::Truncate(rng.usize_below(25)),
                _ => Fault::SetLen(3, 1, *rng.pick(&[0u64, 1, 23, 25, 255])),
            };
            ops.push(fault_to_json(&f));
        }
        jobj! {"datagram" => hex(&p), "ops" => Json::Arr(ops)}
    }
    fn execute(&self, case: &Json, _tol: &Tolerate) -> Outcome {
        let mut out = Outcome::default();
        let mut d = unhex(case.s("datagram"));
        for f in case.get("ops").map(|o| o.arr().iter().filter_map(fault_from_json).collect::<Vec<_>>()).unwrap_or_default() {
            apply_fault(&mut d, &f);
            out.nontrivial = true;
        }
        let r = packet::bfd::Message::decode(&d);
        let mut sig = LogHash::default();
        sig.add_u64(d.len() as u64);
        sig.add_u64(r.is_ok() as u64);
        if let Ok(m) = &r {
            // a decoded packet re-encodes to 24 bytes
            if let Ok(b) = m.encode() {
                sig.add_u64(b.len() as u64);
            }
            out.hit("decoded.bfd");
        } else {
            out.hit("decoded.bfd-rejected");
        }
        out.signature = sig.0 ^ fnv1a(&d);
        out.log_hash = out.signature;
        out
    }
    fn info(&self) -> CheckInfo {
        CheckInfo {
            rule: "RFC 5880 control packets with 0-2 faults (bit flips, insert/delete, truncate, length byte 0/1/23/25/255); no panic, exactly one of packet / error".into(),
            components_real: vec!["packet::bfd::Message::{decode,encode}".into()],
            components_stubbed: vec!["UDP socket and BFD session machine (not in scope of the property)".into()],
            assumptions: vec![],
            bounds: "one datagram".into(),
        }
    }
}

// ---- C04: decode(encode(x)) is a fixed point for every value obtained by decoding -----------------
//
// The stream generator of C03 (valid traffic of a drawn session configuration, hand-written NLRI
// bodies, transport faults, fragmentation) feeds the receiver-side codec; every UPDATE that comes
// out of it (x, "a value obtained by decoding") is encoded again by the codec of a speaker with the
// same capabilities towards a peer with the same capabilities, the frames are walked (negotiated
// maximum size, header length = bytes that follow), decoded again (x') and encoded again:
//   * x' carries the same routes as x: the same multiset of (family, prefix, path id), the same next
//     hop and the same attributes up to the documented canonicalisation (extended-length flag;
//     AS_PATH / AS4_PATH / AGGREGATOR reconciliation on a two-octet-AS session);
//   * x' is a fixed point: decode(encode(x')) == x' exactly, and encode(x') is the same bytes.

pub struct CodecFixedPoint;

fn flat_routes(msgs: &[bgp::Message], canon: bool, as4: bool) -> Vec<String> {
    let mut v = Vec::new();
    for m in msgs {
        match m {
            bgp::Message::Update(bgp::Update::Reach { family, entries, nexthop, attr }) => {
                let mut a: Vec<String> = attr
                    .iter()
                    .filter(|x| !(canon && !as4 && matches!(x.code(), 2 | 7 | 17 | 18)))
                    .map(|x| if canon { format!("{}:{:02x}:{:?}", x.code(), x.flags() & !0x10, x.encode_to_bytes().get(if x.flags() & 0x10 != 0 { 4.. } else { 3.. }).map(|b| b.to_vec())) } else { format!("{:?}", x) })
                    .collect();
                a.sort();
                // an IPv4 next hop of an IPv6 family travels as ::ffff:a.b.c.d: the same address
                let nh = match nexthop {
                    // flow specifications carry no next hop (RFC 8955 section 4: ignored on receipt)
                    Some(_) if canon && matches!(*family, Family::IPV4_FLOWSPEC | Family::IPV6_FLOWSPEC | Family::IPV4_FLOWSPEC_VPN | Family::IPV6_FLOWSPEC_VPN) => None,
                    Some(Nexthop::V6(a)) if canon => match a.to_ipv4_mapped() {
                        Some(v4) => Some(Nexthop::V4(v4)),
                        None => *nexthop,
                    },
                    other => *other,
                };
                for e in entries {
                    v.push(format!("R {:?} {:?} nh={:?} {}", family, e, nh, a.join(",")));
                }
            }
            bgp::Message::Update(bgp::Update::Unreach { family, entries }) => {
                for e in entries {
                    // a withdrawal may carry any label (RFC 8277 2.4): the route is identified without it
                    let key = match &e.nlri {
                        Nlri::LabeledV4(l) => format!("L4 {:?}", l.prefix),
                        Nlri::LabeledV6(l) => format!("L6 {:?}", l.prefix),
                        Nlri::VpnV4(x) => format!("V4 {:?} {:?}", x.rd, x.prefix),
                        Nlri::VpnV6(x) => format!("V6 {:?} {:?}", x.rd, x.prefix),
                        other => format!("{:?}", other),
                    };
                    v.push(format!("U {:?} #{} {}", family, e.path_id, key));
                }
            }
            bgp::Message::Update(bgp::Update::EndOfRib(f)) => v.push(format!("E {:?}", f)),
            _ => {}
        }
    }
    v.sort();
    v
}

/// Encode messages with `enc`; walk the frames; decode them with `dec`. None = the encoder refused.
fn round_trip(msgs: &[bgp::Message], enc: &mut bgp::PeerCodec, dec: &mut bgp::PeerCodec, is_ebgp: bool) -> Result<Option<(Vec<u8>, Vec<bgp::Message>)>, (String, String)> {
    let mut bytes = BytesMut::with_capacity(1 << 17);
    for m in msgs {
        if enc.encode_to(m, &mut bytes).is_err() {
            return Ok(None);
        }
    }
    let max = enc.max_message_length();
    let mut i = 0usize;
    while i < bytes.len() {
        if i + 19 > bytes.len() {
            return Err(("frame/trailing-bytes-shorter-than-a-header".into(), format!("{} bytes left at offset {}", bytes.len() - i, i)));
        }
        let l = u16::from_be_bytes([bytes[i + 16], bytes[i + 17]]) as usize;
        if l < 19 || i + l > bytes.len() {
            return Err(("frame/header-length-does-not-tile-the-output".into(), format!("length {} at offset {} of {}", l, i, bytes.len())));
        }
        if l > max {
            return Err(("frame/longer-than-negotiated-maximum".into(), format!("frame of {} bytes, maximum {}", l, max)));
        }
        i += l;
    }
    let out_bytes = bytes.to_vec();
    let mut got = Vec::new();
    let mut rx = bytes;
    loop {
        match dec.try_parse(&mut rx) {
            Ok(Some(p)) => match packet::validate_message(p, is_ebgp) {
                Ok(it) => got.extend(it),
                Err(n) => return Err(("decode/own-output-fails-validation".into(), format!("{:?}", n))),
            },
            Ok(None) => break,
            Err(n) => return Err(("decode/own-output-rejected".into(), format!("{:?}", n))),
        }
    }
    if !rx.is_empty() {
        return Err(("decode/own-output-left-undecoded-bytes".into(), format!("{} bytes", rx.len())));
    }
    Ok(Some((out_bytes, got)))
}

impl Check for CodecFixedPoint {
    fn property(&self) -> &'static str {
        "C04"
    }
    fn tier(&self) -> &'static str {
        "W"
    }
    fn name(&self) -> &'static str {
        "codec-fixed-point"
    }

    fn generate(&self, seed: u64, thorough: bool) -> Json {
        BgpStreams.generate(seed, thorough)
    }

    fn execute(&self, case: &Json, tol: &Tolerate) -> Outcome {
        let mut out = Outcome::default();
        let (mut codec, _fams, _) = codec_from(case);
        let as4 = case.get("as4").map(|b| b.as_bool()).unwrap_or(true);
        let frames: Vec<Vec<u8>> = case.get("frames").map(|f| f.arr().iter().map(|x| unhex(x.as_str())).collect()).unwrap_or_default();
        let faults: Vec<Fault> = case.get("ops").map(|o| o.arr().iter().filter_map(fault_from_json).collect()).unwrap_or_default();
        let mut fr = frames.clone();
        for f in &faults {
            match f {
                Fault::DupFrame(k) if !fr.is_empty() => {
                    let k = k % fr.len();
                    let d = fr[k].clone();
                    fr.insert(k, d);
                }
                Fault::Splice(k, o) if !fr.is_empty() => {
                    let k = k % fr.len();
                    let o = o % (fr[k].len() + 1);
                    fr[k].truncate(o);
                }
                _ => {}
            }
        }
        let mut stream: Vec<u8> = fr.concat();
        for f in &faults {
            apply_fault(&mut stream, f);
        }
        let is_ebgp = case.get("ebgp").map(|b| b.as_bool()).unwrap_or(true);
        let mut log = LogHash::default();
        let mut sig = LogHash::default();
        macro_rules! fail {
            ($class:expr, $($arg:tt)*) => {{
                let v = Violation::new(format!("C04/fixed-point/{}", $class), format!($($arg)*));
                if out.violate(tol, v) { out.log_hash = log.0; out.signature = sig.0; return out; }
            }};
        }
        // x: every UPDATE the receiver decodes from the (possibly damaged) stream
        let mut rxbuf = BytesMut::from(&stream[..]);
        let mut n_msgs = 0;
        loop {
            let parsed = match codec.try_parse(&mut rxbuf) {
                Ok(Some(p)) => p,
                _ => break,
            };
            if !matches!(parsed, bgp::ParsedMessage::Update(_)) {
                continue;
            }
            let x: Vec<bgp::Message> = match packet::validate_message(parsed, is_ebgp) {
                Ok(it) => it.collect(),
                Err(_) => break,
            };
            if x.is_empty() {
                continue;
            }
            n_msgs += 1;
            out.steps += 1;
            let fx = flat_routes(&x, true, as4);
            sig.add_u64(fx.len() as u64);
            log.add_u64(fx.len() as u64);
            // x -> bytes -> x'
            let (b1, x1) = match round_trip(&x, &mut sender_codec(case), &mut codec_from(case).0, is_ebgp) {
                Ok(Some(r)) => r,
                Ok(None) => {
                    out.hit("encode.refused");
                    continue;
                }
                Err((class, d)) => {
                    fail!(class, "encoding of a decoded UPDATE ({} routes): {}", fx.len(), d);
                    continue;
                }
            };
            let _ = b1;
            let fx1 = flat_routes(&x1, true, as4);
            // a route whose attributes do not fit is sent as a withdrawal (documented): then x' has an
            // unreach where x had a reach, and nothing more can be compared for this message
            let reach = |v: &[String]| v.iter().filter(|s| s.starts_with("R ")).count();
            if reach(&fx1) < reach(&fx) && fx1.iter().any(|s| s.starts_with("U ")) && !fx.iter().any(|s| s.starts_with("U ")) {
                out.hit("encode.treat-as-withdraw");
                continue;
            }
            if fx != fx1 {
                let d = fx.iter().zip(fx1.iter()).find(|(a, b)| a != b).map(|(a, b)| format!("{} | {}", a, b)).unwrap_or_else(|| format!("{} routes became {}", fx.len(), fx1.len()));
                fail!("routes-differ-after-encode-decode", "decode(encode(x)) != x up to canonicalisation: {}", &d[..d.len().min(900)]);
                continue;
            }
            out.hit("probe.round-trip-equal");
            // x' is a fixed point, exactly
            let (b2, x2) = match round_trip(&x1, &mut sender_codec(case), &mut codec_from(case).0, is_ebgp) {
                Ok(Some(r)) => r,
                Ok(None) => {
                    fail!("second-encoding-refused", "encode(x') fails although x' = decode(encode(x))");
                    continue;
                }
                Err((class, d)) => {
                    fail!(class, "second encoding: {}", d);
                    continue;
                }
            };
            let (e1, e2) = (flat_routes(&x1, false, as4), flat_routes(&x2, false, as4));
            if e1 != e2 {
                let d = e1.iter().zip(e2.iter()).find(|(a, b)| a != b).map(|(a, b)| format!("{} | {}", a, b)).unwrap_or_else(|| format!("{} routes became {}", e1.len(), e2.len()));
                fail!("not-a-fixed-point", "decode(encode(x')) != x' for x' = decode(encode(x)): {}", &d[..d.len().min(900)]);
                continue;
            }
            let (b3, _) = match round_trip(&x2, &mut sender_codec(case), &mut codec_from(case).0, is_ebgp) {
                Ok(Some(r)) => r,
                _ => continue,
            };
            if b2 != b3 {
                fail!("encoding-not-stable", "encode(x'') differs from encode(x') although x'' == x' ({} vs {} bytes)", b3.len(), b2.len());
            }
            out.nontrivial = true;
        }
        sig.add_u64(n_msgs);
        out.log_hash = log.0;
        out.signature = sig.0;
        out
    }

    fn info(&self) -> CheckInfo {
        CheckInfo {
            rule: "the stream generator of C03 (1-3 messages of a drawn session configuration in 12 constructible families plus hand-written NLRI bodies, 0-3 transport faults, fragmentation); every UPDATE x that the receiver-side codec decodes from the stream is encoded by a sender-side codec with the same capabilities, the frames walked (header lengths tile the output, none longer than the negotiated maximum), decoded again (x'), encoded and decoded again (x''): routes(x') == routes(x) up to the documented canonicalisation (extended-length flag; AS_PATH / AS4_PATH / AGGREGATOR on a two-octet-AS session; a route whose attributes no longer fit is withdrawn), x'' == x' exactly and encode(x'') == encode(x') byte for byte. non-trivial = a decoded UPDATE went through both round trips".into(),
            components_real: vec!["packet::PeerCodec::{negotiate, try_parse, encode_to, max_message_length}".into(), "packet::validate_message".into(), "all per-family NLRI encoders and decoders, attribute encoders and decoders".into()],
            components_stubbed: vec!["the byte transport (faults and fragmentation are simulated); the send path of the daemon (grouping, splitting under back-pressure) runs in tier D (bulk-export)".into()],
            assumptions: vec!["the route multiset is compared per NLRI, so a split into several frames is not a difference".into()],
            bounds: "<=3 messages, <=40 NLRI each, stream <= 64 KiB, <=3 faults".into(),
        }
    }
}


