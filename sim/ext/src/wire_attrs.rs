//! C03 (tier W, fourth check) — the type-length-value decoders behind three path attributes.
//!
//! TUNNEL_ENCAP (23, RFC 9012 / 9830), BGP-LS (29, RFC 9552 and the SR extensions) and PREFIX_SID
//! (40, RFC 8669 / 9252) are kept as opaque octets by the UPDATE decoder and taken apart later, by
//! `tunnel_encap::decode`, `ls::parse_ls_attr` and `PrefixSid::decode`, when the route is shown or
//! monitored. The octets are whatever arrived on the session. Here such an attribute rides in an
//! UPDATE through the receiver's codec in a `run_select`-shaped loop (fragmented, with the same
//! transport faults as `bgp-stream`), and every attribute of those three kinds that comes out of
//! the UPDATE decoder is handed to its second-stage decoder: it must return (no panic, in either
//! build profile; the run has a watchdog), and the matching encoder must be total on whatever it
//! returned. (A first version also asked for decode(encode(decode(x))) == decode(x); that is more
//! than C03 states - a lenient reading of inconsistent octets is not a decoder failure - and was
//! dropped.)

use crate::vals::*;
use crate::wire::{hex, unhex};
use crate::wire::{apply_fault, fault_from_json, fault_to_json, length_fields, Fault};
use bytes::{BufMut, BytesMut};
use rustybgp_packet::bgp;
use rustybgp_packet::{self as packet, Attribute, Family, PathNlri};
use std::sync::Arc;
use vcore::{jobj, Check, CheckInfo, Json, LogHash, Outcome, Rng, Tolerate};

pub struct AttrTlvDecoders;

/// A type-length-value soup: `tw` / `lw` are the widths of the type and length fields; types are
/// drawn from `types`, values are short random octets, a nested soup, or sized to one of `sizes`;
/// now and then the length says one more or one less than there is.
fn soup(rng: &mut Rng, tw: usize, lw: usize, types: &[u32], sizes: &[usize], depth: u32, nest: &dyn Fn(&mut Rng, u32, u32) -> Option<Vec<u8>>) -> Vec<u8> {
    let mut out = Vec::new();
    let n = rng.range(0, 4);
    for _ in 0..n {
        let t = if rng.chance(1, 8) { rng.below(300) as u32 } else { *rng.pick(types) };
        let v: Vec<u8> = match nest(rng, t, depth) {
            Some(v) => v,
            None => {
                let l = if rng.chance(2, 3) { *rng.pick(sizes) } else { rng.below(24) as usize };
                (0..l).map(|_| if rng.chance(1, 3) { 0 } else { rng.next_u32() as u8 }).collect()
            }
        };
        let skew = *rng.pick(&[0i64, 0, 0, 0, 0, 0, -1, 1, 2, -3, 200]);
        let l = (v.len() as i64 + skew).max(0) as u64;
        match tw {
            1 => out.push(t as u8),
            _ => out.extend_from_slice(&(t as u16).to_be_bytes()),
        }
        match lw {
            1 => out.push(l.min(255) as u8),
            _ => out.extend_from_slice(&(l.min(65535) as u16).to_be_bytes()),
        }
        out.extend_from_slice(&v);
    }
    if rng.chance(1, 6) {
        // a dangling header, or a lone octet
        out.extend_from_slice(&[0, 1, 0][..rng.range(1, 3) as usize]);
    }
    out
}

fn gen_tunnel_encap(rng: &mut Rng) -> Vec<u8> {
    // outer TLV: tunnel type (2) length (2); sub-TLVs: type (1), length 1 octet below 128 and 2 from 128
    fn subs(rng: &mut Rng, depth: u32) -> Vec<u8> {
        let mut out = Vec::new();
        for _ in 0..rng.range(0, 5) {
            let t = if rng.chance(1, 8) { rng.below(256) as u8 } else { *rng.pick(&[12u8, 13, 14, 15, 20, 128, 129, 130, 1, 9, 13, 4, 6]) };
            let v: Vec<u8> = if t == 128 && depth < 2 && rng.chance(3, 4) {
                // segment list: reserved octet + segment sub-TLVs
                let mut b = vec![0u8];
                b.extend(subs(rng, depth + 1));
                b
            } else {
                let l = if rng.chance(2, 3) { *rng.pick(&[0usize, 1, 2, 4, 6, 18, 22, 24, 26, 40]) } else { rng.below(30) as usize };
                (0..l).map(|_| rng.next_u32() as u8).collect()
            };
            let skew = *rng.pick(&[0i64, 0, 0, 0, 0, -1, 1, 3, 250]);
            let l = (v.len() as i64 + skew).max(0) as u64;
            out.push(t);
            if t >= 128 {
                out.extend_from_slice(&(l.min(65535) as u16).to_be_bytes());
            } else {
                out.push(l.min(255) as u8);
            }
            out.extend_from_slice(&v);
        }
        out
    }
    let mut out = Vec::new();
    for _ in 0..rng.range(0, 2) {
        let tt = *rng.pick(&[15u16, 15, 15, 8, 1, 13]);
        let v = subs(rng, 0);
        let skew = *rng.pick(&[0i64, 0, 0, 0, -1, 1, 500]);
        out.extend_from_slice(&tt.to_be_bytes());
        out.extend_from_slice(&(((v.len() as i64 + skew).max(0) as u64).min(65535) as u16).to_be_bytes());
        out.extend_from_slice(&v);
    }
    if rng.chance(1, 6) {
        out.extend_from_slice(&[0, 15, 0][..rng.range(1, 3) as usize]);
    }
    out
}

fn gen_prefix_sid(rng: &mut Rng) -> Vec<u8> {
    // TLV: type (1) length (2). 1 label-index (7), 3 originator SRGB (2 + 6n), 5 / 6 SRv6 service
    // (reserved + sub-TLVs type 1 len 2: SRv6 SID information 1 + 16 + 1 + 2 + 1 + sub-sub-TLVs)
    let nest = |rng: &mut Rng, t: u32, depth: u32| -> Option<Vec<u8>> {
        if (t == 5 || t == 6) && depth < 2 && rng.chance(3, 4) {
            let mut b = vec![0u8];
            let mut inner = vec![0u8];
            inner.extend((0..16).map(|_| rng.next_u32() as u8));
            inner.extend_from_slice(&[0, 0, 0x13, 0]);
            if rng.coin() {
                // SID structure sub-sub-TLV (type 1, length 6)
                inner.extend_from_slice(&[1, 0, *rng.pick(&[6u8, 6, 5, 7]), 40, 24, 16, 0, 16, 64]);
            }
            let skew = *rng.pick(&[0i64, 0, 0, -1, 1, 30]);
            b.push(1);
            b.extend_from_slice(&(((inner.len() as i64 + skew).max(0)) as u16).to_be_bytes());
            b.extend(inner);
            Some(b)
        } else {
            None
        }
    };
    soup(rng, 1, 2, &[1, 3, 5, 6], &[0, 6, 7, 8, 2, 14, 21], 0, &nest)
}

fn gen_ls_attr(rng: &mut Rng) -> Vec<u8> {
    // TLV: type (2) length (2); the code points parse_ls_attr knows, with the sizes it expects
    let types: Vec<u32> = vec![1024, 1026, 1027, 1028, 1029, 1034, 1035, 1036, 1038, 1088, 1089, 1090, 1091, 1092, 1095, 1096, 1099, 1100, 1114, 1115, 1116, 1117, 1118, 1152, 1155, 1158, 1159, 1161, 1162, 1170, 1171, 1174, 1250, 1252, 263, 1106, 1107, 518];
    let nest = |rng: &mut Rng, t: u32, depth: u32| -> Option<Vec<u8>> {
        // SR capabilities (1034), SR local block (1036), prefix range (1159): flags + ranges of
        // (3-octet size, SID/label sub-TLV 1161 with 3 or 4 octets)
        if matches!(t, 1034 | 1036 | 1159) && depth < 2 && rng.chance(3, 4) {
            let mut b = vec![rng.next_u32() as u8, 0];
            for _ in 0..rng.range(0, 3) {
                b.extend_from_slice(&[0, 0, rng.below(200) as u8]);
                let l = *rng.pick(&[3u16, 4, 3, 4, 2, 5, 0]);
                b.extend_from_slice(&1161u16.to_be_bytes());
                b.extend_from_slice(&l.to_be_bytes());
                b.extend((0..*rng.pick(&[3usize, 4, 2, 0])).map(|_| rng.next_u32() as u8));
            }
            Some(b)
        } else {
            None
        }
    };
    soup(rng, 2, 2, &types, &[0, 1, 2, 3, 4, 7, 8, 12, 16, 32, 20, 22, 24], 0, &nest)
}

impl Check for AttrTlvDecoders {
    fn property(&self) -> &'static str {
        "C03"
    }
    fn tier(&self) -> &'static str {
        "W"
    }
    fn name(&self) -> &'static str {
        "attribute-tlv-decoders"
    }
    fn weight(&self) -> u32 {
        3
    }

    fn generate(&self, seed: u64, _thorough: bool) -> Json {
        let mut rng = Rng::new(seed);
        // 1-3 attributes of the three kinds in one UPDATE
        let mut attrs: Vec<Attribute> = vec![attr_origin(0), attr_as_path(&[(2, vec![65001])])];
        let mut kinds = Vec::new();
        for code in [Attribute::TUNNEL_ENCAP, Attribute::LS, Attribute::PREFIX_SID] {
            if rng.chance(1, 2) || (kinds.is_empty() && code == Attribute::PREFIX_SID) {
                let bytes = match code {
                    Attribute::TUNNEL_ENCAP => gen_tunnel_encap(&mut rng),
                    Attribute::LS => gen_ls_attr(&mut rng),
                    _ => gen_prefix_sid(&mut rng),
                };
                if let Some(a) = Attribute::new_with_bin(code, bytes) {
                    attrs.push(a);
                    kinds.push(Json::from(code as u64));
                }
            }
        }
        attrs.sort_by_key(|a| a.code());
        let entries = vec![PathNlri { path_id: 0, nlri: bgp::Nlri::V4(bgp::Ipv4Net { addr: std::net::Ipv4Addr::new(10, 1, 0, 0), mask: 24 }) }];
        let m = bgp::Message::Update(bgp::Update::Reach { family: Family::IPV4, entries, nexthop: Some(bgp::Nexthop::V4(std::net::Ipv4Addr::new(192, 0, 2, 1))), attr: Arc::new(attrs) });
        let caps = vec![packet::Capability::MultiProtocol(Family::IPV4), packet::Capability::FourOctetAsNumber(65000), packet::Capability::ExtendedMessage];
        let mut snd = bgp::PeerCodec::negotiate(&caps, &caps);
        let mut buf = BytesMut::with_capacity(1 << 17);
        let mut frame: Vec<u8> = Vec::new();
        if snd.encode_to(&m, &mut buf).is_ok() {
            frame = buf.to_vec();
        }
        let mut ops: Vec<Json> = Vec::new();
        if !frame.is_empty() {
            for _ in 0..rng.weighted(&[3, 4, 2, 1]) {
                let flen = frame.len();
                let f = match rng.weighted(&[4, 2, 2, 2, 6]) {
                    0 => Fault::BitFlip(rng.usize_below(flen), rng.below(8) as u8),
                    1 => Fault::Insert(rng.usize_below(flen + 1), rng.next_u32() as u8),
                    2 => Fault::Delete(rng.usize_below(flen)),
                    3 => Fault::Truncate(rng.usize_below(flen + 1)),
                    _ => {
                        let lf = length_fields(&frame);
                        let (o, w, _) = *rng.pick(&lf);
                        let cur = if w == 2 { u16::from_be_bytes([frame[o], frame[o + 1]]) as u64 } else { frame[o] as u64 };
                        let max = if w == 2 { 65535 } else { 255 };
                        Fault::SetLen(o, w, (*rng.pick(&[0u64, 1, cur.saturating_sub(1), cur + 1, cur + 2, max, cur / 2])).min(max))
                    }
                };
                ops.push(fault_to_json(&f));
            }
        }
        let mode = rng.below(3);
        let chunks: Vec<Json> = (0..32).map(|_| Json::from(match mode { 0 => 1u64 << 17, 1 => 1, _ => rng.range(1, 40) })).collect();
        jobj! {"frame" => Json::Str(hex(&frame)), "kinds" => Json::Arr(kinds), "ops" => Json::Arr(ops), "chunks" => Json::Arr(chunks)}
    }

    fn execute(&self, case: &Json, _tol: &Tolerate) -> Outcome {
        let mut out = Outcome::default();
        let mut stream = unhex(case.s("frame"));
        let faults: Vec<Fault> = case.get("ops").map(|o| o.arr().iter().filter_map(fault_from_json).collect()).unwrap_or_default();
        for f in &faults {
            match f {
                Fault::BitFlip(..) => out.hit("fault.bit-flip"),
                Fault::Insert(..) => out.hit("fault.byte-inserted"),
                Fault::Delete(..) => out.hit("fault.byte-deleted"),
                Fault::Truncate(..) => out.hit("fault.truncate+eof"),
                Fault::SetLen(..) => out.hit("fault.length-field-rewritten"),
                _ => {}
            }
            apply_fault(&mut stream, f);
        }
        let caps = vec![packet::Capability::MultiProtocol(Family::IPV4), packet::Capability::FourOctetAsNumber(65000), packet::Capability::ExtendedMessage];
        let mut codec = bgp::PeerCodec::negotiate(&caps, &caps);
        let chunks: Vec<usize> = case.get("chunks").map(|c| c.arr().iter().map(|x| x.as_usize().max(1)).collect()).unwrap_or_else(|| vec![1 << 17]);
        let mut log = LogHash::default();
        let mut sig = LogHash::default();
        let mut rxbuf = BytesMut::with_capacity(1 << 17);
        let (mut off, mut ci) = (0usize, 0usize);
        'stream: while off < stream.len() {
            let n = chunks[ci % chunks.len()].min(stream.len() - off);
            ci += 1;
            rxbuf.reserve(1 << 17);
            rxbuf.put_slice(&stream[off..off + n]);
            off += n;
            out.steps += 1;
            loop {
                match codec.try_parse(&mut rxbuf) {
                    Ok(Some(parsed @ bgp::ParsedMessage::Update(_))) => {
                        // the attributes the session would install (after RFC 7606 handling)
                        let mut attrs: Vec<Attribute> = Vec::new();
                        match packet::validate_message(parsed, true) {
                            Ok(it) => {
                                for m in it {
                                    if let bgp::Message::Update(bgp::Update::Reach { attr, .. }) = m {
                                        attrs.extend(attr.iter().cloned());
                                    }
                                }
                            }
                            Err(_) => {
                                sig.add_str("validate-err");
                                break 'stream;
                            }
                        }
                        for a in &attrs {
                            let Some(bin) = a.binary() else { continue };
                            match a.code() {
                                Attribute::TUNNEL_ENCAP => {
                                    let tlvs = packet::tunnel_encap::decode(bin);
                                    out.hit("second-stage.tunnel-encap");
                                    sig.add_str(&format!("{:?}", tlvs));
                                    log.add_u64(tlvs.len() as u64);
                                    // the encoder must be total on whatever the decoder understood
                                    let enc = packet::tunnel_encap::encode(&tlvs);
                                    log.add_u64(enc.len() as u64);
                                    out.nontrivial |= !tlvs.is_empty();
                                }
                                Attribute::LS => {
                                    let tlvs = packet::ls::parse_ls_attr(bin);
                                    out.hit("second-stage.bgp-ls");
                                    sig.add_str(&format!("{:?}", tlvs));
                                    log.add_u64(tlvs.len() as u64);
                                    let mut enc = Vec::new();
                                    for t in &tlvs {
                                        t.encode(&mut enc);
                                    }
                                    log.add_u64(enc.len() as u64);
                                    out.nontrivial |= !tlvs.is_empty();
                                }
                                Attribute::PREFIX_SID => {
                                    let r = packet::prefix_sid::PrefixSid::decode(bin);
                                    out.hit(if r.is_ok() { "second-stage.prefix-sid-accepted" } else { "second-stage.prefix-sid-rejected" });
                                    sig.add_str(&format!("{:?}", r.as_ref().ok()));
                                    if let Ok(sid) = r {
                                        log.add_u64(sid.to_vec().len() as u64);
                                        out.nontrivial = true;
                                    }
                                }
                                _ => {}
                            }
                        }
                        sig.add_str("update");
                    }
                    Ok(Some(_)) => sig.add_str("other"),
                    Ok(None) => break,
                    Err(_) => {
                        sig.add_str("err");
                        out.hit("decoded.protocol-error");
                        break 'stream;
                    }
                }
            }
        }
        out.log_hash = log.0;
        out.signature = sig.0;
        out
    }

    fn info(&self) -> CheckInfo {
        CheckInfo {
            rule: "an UPDATE carrying 1-3 of TUNNEL_ENCAP / BGP-LS / PREFIX_SID, each filled with a type-length-value soup written from the RFCs' layouts (known code points with the sizes the decoders expect, nested segment lists / SRv6 service / SR range sub-TLVs, lengths that are now and then one short, one long or far too long, dangling headers), encoded by the sender-side codec, then 0-3 transport faults (bit flip, byte insert / delete, truncate, located length field rewritten) and a fragmentation plan, fed to the receiver-side codec in a run_select-shaped loop; every attribute of the three kinds that the UPDATE decoder lets through goes to its second-stage decoder (tunnel_encap::decode, ls::parse_ls_attr, PrefixSid::decode), which must return, and the matching encoder must be total on what it returned. non-trivial = a second-stage decoder returned at least one element; distinct = hash of the decode results".into(),
            components_real: vec!["packet::PeerCodec::{encode_to, try_parse}".into(), "packet::tunnel_encap::{decode, encode}, packet::ls::{parse_ls_attr, LsTlv::encode}, packet::prefix_sid::PrefixSid::{decode, to_vec}".into()],
            components_stubbed: vec!["the byte transport; the callers of the second-stage decoders (the API and monitoring conversions) are not run here".into()],
            assumptions: vec!["sampling with structure-aware generation, not coverage-guided fuzzing".into()],
            bounds: "one UPDATE, <=3 attributes, <=5 TLVs per level, nesting <=3".into(),
        }
    }
}
