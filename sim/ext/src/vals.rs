//! Builders for packet/table values from small integer descriptions (so that ops stay JSON-friendly).

use rustybgp_packet::bgp::{Ipv4Net, Ipv6Net, Nexthop};
use rustybgp_packet::{Attribute, Family, IpNet, Nlri};
use std::net::{IpAddr, Ipv4Addr, Ipv6Addr};
use std::sync::Arc;
use vcore::{Json, Rng};

pub fn mask_v4(bits: u32, len: u8) -> u32 {
    if len == 0 {
        0
    } else {
        bits & (u32::MAX << (32 - len as u32))
    }
}

pub fn mask_v6(bits: u128, len: u8) -> u128 {
    if len == 0 {
        0
    } else {
        bits & (u128::MAX << (128 - len as u32))
    }
}

/// A prefix in "abstract" form: is_v6, address bits (left aligned in u128 for v6, in low 32 bits for v4), len.
#[derive(Clone, Copy, Debug, PartialEq, Eq, PartialOrd, Ord, Hash)]
pub struct Pfx {
    pub v6: bool,
    pub bits: u128,
    pub len: u8,
}

impl Pfx {
    pub fn v4(bits: u32, len: u8) -> Pfx {
        Pfx { v6: false, bits: mask_v4(bits, len) as u128, len }
    }
    pub fn v6(bits: u128, len: u8) -> Pfx {
        Pfx { v6: true, bits: mask_v6(bits, len), len }
    }
    pub fn covers(&self, other: &Pfx) -> bool {
        if self.v6 != other.v6 || self.len > other.len {
            return false;
        }
        if self.v6 {
            mask_v6(other.bits, self.len) == self.bits
        } else {
            mask_v4(other.bits as u32, self.len) as u128 == self.bits
        }
    }
    pub fn ipnet(&self) -> IpNet {
        if self.v6 {
            IpNet::V6(Ipv6Net { addr: Ipv6Addr::from(self.bits), mask: self.len })
        } else {
            IpNet::V4(Ipv4Net { addr: Ipv4Addr::from(self.bits as u32), mask: self.len })
        }
    }
    pub fn nlri(&self) -> Nlri {
        if self.v6 {
            Nlri::V6(Ipv6Net { addr: Ipv6Addr::from(self.bits), mask: self.len })
        } else {
            Nlri::V4(Ipv4Net { addr: Ipv4Addr::from(self.bits as u32), mask: self.len })
        }
    }
    pub fn family(&self) -> Family {
        if self.v6 {
            Family::IPV6
        } else {
            Family::IPV4
        }
    }
    pub fn to_json(&self) -> Json {
        Json::Str(self.to_string())
    }
    pub fn from_json(j: &Json) -> Pfx {
        Pfx::parse(j.as_str())
    }
    pub fn parse(s: &str) -> Pfx {
        let (a, l) = s.split_once('/').unwrap_or((s, "0"));
        let len: u8 = l.parse().unwrap_or(0);
        match a.parse::<IpAddr>() {
            Ok(IpAddr::V4(x)) => Pfx::v4(u32::from(x), len),
            Ok(IpAddr::V6(x)) => Pfx::v6(u128::from(x), len),
            Err(_) => Pfx::v4(0, 0),
        }
    }
    pub fn from_ipnet(n: &IpNet) -> Pfx {
        match n {
            IpNet::V4(n) => Pfx::v4(u32::from(n.addr), n.mask),
            IpNet::V6(n) => Pfx::v6(u128::from(n.addr), n.mask),
        }
    }
    pub fn from_nlri(n: &Nlri) -> Option<Pfx> {
        match n {
            Nlri::V4(n) => Some(Pfx::v4(u32::from(n.addr), n.mask)),
            Nlri::V6(n) => Some(Pfx::v6(u128::from(n.addr), n.mask)),
            _ => None,
        }
    }
}

impl std::fmt::Display for Pfx {
    fn fmt(&self, f: &mut std::fmt::Formatter<'_>) -> std::fmt::Result {
        if self.v6 {
            write!(f, "{}/{}", Ipv6Addr::from(self.bits), self.len)
        } else {
            write!(f, "{}/{}", Ipv4Addr::from(self.bits as u32), self.len)
        }
    }
}

/// Draw a prefix that lies on (or one bit off) a per-case "trunk" so that covering, equal,
/// more-specific and sibling relations are all frequent.
pub fn trunk_pfx(rng: &mut Rng, v6: bool, trunk: u128, min_len: u8, max_len: u8) -> Pfx {
    let len = rng.range(min_len as u64, max_len as u64) as u8;
    let width = if v6 { 128 } else { 32 };
    let mut bits = if v6 { trunk } else { trunk & 0xffff_ffff };
    // flip one bit inside the prefix with probability 1/3 (sibling / cousin)
    if len > 0 && rng.chance(1, 3) {
        let pos = rng.below(len as u64) as u32; // 0 = most significant
        bits ^= 1u128 << (width - 1 - pos);
    }
    if v6 {
        Pfx::v6(bits, len)
    } else {
        Pfx::v4(bits as u32, len)
    }
}

// ---- attributes -----------------------------------------------------------------------------

pub fn attr_origin(v: u8) -> Attribute {
    Attribute::new_with_value(Attribute::ORIGIN, v as u32).unwrap()
}
pub fn attr_local_pref(v: u32) -> Attribute {
    Attribute::new_with_value(Attribute::LOCAL_PREF, v).unwrap()
}
pub fn attr_med(v: u32) -> Attribute {
    Attribute::new_with_value(Attribute::MULTI_EXIT_DESC, v).unwrap()
}
pub fn attr_originator(v: u32) -> Attribute {
    Attribute::new_with_value(Attribute::ORIGINATOR_ID, v).unwrap()
}
pub fn attr_cluster_list(ids: &[u32]) -> Attribute {
    let mut b = Vec::new();
    for i in ids {
        b.extend_from_slice(&i.to_be_bytes());
    }
    Attribute::new_with_bin(Attribute::CLUSTER_LIST, b).unwrap()
}
pub fn attr_communities(c: &[u32]) -> Attribute {
    let mut b = Vec::new();
    for i in c {
        b.extend_from_slice(&i.to_be_bytes());
    }
    Attribute::new_with_bin(Attribute::COMMUNITY, b).unwrap()
}
/// AS_PATH from segments (type, ASNs), 4-byte ASNs (the daemon's internal canonical form).
pub fn attr_as_path(segs: &[(u8, Vec<u32>)]) -> Attribute {
    let mut b = Vec::new();
    for (t, asns) in segs {
        // a wire segment holds at most 255 ASNs: split longer ones
        if asns.is_empty() {
            b.push(*t);
            b.push(0);
        }
        for chunk in asns.chunks(255) {
            b.push(*t);
            b.push(chunk.len() as u8);
            for a in chunk {
                b.extend_from_slice(&a.to_be_bytes());
            }
        }
    }
    Attribute::new_with_bin(Attribute::AS_PATH, b).unwrap()
}

pub fn as_path_segments_json(segs: &[(u8, Vec<u32>)]) -> Json {
    Json::Arr(
        segs.iter()
            .map(|(t, a)| Json::Arr(std::iter::once(Json::from(*t as u64)).chain(a.iter().map(|x| Json::from(*x))).collect()))
            .collect(),
    )
}

pub fn as_path_segments_from_json(j: &Json) -> Vec<(u8, Vec<u32>)> {
    j.arr()
        .iter()
        .map(|s| {
            let a = s.arr();
            (a.first().map(|x| x.as_u8()).unwrap_or(2), a.iter().skip(1).map(|x| x.as_u32()).collect())
        })
        .collect()
}

pub fn arc_attrs(v: Vec<Attribute>) -> Arc<Vec<Attribute>> {
    Arc::new(v)
}

pub fn nh4(last: u8) -> Nexthop {
    Nexthop::V4(Ipv4Addr::new(192, 0, 2, last))
}

pub fn ip4(a: u8, b: u8, c: u8, d: u8) -> IpAddr {
    IpAddr::V4(Ipv4Addr::new(a, b, c, d))
}
