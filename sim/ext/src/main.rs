//! Tiers R (RIB / RPKI / policy histories) and W (wire streams): real `packet` and `table` crates
//! from /repo's working tree behind their public API, driven by seeded histories and stream faults.

mod c12_rpki;
mod c14_policy;
mod rib;
mod wire;
mod wire_attrs;
mod vals;

use vcore::*;

fn plan(property: &str) -> BatchPlan {
    match property {
        "C12" => BatchPlan { quick_runs: 200_000, thorough_runs: 10_000_000 },
        "C03" => BatchPlan { quick_runs: 1_000_000, thorough_runs: 30_000_000 },
        "C04" => BatchPlan { quick_runs: 500_000, thorough_runs: 20_000_000 },
        "C14" => BatchPlan { quick_runs: 300_000, thorough_runs: 10_000_000 },
        "C06" | "C15" | "C02" => BatchPlan { quick_runs: 300_000, thorough_runs: 10_000_000 },
        _ => BatchPlan { quick_runs: 5_000, thorough_runs: 500_000 },
    }
}

fn main() {
    let (r06, r15, r02) = (rib::RibHistories { prop: "C06" }, rib::RibHistories { prop: "C15" }, rib::RibHistories { prop: "C02" });
    let checks: Vec<&dyn Check> = vec![&c12_rpki::RpkiHistories, &c14_policy::PolicyHistories, &r06, &r15, &r02, &wire::BgpStreams, &wire::RtrStreams, &wire::BfdDatagrams, &wire::CodecFixedPoint, &wire_attrs::AttrTlvDecoders];
    let args: Vec<String> = std::env::args().skip(1).collect();
    std::process::exit(main_with(&checks, &plan, &args));
}
