//! Tiers R (RIB / RPKI / policy histories) and W (wire streams): real `packet` and `table` crates
//! from /repo's working tree behind their public API, driven by seeded histories and stream faults.

mod c12_rpki;
mod vals;

use vcore::*;

fn plan(property: &str) -> BatchPlan {
    match property {
        "C12" => BatchPlan { quick_runs: 20_000, thorough_runs: 2_000_000 },
        _ => BatchPlan { quick_runs: 5_000, thorough_runs: 500_000 },
    }
}

fn main() {
    let checks: Vec<&dyn Check> = vec![&c12_rpki::RpkiHistories];
    let args: Vec<String> = std::env::args().skip(1).collect();
    std::process::exit(main_with(&checks, &plan, &args));
}
