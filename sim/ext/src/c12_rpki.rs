//! C12 — RPKI origin validation equals RFC 6811 for every VRP history and route.
//! Tier R: real `table::RpkiTable` driven by histories of VRP mutations from several caches
//! (insert / remove / drop-source / reset), interleaved by a seeded merge, with route validations
//! in between; oracle = set-of-tuples reference model.

use crate::vals::*;
use rustybgp_packet::{Attribute, Family};
use rustybgp_table as table;
use std::collections::BTreeSet;
use std::net::IpAddr;
use std::sync::Arc;
use vcore::*;

pub struct RpkiHistories;

type Vrp = (u8, Pfx, u8, u32); // (cache, prefix, maxlen, asn)

fn exp_state(model: &BTreeSet<Vrp>, route: &Pfx, origin: Option<u32>) -> &'static str {
    let mut covered = false;
    for (_, p, maxlen, asn) in model {
        if p.covers(route) {
            covered = true;
            if let Some(o) = origin {
                if *asn != 0 && *asn == o && *maxlen >= route.len {
                    return "valid";
                }
            }
        }
    }
    if covered {
        "invalid"
    } else {
        "notfound"
    }
}

fn state_name(s: table::RpkiValidationState) -> &'static str {
    match s {
        table::RpkiValidationState::NotFound => "notfound",
        table::RpkiValidationState::Valid => "valid",
        table::RpkiValidationState::Invalid => "invalid",
    }
}

impl Check for RpkiHistories {
    fn property(&self) -> &'static str {
        "C12"
    }
    fn tier(&self) -> &'static str {
        "R"
    }
    fn name(&self) -> &'static str {
        "rpki-histories"
    }
    fn generate(&self, seed: u64, thorough: bool) -> Json {
        let mut rng = Rng::new(seed);
        let n_caches = rng.range(1, 3);
        let trunk4 = (rng.next_u64() as u32 & 0x00ff_ffff) | 0x0a00_0000; // 10.x.y.z
        let trunk6 = ((0x2001_0db8u128) << 96) | (rng.next_u64() as u128) << 32 | rng.next_u64() as u128 >> 32;
        let wide = rng.chance(1, 4); // some cases use the whole length range
        let asns: Vec<u32> = vec![0, 65001, 65002, 65003, 4_200_000_001];
        let n_ops = rng.range(4, if thorough { 60 } else { 30 });
        let mut ops = Vec::new();
        let draw_pfx = |rng: &mut Rng| -> Pfx {
            let v6 = rng.chance(1, 3);
            if v6 {
                let (lo, hi) = if wide { (0, 128) } else { (28, 52) };
                trunk_pfx(rng, true, trunk6, lo, hi)
            } else {
                let (lo, hi) = if wide { (0, 32) } else { (6, 26) };
                trunk_pfx(rng, false, trunk4 as u128, lo, hi)
            }
        };
        let draw_vrp = |rng: &mut Rng| -> (Pfx, u8, u32) {
            let p = draw_pfx(rng);
            let max = if p.v6 { 128 } else { 32 };
            let maxlen = match rng.below(3) {
                0 => p.len,
                1 => (p.len as u64 + rng.below(4)).min(max) as u8,
                _ => rng.range(p.len as u64, max) as u8,
            };
            let asn = *rng.pick(&asns);
            (p, maxlen, asn)
        };
        let mut inserted: Vec<(u64, Pfx, u8, u32)> = Vec::new();
        for _ in 0..n_ops {
            match rng.weighted(&[40, 12, 3, 4, 41]) {
                0 => {
                    let c = rng.below(n_caches);
                    let (p, m, a) = draw_vrp(&mut rng);
                    inserted.push((c, p, m, a));
                    ops.push(jarr!["ins", c, p.to_json(), m as u64, a]);
                }
                1 => {
                    // remove: mostly something that exists (maybe from another cache), sometimes random
                    if !inserted.is_empty() && rng.chance(4, 5) {
                        let (c, p, m, a) = *rng.pick(&inserted);
                        let c = if rng.chance(1, 5) { rng.below(n_caches) } else { c };
                        ops.push(jarr!["rm", c, p.to_json(), m as u64, a]);
                    } else {
                        let c = rng.below(n_caches);
                        let (p, m, a) = draw_vrp(&mut rng);
                        ops.push(jarr!["rm", c, p.to_json(), m as u64, a]);
                    }
                }
                2 => ops.push(jarr!["dropsrc", rng.below(n_caches)]),
                3 => {
                    let c = rng.below(n_caches);
                    let n = rng.below(5);
                    let mut ents = Vec::new();
                    for _ in 0..n {
                        let (p, m, a) = draw_vrp(&mut rng);
                        inserted.push((c, p, m, a));
                        ents.push(jarr![p.to_json(), m as u64, a]);
                    }
                    ops.push(jarr!["reset", c, Json::Arr(ents)]);
                }
                _ => {
                    let p = draw_pfx(&mut rng);
                    // origin: 0 = AS_SEQUENCE tail, 1 = AS_SET tail, 2 = empty path, 3 = no AS_PATH attribute
                    let kind = rng.weighted(&[6, 1, 1, 1]) as u64;
                    let asn = *rng.pick(&asns[1..]);
                    ops.push(jarr!["val", p.to_json(), kind, asn]);
                }
            }
        }
        jobj! {"caches" => n_caches, "local_as" => 65001u64, "ops" => Json::Arr(ops)}
    }

    fn execute(&self, case: &Json, tol: &Tolerate) -> Outcome {
        let mut out = Outcome::default();
        let mut log = LogHash::default();
        let n_caches = case.i("caches", 1) as usize;
        let local_as = case.i("local_as", 65001) as u32;
        let caches: Vec<Arc<IpAddr>> = (0..n_caches.max(1)).map(|i| Arc::new(ip4(198, 51, 100, i as u8 + 1))).collect();
        let mut t = table::RpkiTable::new();
        let mut model: BTreeSet<Vrp> = BTreeSet::new();
        let src = Arc::new(table::Source::new(ip4(10, 0, 0, 9), ip4(10, 0, 0, 1), 65009, local_as, "10.0.0.9".parse().unwrap(), table::PeerRole::Ebgp));
        let mut sig = LogHash::default();

        let check_set = |t: &table::RpkiTable, model: &BTreeSet<Vrp>, caches: &Vec<Arc<IpAddr>>| -> Option<String> {
            let mut got: Vec<Vrp> = Vec::new();
            for fam in [Family::IPV4, Family::IPV6] {
                for (net, roa) in t.iter(fam) {
                    let c = caches.iter().position(|c| Arc::ptr_eq(c, &roa.source)).unwrap_or(255) as u8;
                    got.push((c, Pfx::from_ipnet(&net), roa.max_length, roa.as_number));
                }
            }
            let n = got.len();
            let gs: BTreeSet<Vrp> = got.into_iter().collect();
            if gs.len() != n {
                return Some(format!("duplicate VRP in iter(): {} entries, {} distinct", n, gs.len()));
            }
            if &gs != model {
                let missing: Vec<_> = model.difference(&gs).take(3).collect();
                let extra: Vec<_> = gs.difference(model).take(3).collect();
                return Some(format!("missing {:?} extra {:?}", missing, extra));
            }
            None
        };

        for (i, op) in case.get("ops").map(|o| o.arr()).unwrap_or(&[]).iter().enumerate() {
            let tag = op.at(0).as_str();
            out.steps += 1;
            log.add_str(tag);
            match tag {
                "ins" => {
                    let c = op.at(1).as_usize() % caches.len();
                    let p = Pfx::from_json(op.at(2));
                    let (m, a) = (op.at(3).as_u8(), op.at(4).as_u32());
                    t.insert(p.ipnet(), Arc::new(table::Roa::new(m, a, caches[c].clone())));
                    model.insert((c as u8, p, m, a));
                    out.hit("op.insert");
                }
                "rm" => {
                    let c = op.at(1).as_usize() % caches.len();
                    let p = Pfx::from_json(op.at(2));
                    let (m, a) = (op.at(3).as_u8(), op.at(4).as_u32());
                    t.remove(p.ipnet(), &table::Roa::new(m, a, caches[c].clone()));
                    if model.remove(&(c as u8, p, m, a)) {
                        out.hit("op.remove.existing");
                    } else {
                        out.hit("op.remove.absent");
                    }
                }
                "dropsrc" => {
                    let c = op.at(1).as_usize() % caches.len();
                    t.drop_source(caches[c].clone());
                    model.retain(|v| v.0 != c as u8);
                    out.hit("fault.cache-session-lost(drop_source)");
                }
                "reset" => {
                    let c = op.at(1).as_usize() % caches.len();
                    t.drop_source(caches[c].clone());
                    model.retain(|v| v.0 != c as u8);
                    for e in op.at(2).arr() {
                        let p = Pfx::from_json(e.at(0));
                        let (m, a) = (e.at(1).as_u8(), e.at(2).as_u32());
                        t.insert(p.ipnet(), Arc::new(table::Roa::new(m, a, caches[c].clone())));
                        model.insert((c as u8, p, m, a));
                    }
                    out.hit("op.reset");
                }
                "val" => {
                    let p = Pfx::from_json(op.at(1));
                    let kind = op.at(2).as_u64();
                    let asn = op.at(3).as_u32();
                    let (attrs, origins): (Vec<Attribute>, Vec<Option<u32>>) = match kind {
                        0 => (vec![attr_origin(0), attr_as_path(&[(2, vec![64999, asn])])], vec![Some(asn)]),
                        // AS_SET tail: RFC 6811 says origin NONE; the code falls back to the local AS. The
                        // statement does not fix the derivation, so both are accepted.
                        1 => (vec![attr_origin(0), attr_as_path(&[(2, vec![64999]), (1, vec![asn, 64998])])], vec![None, Some(local_as)]),
                        2 => (vec![attr_origin(0), attr_as_path(&[])], vec![Some(local_as)]),
                        _ => (vec![attr_origin(0)], vec![Some(local_as)]),
                    };
                    let attrs = Arc::new(attrs);
                    let got = t.validate(&src, &p.nlri(), &attrs).map(|v| state_name(v.state)).unwrap_or("notfound");
                    let exps: Vec<&str> = origins.iter().map(|o| exp_state(&model, &p, *o)).collect();
                    log.add_str(got);
                    sig.add_str(got);
                    sig.add_str(exps[0]);
                    out.hit(&format!("validate.expected.{}", exps[0]));
                    if model.iter().any(|v| v.1.covers(&p) && v.1.len < p.len) {
                        out.hit("probe.covering-vrp-shorter-than-route");
                        out.nontrivial = true;
                    }
                    if model.iter().any(|v| p.covers(&v.1) && v.1.len > p.len) {
                        out.hit("probe.more-specific-vrp-present");
                        out.nontrivial = true;
                    }
                    if !exps.contains(&got) {
                        let v = Violation::new(
                            format!("C12/validate/expected-{}-got-{}", exps[0], got),
                            format!("op {}: route {} origin-kind {} asn {}: RFC 6811 says {} but validate() says {}; VRPs: {:?}", i, p, kind, asn, exps[0], got,
                                model.iter().map(|v| format!("c{} {} max{} AS{}", v.0, v.1, v.2, v.3)).collect::<Vec<_>>()),
                        );
                        if out.violate(tol, v) {
                            break;
                        }
                    }
                }
                _ => {}
            }
            if tag != "val" {
                if let Some(d) = check_set(&t, &model, &caches) {
                    let v = Violation::new("C12/set/iter-differs-from-model", format!("after op {} ({}): {}", i, op.to_compact(), d));
                    if out.violate(tol, v) {
                        break;
                    }
                    // resync is not possible for a set defect: stop comparing sets in this run
                    break;
                }
                sig.add_u64(model.len() as u64);
            }
        }
        out.signature = sig.0;
        out.log_hash = log.0;
        out
    }

    fn info(&self) -> CheckInfo {
        CheckInfo {
            rule: "history of VRP insert/remove/drop-source/reset ops from 1-3 caches with validations in between, prefixes on a per-case trunk (+1-bit siblings) so covering/equal/more-specific/sibling all occur; non-trivial = a validation happened while a strictly shorter covering VRP or a more-specific VRP was installed; distinct = hash of (expected,got,set size) sequence".into(),
            components_real: vec!["table::RpkiTable::{insert,remove,drop_source,validate,iter}".into(), "packet::Attribute::as_path_origin".into()],
            components_stubbed: vec!["RTR caches reduced to op sources (the real RTR client is exercised under C13)".into()],
            assumptions: vec!["origin derivation for an AS_SET tail is not fixed by the statement: NONE and local-AS both accepted".into()],
            bounds: "<=60 ops, <=3 caches, IPv4 lengths 0-32, IPv6 0-128".into(),
        }
    }
}
